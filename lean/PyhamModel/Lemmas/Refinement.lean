/-
  C03 in general: levels the file skips.  For every well-formed, recoverable spelled history
  (elided single-member groups, duplications whose copies sit several levels below the enclosing
  written group, groups whose only content is a paralog group) loading the encoding yields a HOG
  that realises the history: every skipped level is materialised as a single-child HOG, every
  duplication event sits directly under a HOG at its own level.
-/
import PyhamModel.Model.RealisesAnn
import PyhamModel.Lemmas.Explicit
namespace Pyham

/-! ### the annotation clause can be forgotten -/

mutual
theorem realisesA_realises' (T : STree) (nm : Naming) : (l : SL) → (q : Taxon) → (n : Node) →
    RealisesA T nm q l n → Realises q l n
  | .gene id loft, q, n, h => by
    simp only [RealisesA] at h
    simp only [Realises]
    exact h
  | .grp w hid label subs, q, n, h => by
    simp only [RealisesA] at h
    simp only [Realises]
    obtain ⟨info, d, kids, dups, h1, _, plain, evs, h2, h3, h4, h5⟩ := h
    exact ⟨info, d, kids, dups, h1, plain, evs, h2, h3, h4, realisesSubsA_realises' T nm subs q plain evs h5⟩
theorem realisesSubsA_realises' (T : STree) (nm : Naming) : (subs : List Sub) → (q : Taxon) →
    (plain : List Node) → (evs : List (DupRec × List Node)) →
    RealisesSubsA T nm q subs plain evs → RealisesSubs q subs plain evs
  | [], q, plain, evs, h => by
    simp only [RealisesSubsA] at h
    simp only [RealisesSubs]
    exact h
  | .one i l :: r, q, plain, evs, h => by
    simp only [RealisesSubsA] at h
    simp only [RealisesSubs]
    obtain ⟨k, plain', h1, h2, h3, h4⟩ := h
    exact ⟨k, plain', h1, h2, realisesA_realises' T nm l (i :: q) k h3,
      realisesSubsA_realises' T nm r q plain' evs h4⟩
  | .dup i pgid cs :: r, q, plain, evs, h => by
    simp only [RealisesSubsA] at h
    simp only [RealisesSubs]
    obtain ⟨rec, ks, evs', h1, h2, h3, h4, h5, h6, h7⟩ := h
    exact ⟨rec, ks, evs', h1, h2, h3, h4, h5, realisesCopiesA_realises' T nm cs (i :: q) ks h6,
      realisesSubsA_realises' T nm r q plain evs' h7⟩
  | .ann _ :: r, q, plain, evs, h => by
    simp only [RealisesSubsA] at h
    simp only [RealisesSubs]
    exact realisesSubsA_realises' T nm r q plain evs h
theorem realisesCopiesA_realises' (T : STree) (nm : Naming) : (cs : List SL) → (q : Taxon) →
    (ks : List Node) → RealisesCopiesA T nm q cs ks → RealisesCopies q cs ks
  | [], q, ks, h => by
    simp only [RealisesCopiesA] at h
    simp only [RealisesCopies]
    exact h
  | c :: cs, q, ks, h => by
    simp only [RealisesCopiesA] at h
    simp only [RealisesCopies]
    obtain ⟨k, ks', h1, h2, h3⟩ := h
    exact ⟨k, ks', h1, realisesA_realises' T nm c q k h2, realisesCopiesA_realises' T nm cs q ks' h3⟩
end

/-- annotations of a HOG the loader synthesises: none -/
def Bare (info : HogInfo) : Prop := info.synth = true ∧ info.scores = [] ∧ info.props = []

theorem chainInfo_bare (uid : Nat) (hid : Option String) : Bare (chainInfo uid hid) := ⟨rfl, rfl, rfl⟩

def isWrittenGrp : SL → Bool
  | .grp w _ _ _ => w
  | _ => false

/-! ### pointwise relations between lists, stable under permutation -/

inductive F2 {α β : Type} (R : α → β → Prop) : List α → List β → Prop
  | nil : F2 R [] []
  | cons {a b as bs} : R a b → F2 R as bs → F2 R (a :: as) (b :: bs)

theorem F2.perm_left {α β : Type} {R : α → β → Prop} {A A' : List α} (hp : A.Perm A') :
    ∀ {B : List β}, F2 R A B → ∃ B', B.Perm B' ∧ F2 R A' B' := by
  induction hp with
  | nil => intro B h; cases h; exact ⟨[], .refl _, .nil⟩
  | cons x _ ih =>
    intro B h
    cases h with
    | cons hr hrest =>
      obtain ⟨B', hp', hf'⟩ := ih hrest
      exact ⟨_ :: B', hp'.cons _, .cons hr hf'⟩
  | swap x y l =>
    intro B h
    cases h with
    | cons hr1 h1 =>
      cases h1 with
      | cons hr2 h2 => exact ⟨_, List.Perm.swap _ _ _, .cons hr2 (.cons hr1 h2)⟩
  | trans _ _ ih1 ih2 =>
    intro B h
    obtain ⟨B1, hp1, hf1⟩ := ih1 h
    obtain ⟨B2, hp2, hf2⟩ := ih2 hf1
    exact ⟨B2, hp1.trans hp2, hf2⟩

theorem F2.append_inv {α β : Type} {R : α → β → Prop} : (A1 : List α) → {A2 : List α} → {B : List β} →
    F2 R (A1 ++ A2) B → ∃ B1 B2, B = B1 ++ B2 ∧ F2 R A1 B1 ∧ F2 R A2 B2
  | [], _, B, h => ⟨[], B, rfl, .nil, h⟩
  | a :: A1, _, _, h => by
    cases h with
    | cons hr hrest =>
      obtain ⟨B1, B2, rfl, h1, h2⟩ := F2.append_inv A1 hrest
      exact ⟨_ :: B1, B2, rfl, .cons hr h1, h2⟩

theorem F2.append {α β : Type} {R : α → β → Prop} : {A1 : List α} → {B1 : List β} → {A2 : List α} →
    {B2 : List β} → F2 R A1 B1 → F2 R A2 B2 → F2 R (A1 ++ A2) (B1 ++ B2)
  | _, _, _, _, .nil, h2 => h2
  | _, _, _, _, .cons hr h1, h2 => .cons hr (F2.append h1 h2)

theorem F2.mono {α β : Type} {R S : α → β → Prop} : {A : List α} → {B : List β} →
    (∀ a ∈ A, ∀ b, R a b → S a b) → F2 R A B → F2 S A B
  | _, _, _, .nil => .nil
  | _, _, h, .cons hr hrest =>
    .cons (h _ (by simp) _ hr) (F2.mono (fun a ha b hab => h a (by simp [ha]) b hab) hrest)

theorem F2.length {α β : Type} {R : α → β → Prop} : {A : List α} → {B : List β} → F2 R A B →
    A.length = B.length
  | _, _, .nil => rfl
  | _, _, .cons _ h => by simp [F2.length h]

theorem F2.mem_right {α β : Type} {R : α → β → Prop} : {A : List α} → {B : List β} → F2 R A B →
    ∀ b ∈ B, ∃ a ∈ A, R a b
  | _, _, .nil, b, hb => by cases hb
  | _, _, .cons hr h, b, hb => by
    rcases List.mem_cons.mp hb with rfl | hb
    · exact ⟨_, by simp, hr⟩
    · obtain ⟨a, ha, hab⟩ := F2.mem_right h b hb
      exact ⟨a, by simp [ha], hab⟩

/-! ### chains of single-child HOGs -/

/-- `top` is `x` wrapped into single-child HOGs at the taxa `ts` (innermost first) -/
inductive Wraps : Node → List Taxon → Node → Prop
  | nil (x : Node) : Wraps x [] x
  | cons {x : Node} {t : Taxon} {ts : List Taxon} {top : Node} (info : HogInfo) (hbare : Bare info) :
      Wraps (.hog info t none [x] []) ts top → Wraps x (t :: ts) top

theorem Wraps.dup_none {x top : Node} {ts : List Taxon} (h : Wraps x ts top) (hx : x.dup = none) :
    top.dup = none := by
  induction h with
  | nil => exact hx
  | cons info _ _ ih => exact ih rfl

theorem Wraps.snoc_inv : (P : List Taxon) → {x top : Node} → {q : Taxon} → Wraps x (P ++ [q]) top →
    ∃ top' info, Bare info ∧ Wraps x P top' ∧ top = .hog info q none [top'] []
  | [], x, top, q, h => by
    cases h with
    | cons info hbare h' =>
      cases h'
      exact ⟨x, info, hbare, .nil x, rfl⟩
  | t :: P, x, top, q, h => by
    cases h with
    | cons info hbare h' =>
      obtain ⟨top', info', h0, h1, h2⟩ := Wraps.snoc_inv P h'
      exact ⟨top', info', h0, .cons info hbare h1, h2⟩

theorem Wraps.nil_inv {x top : Node} (h : Wraps x [] top) : top = x := by
  cases h; rfl

/-- the taxa strictly between `e ++ q` and the parent of `q`, youngest first -/
def between : List Nat → Taxon → List Taxon
  | [], _ => []
  | _ :: e, q => (e ++ q) :: between e q

theorem between_snoc : (e : List Nat) → (j : Nat) → (q : Taxon) →
    between (e ++ [j]) q = between e (j :: q) ++ [q]
  | [], j, q => by simp [between]
  | a :: e, j, q => by
    simp only [List.cons_append, between, between_snoc e j q, List.append_assoc, List.nil_append]

theorem pathUp_between : (e : List Nat) → (i : Nat) → (p : Taxon) →
    pathUp (e ++ i :: p) p = between e (i :: p)
  | [], i, p => by simpa [between] using pathUp_adjacent i p
  | a :: e, i, p => by
    have hne : e ++ i :: p ≠ p := by
      intro h
      have := congrArg List.length h
      simp at this
      omega
    simp only [List.cons_append, pathUp_cons, if_neg hne, between, pathUp_between e i p]

/-- `t` lies strictly below `p` -/
def OKpath (t p : Taxon) : Prop := ∃ e i, t = e ++ i :: p

theorem OKpath.ne {t p : Taxon} (h : OKpath t p) : t ≠ p := by
  obtain ⟨e, i, rfl⟩ := h
  intro h
  have := congrArg List.length h
  simp at this
  omega

theorem OKpath.length {t p : Taxon} (h : OKpath t p) : (t.length != p.length + 1) = false ↔ ∃ i, t = i :: p := by
  obtain ⟨e, i, rfl⟩ := h
  cases e with
  | nil => simp
  | cons a e =>
    simp only [List.cons_append, List.length_cons, List.length_append, bne_eq_false_iff_eq]
    constructor
    · intro h; omega
    · rintro ⟨j, hj⟩
      have := congrArg List.length hj
      simp at this
      omega

/-! ### `Realises` does not look at the flag of the node itself -/

theorem realises_setDup {T : STree} {nm : Naming} (q : Taxon) (l : SL) (n : Node) (d : Option Nat)
    (h : RealisesA T nm q l n) : RealisesA T nm q l (n.setDup d) := by
  cases l with
  | gene id loft =>
    simp only [RealisesA] at h ⊢
    obtain ⟨d', rfl⟩ := h
    exact ⟨d, rfl⟩
  | grp w hid label subs =>
    simp only [RealisesA] at h ⊢
    obtain ⟨info, d', kids, dups, rfl, rest⟩ := h
    exact ⟨info, d, kids, dups, rfl, rest⟩

/-! ### exact evaluation of `addMissing` on a proper path -/

/-- only the counter and the registry changed -/
structure FrA (ps ps' : PS) : Prop where
  pstack : ps'.pstack = ps.pstack
  inpg : ps'.inPG = ps.inPG
  cur : ps'.cur = ps.cur
  dstore : ps'.dstore = ps.dstore
  next : ps.next ≤ ps'.next

theorem FrA.refl (ps : PS) : FrA ps ps := ⟨rfl, rfl, rfl, rfl, Nat.le_refl _⟩

theorem FrA.trans {a b c : PS} (h1 : FrA a b) (h2 : FrA b c) : FrA a c :=
  ⟨h2.pstack.trans h1.pstack, h2.inpg.trans h1.inpg, h2.cur.trans h1.cur, h2.dstore.trans h1.dstore,
    Nat.le_trans h1.next h2.next⟩

theorem FrA.getDup {ps ps' : PS} (h : FrA ps ps') (d : Nat) : ps'.getDup d = ps.getDup d := by
  unfold PS.getDup; rw [h.dstore]

theorem addMissing_between (hid : Option String) (q : Taxon) : (e : List Nat) → (x : Node) → (ps : PS) →
    x.tx = e ++ q →
    ∃ top ps', addMissing hid x (between e q) ps = .ok (top, ps') ∧ Wraps x (between e q) top ∧
      top.tx = q ∧ FrA ps ps' ∧
      ((e = [] ∧ top = x ∧ ps' = ps) ∨ (∃ u, top.key = .h u ∧ ps.next ≤ u ∧ u < ps'.next))
  | [], x, ps, h => ⟨x, ps, rfl, .nil x, by simpa using h, FrA.refl _, Or.inl ⟨rfl, rfl, rfl⟩⟩
  | a :: e, x, ps, h => by
    obtain ⟨top, ps', h1, h2, h3, h4, h5⟩ := addMissing_between hid q e
      (Node.hog (chainInfo ps.next hid) (e ++ q) none [x] [])
      (({ ps with next := ps.next + 1 } : PS).register (e ++ q) (.h ps.next)) rfl
    have hup : (x.tx.up != some (e ++ q)) = false := by
      rw [h]; simp [Taxon.up]
    refine ⟨top, ps', ?_, .cons _ (chainInfo_bare _ _) h2, h3, ?_, Or.inr ?_⟩
    · simp only [between, addMissing, hup, Bool.false_eq_true, if_false]
      exact h1
    · exact ⟨h4.pstack, h4.inpg, h4.cur, h4.dstore, by have := h4.next; simp [PS.register] at this; omega⟩
    · have hn := h4.next
      simp only [PS.register] at hn
      rcases h5 with ⟨_, rfl, rfl⟩ | ⟨u, hu, h6, h7⟩
      · exact ⟨ps.next, rfl, Nat.le_refl _, by simp [PS.register]⟩
      · simp only [PS.register] at h6
        exact ⟨u, hu, by omega, h7⟩

/-- `addMissing` toward `p` from a node strictly below `p` -/
theorem addMissing_pathUp (hid : Option String) (p : Taxon) (x : Node) (ps : PS) (h : OKpath x.tx p) :
    ∃ top ps' i, addMissing hid x (pathUp x.tx p) ps = .ok (top, ps') ∧ Wraps x (pathUp x.tx p) top ∧
      top.tx = i :: p ∧ FrA ps ps' ∧
      ((top = x ∧ ps' = ps) ∨ (∃ u, top.key = .h u ∧ ps.next ≤ u ∧ u < ps'.next)) := by
  obtain ⟨e, i, he⟩ := h
  obtain ⟨top, ps', h1, h2, h3, h4, h5⟩ := addMissing_between hid (i :: p) e x ps he
  rw [he, pathUp_between]
  refine ⟨top, ps', i, h1, h2, h3, h4, ?_⟩
  rcases h5 with ⟨_, h6, h7⟩ | h5
  · exact Or.inl ⟨h6, h7⟩
  · exact Or.inr h5

/-! ### identities among the children while a group is closed -/

def KN (K : List Node) (N : Nat) : Prop := (K.map Node.key).Nodup ∧ UidsBelow N K

theorem KN.perm {K K' : List Node} {N : Nat} (h : KN K N) (hp : K'.Perm K) : KN K' N :=
  ⟨(hp.map Node.key).nodup_iff.mpr h.1, fun k hk => h.2 k (hp.mem_iff.mp hk)⟩

theorem KN.mono {K : List Node} {N N' : Nat} (h : KN K N) (hN : N ≤ N') : KN K N' :=
  ⟨h.1, h.2.mono hN⟩

theorem eraseKey_perm' {K : List Node} {c : Node} {N : Nat} (h : KN K N) (hc : c ∈ K) :
    (c :: eraseKey c.key K).Perm K :=
  (List.perm_append_singleton _ _).symm.trans (eraseKey_perm K c h.1 hc)

theorem KN.append_fresh {K : List Node} {N N' : Nat} {x : Node} (h : KN K N) (hN : N ≤ N')
    (hx : (x.key ∉ K.map Node.key) ∧ ∀ u, x.key = .h u → u < N') : KN (K ++ [x]) N' := by
  refine ⟨?_, ?_⟩
  · rw [List.map_append, List.nodup_append]
    refine ⟨h.1, by simp, ?_⟩
    intro a ha b hb hab
    simp only [List.map_cons, List.map_nil, List.mem_singleton] at hb
    subst hb; subst hab
    exact hx.1 ha
  · rw [uidsBelow_append]
    refine ⟨h.2.mono hN, ?_⟩
    intro k hk u hu
    rw [List.mem_singleton] at hk; subst hk
    exact hx.2 u hu

/-- one round of "remove the child by identity, append the top of its chain" -/
theorem KN.step {K : List Node} {N N' : Nat} {c top : Node} (h : KN K N) (hc : c ∈ K) (hN : N ≤ N')
    (hk : top.key = c.key ∨ ∃ u, top.key = .h u ∧ N ≤ u ∧ u < N') :
    KN (eraseKey c.key K ++ [top]) N' := by
  have hp := eraseKey_perm' h hc
  have h' : KN (c :: eraseKey c.key K) N := h.perm hp
  have h1 : KN (eraseKey c.key K) N :=
    ⟨(List.nodup_cons.mp h'.1).2, fun k hk' => h'.2 k (by simp [hk'])⟩
  apply h1.append_fresh hN
  rcases hk with hk | ⟨u, hu, hu1, hu2⟩
  · rw [hk]
    refine ⟨(List.nodup_cons.mp h'.1).1, ?_⟩
    intro u hu
    have := h.2 c hc u hu
    omega
  · rw [hu]
    refine ⟨?_, ?_⟩
    · intro hm
      obtain ⟨k, hk1, hk2⟩ := List.mem_map.mp hm
      have := h1.2 k hk1 u hk2
      omega
    · intro u' hu'
      cases hu'
      exact hu2

/-! ### the three repair loops, for children strictly below the level -/

theorem setDup_tx (d : Option Nat) (n : Node) : (n.setDup d).tx = n.tx := by cases n <;> rfl

theorem setDup_dup (d : Option Nat) (n : Node) : (n.setDup d).dup = d := by cases n <;> rfl

/-- re-homed copy of a duplication whose level is `p`: chained up, flag on the top of the chain -/
def WD (p : Taxon) (d : Nat) (c m : Node) : Prop :=
  ∃ t0, Wraps (c.setDup none) (pathUp c.tx p) t0 ∧ m = t0.setDup (some d)

/-- child chained up by the generic pass -/
def VG (p : Taxon) (c t : Node) : Prop := Wraps c (pathUp c.tx p) t

theorem perm_tail_of_erase {K : List Node} {c : Node} {N : Nat} {L : List Node} (h : KN K N)
    (hp : K.Perm (c :: L)) : (eraseKey c.key K).Perm L := by
  have hc : c ∈ K := hp.mem_iff.mpr (by simp)
  exact ((eraseKey_perm' h hc).trans hp).cons_inv

theorem rehomeDirect_gen (hid : Option String) (p : Taxon) (d : Nat) :
    (cs K : List Node) → (mem M : List Key) → (R : List Node) → (ps : PS) →
    KN K ps.next → K.Perm (cs ++ R) → mem.Perm (cs.map Node.key ++ M) → (∀ c ∈ cs, OKpath c.tx p) →
    ∃ K' mem' ps' tops, rehomeDirect hid p d cs K mem ps = .ok (K', mem', ps') ∧ K'.Perm (R ++ tops) ∧
      mem'.Perm (M ++ tops.map Node.key) ∧ F2 (WD p d) cs tops ∧ (∀ t ∈ tops, ∃ i, t.tx = i :: p) ∧
      KN K' ps'.next ∧ FrA ps ps'
  | [], K, mem, M, R, ps, hkn, hK, hmem, _ =>
    ⟨K, mem, ps, [], rfl, by simpa using hK, by simpa using hmem, .nil, by simp, hkn, FrA.refl _⟩
  | c :: cs, K, mem, M, R, ps, hkn, hK, hmem, hpath => by
    have hcK : c ∈ K := hK.mem_iff.mpr (by simp)
    have hcm : c.key ∈ mem := hmem.mem_iff.mpr (by simp)
    obtain ⟨top, ps1, i, h1, h2, h3, h4, h5⟩ := addMissing_pathUp (c.chainId hid) p (c.setDup none) ps
      (by rw [setDup_tx]; exact hpath c (by simp))
    rw [setDup_tx] at h1 h2
    have hkn1 : KN (eraseKey c.key K ++ [top.setDup (some d)]) ps1.next := by
      apply hkn.step hcK h4.next
      rw [setDup_key]
      rcases h5 with ⟨rfl, _⟩ | h5
      · exact Or.inl (setDup_key _ _)
      · exact Or.inr h5
    have hK1 : (eraseKey c.key K ++ [top.setDup (some d)]).Perm (cs ++ (R ++ [top.setDup (some d)])) := by
      have := perm_tail_of_erase hkn (by simpa using hK)
      rw [← List.append_assoc]
      exact this.append_right _
    have hm1 : (mem.erase c.key ++ [top.key]).Perm (cs.map Node.key ++ (M ++ [top.key])) := by
      have := hmem.erase c.key
      simp only [List.map_cons, List.cons_append, List.erase_cons_head] at this
      rw [← List.append_assoc]
      exact this.append_right _
    obtain ⟨K', mem', ps', tops, he, hp1, hp2, hf, htx, hkn', hfr⟩ := rehomeDirect_gen hid p d cs _ _ _ _ ps1
      hkn1 hK1 hm1 (fun c' hc' => hpath c' (by simp [hc']))
    refine ⟨K', mem', ps', top.setDup (some d) :: tops, ?_, ?_, ?_, .cons ⟨top, h2, rfl⟩ hf, ?_, hkn',
      h4.trans hfr⟩
    · have hcm' : mem.contains c.key = true := by simpa using hcm
      simp only [rehomeDirect, bind, Except.bind, h1, hcm', Bool.not_true, Bool.false_eq_true, if_false]
      exact he
    · simpa using hp1
    · simpa [setDup_key] using hp2
    · intro t ht
      rcases List.mem_cons.mp ht with rfl | ht
      · exact ⟨i, by rw [setDup_tx]; exact h3⟩
      · exact htx t ht

theorem rehomeUnder_gen (hid : Option String) (q : Taxon) :
    (cs K mk R : List Node) → (ps : PS) →
    KN K ps.next → K.Perm (cs ++ R) → (∀ c ∈ cs, OKpath c.tx q) →
    ∃ K' ps' tops, rehomeUnder hid q cs K mk ps = .ok (K', mk ++ tops, ps') ∧ K'.Perm R ∧
      F2 (fun c t => Wraps (c.setDup none) (pathUp c.tx q) t) cs tops ∧ KN K' ps.next ∧ FrA ps ps'
  | [], K, mk, R, ps, hkn, hK, _ =>
    ⟨K, ps, [], by simp [rehomeUnder], by simpa using hK, .nil, hkn, FrA.refl _⟩
  | c :: cs, K, mk, R, ps, hkn, hK, hpath => by
    have hcK : c ∈ K := hK.mem_iff.mpr (by simp)
    obtain ⟨top, ps1, i, h1, h2, h3, h4, h5⟩ := addMissing_pathUp (c.chainId hid) q (c.setDup none) ps
      (by rw [setDup_tx]; exact hpath c (by simp))
    rw [setDup_tx] at h1 h2
    have hK1 : (eraseKey c.key K).Perm (cs ++ R) := perm_tail_of_erase hkn (by simpa using hK)
    have hkn1 : KN (eraseKey c.key K) ps1.next := by
      have h' : KN (c :: eraseKey c.key K) ps.next := hkn.perm (eraseKey_perm' hkn hcK)
      exact ⟨(List.nodup_cons.mp h'.1).2, fun k hk' => (h'.2.mono h4.next) k (by simp [hk'])⟩
    obtain ⟨K', ps', tops, he, hp1, hf, hkn', hfr⟩ := rehomeUnder_gen hid q cs _ (mk ++ [top]) R ps1 hkn1 hK1
      (fun c' hc' => hpath c' (by simp [hc']))
    have hsub : KN K' ps.next := by
      have hs : ∀ k ∈ K', k ∈ K := fun k hk =>
        mem_of_mem_eraseKey (hK1.mem_iff.mpr (List.mem_append_right _ (hp1.mem_iff.mp hk)))
      exact ⟨hkn'.1, fun k hk => hkn.2 k (hs k hk)⟩
    refine ⟨K', ps', top :: tops, ?_, hp1, .cons h2 hf, hsub, h4.trans hfr⟩
    simp only [rehomeUnder, bind, Except.bind, h1]
    rw [he]
    simp

theorem genericPass_gen (hid : Option String) (p : Taxon) :
    (cs K R : List Node) → (ps : PS) →
    KN K ps.next → K.Perm (cs ++ R) → (∀ c ∈ cs, OKpath c.tx p) →
    ∃ K' ps' tops, genericPass hid p cs K ps = .ok (K', ps') ∧ K'.Perm (R ++ tops) ∧
      F2 (VG p) cs tops ∧ KN K' ps'.next ∧ FrA ps ps'
  | [], K, R, ps, hkn, hK, _ => ⟨K, ps, [], rfl, by simpa using hK, .nil, hkn, FrA.refl _⟩
  | c :: cs, K, R, ps, hkn, hK, hpath => by
    have hcK : c ∈ K := hK.mem_iff.mpr (by simp)
    obtain ⟨top, ps1, i, h1, h2, h3, h4, h5⟩ := addMissing_pathUp (c.chainId hid) p c ps (hpath c (by simp))
    have hkn1 : KN (eraseKey c.key K ++ [top]) ps1.next := by
      apply hkn.step hcK h4.next
      rcases h5 with ⟨rfl, _⟩ | h5
      · exact Or.inl rfl
      · exact Or.inr h5
    have hK1 : (eraseKey c.key K ++ [top]).Perm (cs ++ (R ++ [top])) := by
      have := perm_tail_of_erase hkn (by simpa using hK)
      rw [← List.append_assoc]
      exact this.append_right _
    obtain ⟨K', ps', tops, he, hp1, hf, hkn', hfr⟩ := genericPass_gen hid p cs _ _ ps1 hkn1 hK1
      (fun c' hc' => hpath c' (by simp [hc']))
    refine ⟨K', ps', top :: tops, ?_, by simpa using hp1, .cons h2 hf, hkn', h4.trans hfr⟩
    simp only [genericPass, bind, Except.bind, h1]
    exact he

/-! ### one duplication step, both branches -/

/-- frames kept, counter grows, the set of stored duplications is unchanged -/
structure FrC (ps ps' : PS) : Prop where
  pstack : ps'.pstack = ps.pstack
  inpg : ps'.inPG = ps.inPG
  cur : ps'.cur = ps.cur
  next : ps.next ≤ ps'.next
  dids : ps'.dstore.map (·.did) = ps.dstore.map (·.did)

theorem FrC.refl (ps : PS) : FrC ps ps := ⟨rfl, rfl, rfl, Nat.le_refl _, rfl⟩

theorem FrC.trans {a b c : PS} (h1 : FrC a b) (h2 : FrC b c) : FrC a c :=
  ⟨h2.pstack.trans h1.pstack, h2.inpg.trans h1.inpg, h2.cur.trans h1.cur, Nat.le_trans h1.next h2.next,
    h2.dids.trans h1.dids⟩

theorem FrA.toFrC {ps ps' : PS} (h : FrA ps ps') : FrC ps ps' :=
  ⟨h.pstack, h.inpg, h.cur, h.next, by rw [h.dstore]⟩

theorem FrD.toFrC {ps ps' : PS} (h : FrD ps ps') : FrC ps ps' :=
  ⟨h.pstack, h.inpg, h.cur, by rw [h.next]; exact Nat.le_refl _, h.dids⟩

theorem FrC.toFr {ps ps' : PS} (h : FrC ps ps') (hd : DidsBelow ps) : Fr ps ps' :=
  ⟨h.pstack, h.inpg, h.cur, h.next, by
    intro d hd'; rw [h.dids] at hd'; exact Nat.lt_of_lt_of_le (hd d hd') h.next⟩

theorem F2.map_right {α β γ : Type} {R : α → β → Prop} (f : β → γ) : {A : List α} → {B : List β} →
    F2 R A B → F2 (fun a c => ∃ b, R a b ∧ c = f b) A (B.map f)
  | _, _, .nil => .nil
  | _, _, .cons hr h => .cons ⟨_, hr, rfl⟩ (F2.map_right f h)

theorem filter_flag_perm {K A R : List Node} {d : Nat} (hK : K.Perm (A ++ R))
    (hA : ∀ a ∈ A, a.dup = some d) (hR : ∀ k ∈ R, k.dup ≠ some d) :
    (K.filter (fun k => k.dup == some d)).Perm A ∧ K.Perm (K.filter (fun k => k.dup == some d) ++ R) := by
  have h1 : (A ++ R).filter (fun k => k.dup == some d) = A := by
    rw [List.filter_append, List.filter_eq_self.mpr (fun a ha => by simp [hA a ha]),
      List.filter_eq_nil_iff.mpr (fun k hk => by simpa using hR k hk), List.append_nil]
  have h2 : (K.filter (fun k => k.dup == some d)).Perm A := by
    have := hK.filter (fun k => k.dup == some d)
    rwa [h1] at this
  exact ⟨h2, hK.trans (h2.symm.append_right R)⟩

theorem dupStep_direct_gen (hid : Option String) (p : Taxon) (st : CloseSt) (d : Nat) (b : DupBuild)
    (A R : List Node)
    (hg : st.ps.getDup d = some b) (hm : b.mrca = some p) (hkn : KN st.kids st.ps.next)
    (hK : st.kids.Perm (A ++ R)) (hA : ∀ a ∈ A, a.dup = some d) (hR : ∀ k ∈ R, k.dup ≠ some d)
    (hmem : b.members.Perm (A.map Node.key)) (hpath : ∀ a ∈ A, OKpath a.tx p) :
    ∃ st' rec tops A', dupStep hid p st d = .ok st' ∧ st'.kids.Perm (R ++ tops) ∧
      st'.dups = st.dups ++ [rec] ∧ rec.did = d ∧ rec.pgid = b.pgid ∧ rec.mrca = p ∧
      rec.members.Perm (tops.map Node.key) ∧ A'.Perm A ∧ F2 (WD p d) A' tops ∧
      (∀ t ∈ tops, ∃ i, t.tx = i :: p) ∧ KN st'.kids st'.ps.next ∧ FrC st.ps st'.ps ∧
      ∀ d0, d0 ≠ d → st'.ps.getDup d0 = st.ps.getDup d0 := by
  obtain ⟨hch, hK'⟩ := filter_flag_perm hK hA hR
  have hmem' : b.members.Perm ((st.kids.filter (fun k => k.dup == some d)).map Node.key) :=
    hmem.trans (hch.map Node.key).symm
  obtain ⟨K', mem', ps', tops, he, hp1, hp2, hf, htx, hkn', hfr⟩ := rehomeDirect_gen hid p d
    (st.kids.filter (fun k => k.dup == some d)) st.kids b.members [] R st.ps hkn hK' (by simpa using hmem')
    (fun c hc => hpath c (hch.mem_iff.mp hc))
  have hf' : ∀ b : DupBuild, ({ b with members := mem' } : DupBuild).did = b.did := fun _ => rfl
  refine ⟨{ kids := K', dups := st.dups ++ [{ did := d, pgid := b.pgid, mrca := p, members := mem' }],
            ps := ps'.modDup d (fun b => { b with members := mem' }) },
    { did := d, pgid := b.pgid, mrca := p, members := mem' }, tops, _, ?_, hp1, rfl, rfl, rfl, rfl,
    by simpa using hp2, hch, hf, htx, hkn', hfr.toFrC.trans (FrD.modDup _ _ _ hf').toFrC, ?_⟩
  · simp only [dupStep, bind, Except.bind, hg, hm, sameKeys_of_perm hmem', Bool.not_true, Bool.false_eq_true,
      if_false, bne_self_eq_false, he]
  · intro d0 hd0
    show (ps'.modDup d _).getDup d0 = _
    rw [getDup_modDup _ _ _ _ hf', if_neg hd0, hfr.getDup]

theorem dupStep_mrca_gen (hid : Option String) (p m : Taxon) (st : CloseSt) (d : Nat) (b : DupBuild)
    (A R : List Node)
    (hg : st.ps.getDup d = some b) (hm : b.mrca = some m) (hne : m ≠ p) (hkn : KN st.kids st.ps.next)
    (hK : st.kids.Perm (A ++ R)) (hA : ∀ a ∈ A, a.dup = some d) (hR : ∀ k ∈ R, k.dup ≠ some d)
    (hmem : b.members.Perm (A.map Node.key)) (hpath : ∀ a ∈ A, OKpath a.tx m) :
    ∃ st' info rec mk A', dupStep hid p st d = .ok st' ∧
      st'.kids.Perm (R ++ [Node.hog info m none mk [rec]]) ∧
      st'.dups = st.dups ∧ Bare info ∧ rec.did = d ∧ rec.pgid = b.pgid ∧ rec.mrca = m ∧
      rec.members = mk.map Node.key ∧ A'.Perm A ∧ F2 (WD m d) A' mk ∧
      KN st'.kids st'.ps.next ∧ FrC st.ps st'.ps ∧
      ∀ d0, d0 ≠ d → st'.ps.getDup d0 = st.ps.getDup d0 := by
  obtain ⟨hch, hK'⟩ := filter_flag_perm hK hA hR
  have hmem' : b.members.Perm ((st.kids.filter (fun k => k.dup == some d)).map Node.key) :=
    hmem.trans (hch.map Node.key).symm
  obtain ⟨K', ps', tops, he, hp1, hf, hkn', hfr⟩ := rehomeUnder_gen hid m
    (st.kids.filter (fun k => k.dup == some d)) st.kids [] R
    (({ st.ps with next := st.ps.next + 1 } : PS).register m (.h st.ps.next))
    (hkn.mono (Nat.le_succ _)) hK' (fun c hc => hpath c (hch.mem_iff.mp hc))
  have hn' : st.ps.next + 1 ≤ ps'.next := hfr.next
  have hkn' : KN K' (st.ps.next + 1) := hkn'
  let mk := tops.map (Node.setDup (some d))
  let rec_ : DupRec := { did := d, pgid := b.pgid, mrca := m, members := mk.map Node.key }
  have hf' : ∀ b : DupBuild, ({ b with members := mk.map Node.key } : DupBuild).did = b.did := fun _ => rfl
  refine ⟨{ kids := K' ++ [Node.hog (chainInfo st.ps.next hid) m none mk [rec_]], dups := st.dups,
            ps := ps'.modDup d (fun b => { b with members := mk.map Node.key }) },
    chainInfo st.ps.next hid, rec_, mk, _, ?_, hp1.append_right _, rfl, chainInfo_bare _ _, rfl, rfl, rfl, rfl,
    hch, ?_, ?_, ?_, ?_⟩
  · have hne' : (m != p) = true := by simpa using hne
    simp only [dupStep, bind, Except.bind, hg, hm, sameKeys_of_perm hmem', Bool.not_true, Bool.false_eq_true,
      if_false, hne', if_true, he, List.nil_append]
    rfl
  · exact F2.mono (fun a _ c h => by obtain ⟨t, h1, h2⟩ := h; exact ⟨t, h1, h2⟩)
      (F2.map_right (Node.setDup (some d)) hf)
  · apply KN.append_fresh (N' := ps'.next) hkn' (by omega)
    refine ⟨?_, ?_⟩
    · intro hmem
      obtain ⟨k, hk1, hk2⟩ := List.mem_map.mp hmem
      have hkK : k ∈ st.kids := hK'.mem_iff.mpr (List.mem_append_right _ (hp1.mem_iff.mp hk1))
      have := hkn.2 k hkK st.ps.next hk2
      omega
    · intro u hu
      simp only [Node.key, chainInfo, Key.h.injEq] at hu
      show u < ps'.next
      omega
  · refine ⟨hfr.pstack, hfr.inpg, hfr.cur, ?_, ?_⟩
    · show st.ps.next ≤ ps'.next; omega
    · have := modDup_dids ps' d _ hf'
      rw [this, hfr.dstore]; rfl
  · intro d0 hd0
    show (ps'.modDup d _).getDup d0 = _
    rw [getDup_modDup _ _ _ _ hf', if_neg hd0, hfr.getDup]
    rfl

/-! ### all duplication steps -/

/-- a duplication as seen when the enclosing written group is closed -/
structure Ev where
  did : Nat
  pgid : Option String
  lvl : Taxon
  A : List Node

/-- the store holds the event with the keys of its apparent members -/
def EvSt (ps : PS) (ev : Ev) : Prop :=
  ps.getDup ev.did =
    some { did := ev.did, pgid := ev.pgid, members := ev.A.map Node.key, mrca := some ev.lvl }

/-- the synthesised HOG of a duplication below the level of the written group -/
def MH (ev : Ev) (g : Node) : Prop :=
  ∃ info rec mk A', g = Node.hog info ev.lvl none mk [rec] ∧ Bare info ∧ rec.did = ev.did ∧ rec.pgid = ev.pgid ∧
    rec.mrca = ev.lvl ∧ rec.members = mk.map Node.key ∧ A'.Perm ev.A ∧ F2 (WD ev.lvl ev.did) A' mk

/-- what the duplication pass makes of an event: a record plus re-homed copies, or one new HOG -/
def EvOut1 (p : Taxon) (ev : Ev) (o : Option DupRec × List Node) : Prop :=
  (ev.lvl = p ∧ ∃ rec tops A', o = (some rec, tops) ∧ rec.did = ev.did ∧ rec.pgid = ev.pgid ∧ rec.mrca = p ∧
      rec.members.Perm (tops.map Node.key) ∧ A'.Perm ev.A ∧ F2 (WD p ev.did) A' tops ∧
      (∀ t ∈ tops, ∃ i, t.tx = i :: p)) ∨
  (ev.lvl ≠ p ∧ ∃ g, o = (none, [g]) ∧ MH ev g)

theorem WD.dup {p : Taxon} {d : Nat} {c m : Node} (h : WD p d c m) : m.dup = some d := by
  obtain ⟨t, _, rfl⟩ := h
  exact setDup_dup _ _

theorem dupSteps_gen (hid : Option String) (p : Taxon) :
    (evs : List Ev) → (st : CloseSt) → (R : List Node) →
    KN st.kids st.ps.next → st.kids.Perm (R ++ evs.flatMap (·.A)) → (evs.map (·.did)).Nodup →
    (∀ k ∈ R, ∀ ev ∈ evs, k.dup ≠ some ev.did) →
    (∀ ev ∈ evs, (∀ a ∈ ev.A, a.dup = some ev.did) ∧ EvSt st.ps ev ∧ (ev.lvl = p ∨ OKpath ev.lvl p) ∧
      (∀ a ∈ ev.A, OKpath a.tx ev.lvl)) →
    ∃ st' outs, dupSteps hid p (evs.map (·.did)) st = .ok st' ∧ st'.kids.Perm (R ++ outs.flatMap (·.2)) ∧
      st'.dups = st.dups ++ outs.filterMap (·.1) ∧ F2 (EvOut1 p) evs outs ∧
      (∀ o ∈ outs, ∀ k ∈ o.2, OKpath k.tx p) ∧
      KN st'.kids st'.ps.next ∧ FrC st.ps st'.ps ∧
      ∀ d0, d0 ∉ evs.map (·.did) → st'.ps.getDup d0 = st.ps.getDup d0
  | [], st, R, hkn, hK, _, _, _ =>
    ⟨st, [], rfl, by simpa using hK, by simp, .nil, by simp, hkn, FrC.refl _, fun _ _ => rfl⟩
  | ev :: evs, st, R, hkn, hK, hnd, hR, hev => by
    obtain ⟨hA, hst, hlvl, hpath⟩ := hev ev (by simp)
    simp only [List.map_cons, List.nodup_cons] at hnd
    have hne_of : ∀ ev' ∈ evs, ev'.did ≠ ev.did := by
      intro ev' he' heq
      exact hnd.1 (heq ▸ List.mem_map.mpr ⟨ev', he', rfl⟩)
    -- the step for `ev`
    have hK1 : st.kids.Perm (ev.A ++ (R ++ evs.flatMap (·.A))) := by
      refine hK.trans ?_
      simp only [List.flatMap_cons]
      exact List.perm_append_comm_assoc _ _ _
    have hR1 : ∀ k ∈ R ++ evs.flatMap (·.A), k.dup ≠ some ev.did := by
      intro k hk
      rcases List.mem_append.mp hk with hk | hk
      · exact hR k hk ev (by simp)
      · obtain ⟨ev', he', hk'⟩ := List.mem_flatMap.mp hk
        rw [(hev ev' (by simp [he'])).1 k hk']
        intro h
        exact hne_of ev' he' (by simpa using h)
    have hstep : ∃ st1 o, dupStep hid p st ev.did = .ok st1 ∧
        st1.kids.Perm ((R ++ evs.flatMap (·.A)) ++ o.2) ∧ st1.dups = st.dups ++ (o.1).toList ∧ EvOut1 p ev o ∧
        (∀ k ∈ o.2, OKpath k.tx p ∧ (k.dup = none ∨ k.dup = some ev.did)) ∧
        KN st1.kids st1.ps.next ∧ FrC st.ps st1.ps ∧
        ∀ d0, d0 ≠ ev.did → st1.ps.getDup d0 = st.ps.getDup d0 := by
      by_cases hl : ev.lvl = p
      · obtain ⟨st1, rec, tops, A', h1, h2, h3, h4, h5, h6, h7, h8, h9, h10, h11, h12, h13⟩ :=
          dupStep_direct_gen hid p st ev.did _ ev.A _ hst (by simp [hl]) hkn hK1 hA hR1 (.refl _)
            (by rw [← hl]; exact hpath)
        refine ⟨st1, (some rec, tops), h1, h2, by simpa using h3,
          Or.inl ⟨hl, rec, tops, A', rfl, h4, h5, h6, h7, h8, h9, h10⟩, ?_, h11, h12, h13⟩
        intro k hk
        obtain ⟨i, hi⟩ := h10 k hk
        obtain ⟨a, _, ha⟩ := h9.mem_right k hk
        exact ⟨⟨[], i, by simpa using hi⟩, Or.inr ha.dup⟩
      · obtain ⟨st1, info, rec, mk, A', h1, h2, h3, h0, h4, h5, h6, h7, h8, h9, h11, h12, h13⟩ :=
          dupStep_mrca_gen hid p ev.lvl st ev.did _ ev.A _ hst rfl hl hkn hK1 hA hR1 (.refl _) hpath
        refine ⟨st1, (none, [Node.hog info ev.lvl none mk [rec]]), h1, h2, by simpa using h3,
          Or.inr ⟨hl, _, rfl, info, rec, mk, A', rfl, h0, h4, h5, h6, h7, h8, h9⟩, ?_, h11, h12, h13⟩
        intro k hk
        simp only [List.mem_singleton] at hk
        subst hk
        rcases hlvl with h | h
        · exact absurd h hl
        · exact ⟨h, Or.inl rfl⟩
    obtain ⟨st1, o, h1, h2, h3, h4, h5, h6, h7, h8⟩ := hstep
    -- the remaining events
    obtain ⟨st', outs, i1, i2, i3, i4, i5, i6, i7, i8⟩ := dupSteps_gen hid p evs st1 (R ++ o.2) h6
      (h2.trans (by
        simp only [List.append_assoc]
        exact List.Perm.append_left _ List.perm_append_comm))
      hnd.2
      (by
        intro k hk ev' he'
        rcases List.mem_append.mp hk with hk | hk
        · exact hR k hk ev' (by simp [he'])
        · rcases (h5 k hk).2 with h | h
          · rw [h]; simp
          · rw [h]
            intro heq
            exact hne_of ev' he' (by simpa using heq.symm))
      (by
        intro ev' he'
        obtain ⟨a1, a2, a3, a4⟩ := hev ev' (by simp [he'])
        refine ⟨a1, ?_, a3, a4⟩
        unfold EvSt
        rw [h8 _ (hne_of ev' he')]
        exact a2)
    refine ⟨st', o :: outs, ?_, ?_, ?_, .cons h4 i4, ?_, i6, h7.trans i7, ?_⟩
    · simp only [List.map_cons, dupSteps, bind, Except.bind, h1]
      exact i1
    · simpa [List.append_assoc] using i2
    · rw [i3, h3]
      obtain ⟨o1, o2⟩ := o
      cases o1 <;> simp
    · intro o' ho' k hk
      rcases List.mem_cons.mp ho' with rfl | ho'
      · exact (h5 k hk).1
      · exact i5 o' ho' k hk
    · intro d0 hd0
      simp only [List.map_cons, List.mem_cons, not_or] at hd0
      rw [i8 d0 hd0.2, h8 d0 hd0.1]

/-! ### the level of a written group -/

theorem liftLevel_append_ok (ps : PS) : (A : List Node) → {B : List Node} → {lv lv' : Taxon} →
    liftLevel ps A lv = .ok lv' → liftLevel ps (A ++ B) lv = liftLevel ps B lv'
  | [], B, lv, lv', h => by
    simp only [liftLevel, Except.ok.injEq] at h
    subst h; rfl
  | k :: A, B, lv, lv', h => by
    simp only [List.cons_append]
    cases hd : k.dup with
    | none =>
      simp only [liftLevel, hd] at h ⊢
      exact liftLevel_append_ok ps A h
    | some d =>
      cases hg : ps.getDup d with
      | none => simp [liftLevel, hd, hg] at h
      | some b =>
        cases hm : b.mrca with
        | none => simp [liftLevel, hd, hg, hm] at h
        | some m =>
          simp only [liftLevel, hd, hg, hm] at h ⊢
          exact liftLevel_append_ok ps A h

theorem liftLevel_congr (ps ps' : PS) : (K : List Node) → (lv : Taxon) →
    (∀ k ∈ K, ∀ d, k.dup = some d → ps'.getDup d = ps.getDup d) →
    liftLevel ps' K lv = liftLevel ps K lv
  | [], lv, _ => rfl
  | k :: K, lv, h => by
    have ih := fun lv => liftLevel_congr ps ps' K lv (fun k hk => h k (by simp [hk]))
    cases hd : k.dup with
    | none => simp only [liftLevel, hd, ih]
    | some d =>
      have hgd := h k (by simp) d hd
      cases hg : ps.getDup d with
      | none => simp only [liftLevel, hd, hgd, hg]
      | some b =>
        cases hm : b.mrca with
        | none => simp only [liftLevel, hd, hgd, hg, hm]
        | some m => simp only [liftLevel, hd, hgd, hg, hm, ih]

/-- the step of the fold in `liftLevel` / `ruleLevel` -/
def lstep (lv m : Taxon) : Taxon := if isProperAncestor m lv then m else lv

theorem lstep_idem (lv m : Taxon) : lstep (lstep lv m) m = lstep lv m := by
  unfold lstep
  by_cases h : isProperAncestor m lv = true
  · have : isProperAncestor m m = false := by
      cases hh : isProperAncestor m m with
      | false => rfl
      | true => exact absurd rfl ((isProperAncestor_iff m m).mp hh).2
    simp [h, this]
  · simp [h]

theorem liftLevel_block (ps : PS) (d : Nat) (b : DupBuild) (m : Taxon) (hg : ps.getDup d = some b)
    (hm : b.mrca = some m) : (A : List Node) → (lv : Taxon) → A ≠ [] → (∀ a ∈ A, a.dup = some d) →
    liftLevel ps A lv = .ok (lstep lv m)
  | [], _, h, _ => absurd rfl h
  | a :: A, lv, _, hA => by
    have hstable : ∀ A : List Node, (∀ a ∈ A, a.dup = some d) →
        liftLevel ps A (lstep lv m) = .ok (lstep lv m) := by
      intro A
      induction A with
      | nil => intro _; rfl
      | cons a A ih =>
        intro hA
        simp only [liftLevel, hA a (by simp), hg, hm]
        have := lstep_idem lv m
        unfold lstep at this ⊢
        rw [this]
        exact ih (fun a ha => hA a (by simp [ha]))
    simp only [liftLevel, hA a (by simp), hg, hm]
    exact hstable A (fun a ha => hA a (by simp [ha]))

theorem liftLevel_unflagged (ps : PS) (x : Node) (lv : Taxon) (h : x.dup = none) :
    liftLevel ps [x] lv = .ok lv := by
  simp [liftLevel, h]

theorem inferLevel_gen (env : Env) (hn : NamesInj env.T env.nm) (hb : HogBuild) (p : Taxon)
    (spill : List Taxon)
    (hp : ∃ s, env.T.nameAt env.nm p = some s)
    (hprops : hb.info.props.lookup "TaxRange" = none ∨
      hb.info.props.lookup "TaxRange" = some (nameOrEmpty env.T env.nm p))
    (htx : ∀ k ∈ hb.kids, OKpath k.tx p)
    (hrule : ruleLevel (hb.kids.map Node.tx) spill = some p) :
    ∃ lv0, inferLevel env hb = .ok (.at lv0) ∧ spill.foldl lstep lv0 = p := by
  unfold ruleLevel at hrule
  unfold inferLevel
  cases hd : dedup (hb.kids.map Node.tx) with
  | nil => rw [hd] at hrule; simp at hrule
  | cons a r =>
    cases r with
    | nil =>
      rw [hd] at hrule
      have ha : a ∈ hb.kids.map Node.tx := (mem_dedup a _).mp (by rw [hd]; simp)
      obtain ⟨k, hk, rfl⟩ := List.mem_map.mp ha
      have hne := (htx k hk).ne
      cases hup : k.tx.up with
      | none => simp [hup] at hrule
      | some u =>
        simp only [hup, Option.map_some, Option.some.injEq] at hrule
        refine ⟨u, ?_, hrule⟩
        simp only
        split
        · rename_i v n hv hg
          have hvn : (v == n) = false := by
            simp only [beq_eq_false_iff_ne, ne_eq]
            intro he
            subst he
            rcases hprops with h1 | h1
            · rw [h1] at hv; cases hv
            · rw [h1] at hv
              obtain ⟨s, hs⟩ := hp
              have h2 : nameOrEmpty env.T env.nm p = s := by simp [nameOrEmpty, hs]
              rw [h2] at hv
              cases hv
              exact hne (hn _ _ _ hg hs)
          simp [hvn, hup]
        · simp [hup]
    | cons b r' =>
      rw [hd] at hrule
      simp only [Option.map_some, Option.some.injEq] at hrule
      exact ⟨_, rfl, hrule⟩

/-! ### closing a written group: all passes together -/

theorem F2.comp {α β γ : Type} {R : α → β → Prop} {S : β → γ → Prop} : {A : List α} → {B : List β} →
    {C : List γ} → F2 R A B → F2 S B C → F2 (fun a c => ∃ b, R a b ∧ S b c) A C
  | _, _, _, .nil, .nil => .nil
  | _, _, _, .cons hr h, .cons hs h' => .cons ⟨_, hr, hs⟩ (F2.comp h h')

/-- the generic pass as a pointwise image: good children are their own image -/
theorem F2.merge_filter {R : Node → Node → Prop} (bad : Node → Bool) : (K : List Node) → {tops : List Node} →
    (∀ x ∈ K, bad x = false → R x x) → F2 R (K.filter bad) tops →
    ∃ L, F2 R K L ∧ L.Perm (K.filter (fun x => !bad x) ++ tops)
  | [], _, _, h => by cases h; exact ⟨[], .nil, .refl _⟩
  | x :: K, tops, hgood, h => by
    by_cases hb : bad x = true
    · simp only [List.filter_cons, hb, if_true] at h
      cases h with
      | cons hr hrest =>
        rename_i t tops'
        obtain ⟨L, h1, h2⟩ := F2.merge_filter bad K (fun y hy => hgood y (by simp [hy])) hrest
        refine ⟨t :: L, .cons hr h1, ?_⟩
        simp only [List.filter_cons, hb, Bool.not_true, Bool.false_eq_true, if_false]
        exact (h2.cons t).trans List.perm_middle.symm
    · have hb' : bad x = false := by simpa using hb
      simp only [List.filter_cons, hb', Bool.false_eq_true, if_false] at h
      obtain ⟨L, h1, h2⟩ := F2.merge_filter bad K (fun y hy => hgood y (by simp [hy])) h
      refine ⟨x :: L, .cons (hgood x (by simp) hb') h1, ?_⟩
      simp only [List.filter_cons, hb', Bool.not_false, if_true, List.cons_append]
      exact h2.cons x

theorem F2.flatMap_inv {R : Node → Node → Prop} : (outs : List (Option DupRec × List Node)) → {B : List Node} →
    F2 R (outs.flatMap (·.2)) B →
    ∃ outs2 : List (Option DupRec × List Node), B = outs2.flatMap (·.2) ∧
      F2 (fun o o2 => o2.1 = o.1 ∧ F2 R o.2 o2.2) outs outs2
  | [], B, h => by cases h; exact ⟨[], rfl, .nil⟩
  | o :: outs, B, h => by
    simp only [List.flatMap_cons] at h
    obtain ⟨B1, B2, rfl, h1, h2⟩ := F2.append_inv _ h
    obtain ⟨outs2, rfl, h3⟩ := F2.flatMap_inv outs h2
    exact ⟨(o.1, B1) :: outs2, by simp, .cons ⟨rfl, h1⟩ h3⟩

theorem F2.filterMap_fst {R : List Node → List Node → Prop} :
    {outs outs2 : List (Option DupRec × List Node)} →
    F2 (fun o o2 => o2.1 = o.1 ∧ R o.2 o2.2) outs outs2 → outs2.filterMap (·.1) = outs.filterMap (·.1)
  | _, _, .nil => rfl
  | _, _, .cons hr h => by
    simp only [List.filterMap_cons, hr.1, F2.filterMap_fst h]

/-- an event after both the duplication pass and the generic pass -/
def EvOut2 (p : Taxon) (ev : Ev) (o2 : Option DupRec × List Node) : Prop :=
  ∃ o, EvOut1 p ev o ∧ o2.1 = o.1 ∧ F2 (VG p) o.2 o2.2

theorem VG.self_of_adjacent {p : Taxon} {x : Node} {i : Nat} (h : x.tx = i :: p) : VG p x x := by
  unfold VG
  rw [h, pathUp_adjacent]
  exact .nil x

theorem closeOg_gen (env : Env) (hn : NamesInj env.T env.nm) (top : Bool) (hb : HogBuild) (ps : PS)
    (p : Taxon) (evs : List Ev) (U : List Node) (spill : List Taxon)
    (hp : ∃ s, env.T.nameAt env.nm p = some s)
    (hprops : hb.info.props.lookup "TaxRange" = none ∨
      hb.info.props.lookup "TaxRange" = some (nameOrEmpty env.T env.nm p))
    (htx : ∀ k ∈ hb.kids, OKpath k.tx p) (hkn : KN hb.kids ps.next)
    (hK : hb.kids.Perm (U ++ evs.flatMap (·.A))) (hU : ∀ u ∈ U, u.dup = none)
    (hdg : dupGroups hb.kids = evs.map (·.did))
    (hev : ∀ ev ∈ evs, (∀ a ∈ ev.A, a.dup = some ev.did) ∧ EvSt ps ev ∧ (ev.lvl = p ∨ OKpath ev.lvl p) ∧
      (∀ a ∈ ev.A, OKpath a.tx ev.lvl))
    (hrule : ruleLevel (hb.kids.map Node.tx) spill = some p)
    (hlift : ∀ lv, liftLevel ps hb.kids lv = .ok (spill.foldl lstep lv)) :
    ∃ Kf U' outs2 ps',
      closeOg env top hb ps = .ok ([Node.hog hb.info p hb.dup Kf (outs2.filterMap (·.1))], ps') ∧
      Kf.Perm (U' ++ outs2.flatMap (·.2)) ∧ F2 (VG p) U U' ∧ F2 (EvOut2 p) evs outs2 ∧
      FrC ps ps' ∧ ∀ d0, d0 ∉ evs.map (·.did) → ps'.getDup d0 = ps.getDup d0 := by
  obtain ⟨lv0, hinf, hfold⟩ := inferLevel_gen env hn hb p spill hp hprops htx hrule
  have hl : liftLevel ps hb.kids lv0 = .ok p := by rw [hlift lv0, hfold]
  have hdn : (evs.map (·.did)).Nodup := by rw [← hdg]; exact dedup_nodup _
  obtain ⟨st1, outs, s1, s2, s3, s4, s5, s6, s7, s8⟩ := dupSteps_gen hb.info.hid p evs
    { kids := hb.kids, dups := [], ps := ps.register p (.h hb.info.uid) } U hkn hK hdn
    (fun k hk ev _ => by rw [hU k hk]; simp) hev
  -- the generic pass
  have hok1 : ∀ k ∈ st1.kids, OKpath k.tx p := by
    intro k hk
    rcases List.mem_append.mp (s2.mem_iff.mp hk) with h | h
    · exact htx k (hK.mem_iff.mpr (List.mem_append_left _ h))
    · obtain ⟨o, ho, hko⟩ := List.mem_flatMap.mp h
      exact s5 o ho k hko
  have hsplit : st1.kids.Perm (st1.kids.filter (fun c => c.tx.length != p.length + 1) ++
      st1.kids.filter (fun c => !(c.tx.length != p.length + 1))) :=
    (List.filter_append_perm _ _).symm
  obtain ⟨K2, ps2, tops, g1, g2, g3, g4, g5⟩ := genericPass_gen hb.info.hid p
    (st1.kids.filter (fun c => c.tx.length != p.length + 1)) st1.kids _ st1.ps s6 hsplit
    (fun c hc => hok1 c (List.mem_filter.mp hc).1)
  obtain ⟨L, m1, m2⟩ := F2.merge_filter (R := VG p) (fun c => c.tx.length != p.length + 1) st1.kids
    (fun x hx hgood => by
      obtain ⟨i, hi⟩ := (hok1 x hx).length.mp hgood
      exact VG.self_of_adjacent hi) g3
  obtain ⟨L2, t1, t2⟩ := F2.perm_left s2 m1
  obtain ⟨U', O', rfl, t3, t4⟩ := F2.append_inv _ t2
  obtain ⟨outs2, rfl, t5⟩ := F2.flatMap_inv outs t4
  refine ⟨K2, U', outs2, ps2, ?_, (g2.trans m2.symm).trans t1, t3, ?_, ?_, ?_⟩
  · simp only [closeOg, bind, Except.bind, hinf, hl, hdg, s1, g1, s3, List.nil_append,
      F2.filterMap_fst t5]
  · exact F2.mono (fun ev _ o2 h => by obtain ⟨o, h1, h2, h3⟩ := h; exact ⟨o, h1, h2, h3⟩) (F2.comp s4 t5)
  · exact ((FrD.register ps p (.h hb.info.uid)).toFrC.trans s7).trans g5.toFrC
  · intro d0 hd0
    rw [g5.getDup, s8 d0 hd0]
    rfl

/-! ### what the loader sees of a lineage: apparent nodes -/

/-- apparent node of a lineage that spills no paralogGroup into the enclosing element: it sits at
    `e ++ q`, and every way of chaining it up to `q` realises the lineage -/
def NS (T : STree) (nm : Naming) (q : Taxon) (l : SL) (x : Node) : Prop :=
  ∃ e, x.tx = e ++ q ∧ appTaxa q l = [x.tx] ∧
    ∀ top, Wraps (x.setDup none) (between e q) top → RealisesA T nm q l top

def NSCopies (T : STree) (nm : Naming) (q : Taxon) : List SL → List Node → Prop
  | [], A => A = []
  | c :: cs, A => ∃ a A', A = a :: A' ∧ NS T nm q c a ∧ NSCopies T nm q cs A'

/-- a lineage ending in an unwritten group that consists of one duplication: the event spills -/
def SPD (T : STree) (nm : Naming) (q : Taxon) (l : SL) (ev : Ev) : Prop :=
  ∃ e, ev.lvl = e ++ q ∧ spillSL q l = [ev.lvl] ∧ appTaxa q l = ev.A.map Node.tx ∧ ev.A ≠ [] ∧
    (∀ a ∈ ev.A, a.dup = some ev.did ∧ OKpath a.tx ev.lvl) ∧
    ∀ g, MH ev g → ∀ top, Wraps g (between e q) top → RealisesA T nm q l top

/-- the children of a written group at `p` right after reading: unflagged apparent nodes `U` and
    events `evs`, both in file order -/
def RD (T : STree) (nm : Naming) (p : Taxon) : List Sub → List Node → List Ev → Prop
  | [], U, evs => U = [] ∧ evs = []
  | .one i l :: r, U, evs =>
      (∃ x U', U = x :: U' ∧ NS T nm (i :: p) l x ∧ RD T nm p r U' evs) ∨
      (∃ ev evs', evs = ev :: evs' ∧ SPD T nm (i :: p) l ev ∧ RD T nm p r U evs')
  | .dup i pgid cs :: r, U, evs =>
      ∃ ev evs', evs = ev :: evs' ∧ ev.lvl = p ∧ ev.pgid = pgid ∧ NSCopies T nm (i :: p) cs ev.A ∧ RD T nm p r U evs'
  | .ann _ :: r, U, evs => RD T nm p r U evs

theorem realises_chain_step {T : STree} {nm : Naming} (q : Taxon) (j : Nat) (hid : Option String) (label : Bool) (l' : SL)
    (info : HogInfo) (hbare : Bare info) (top' : Node) (hd : top'.dup = none)
    (h : RealisesA T nm (j :: q) l' top') :
    RealisesA T nm q (.grp false hid label [.one j l']) (.hog info q none [top'] []) := by
  simp only [RealisesA]
  refine ⟨info, none, [top'], [], rfl, by simpa [InfoOk, Bare] using hbare, [top'], [], by simp, by simp, by simp, ?_⟩
  simp only [RealisesSubsA]
  refine ⟨top', [], rfl, hd, h, ?_⟩
  first | trivial | simp [RealisesSubsA]

theorem NS.unwritten {T : STree} {nm : Naming} {q : Taxon} {j : Nat} {l' : SL} {x : Node} (hid : Option String) (label : Bool)
    (h : NS T nm (j :: q) l' x) : NS T nm q (.grp false hid label [.one j l']) x := by
  obtain ⟨e, h1, h2, h3⟩ := h
  refine ⟨e ++ [j], by simpa using h1, by simp [appTaxa, appTaxaSubs, h2], ?_⟩
  intro top ht
  rw [between_snoc] at ht
  obtain ⟨top', info, hbare, ht', rfl⟩ := Wraps.snoc_inv _ ht
  exact realises_chain_step q j hid label l' info hbare top' (ht'.dup_none (setDup_dup _ _)) (h3 top' ht')

theorem MH.dup_none {ev : Ev} {g : Node} (h : MH ev g) : g.dup = none := by
  obtain ⟨info, rec, mk, A', rfl, _⟩ := h
  rfl

theorem MH.tx {ev : Ev} {g : Node} (h : MH ev g) : g.tx = ev.lvl := by
  obtain ⟨info, rec, mk, A', rfl, _⟩ := h
  rfl

theorem SPD.unwritten {T : STree} {nm : Naming} {q : Taxon} {j : Nat} {l' : SL} {ev : Ev} (hid : Option String) (label : Bool)
    (h : SPD T nm (j :: q) l' ev) : SPD T nm q (.grp false hid label [.one j l']) ev := by
  obtain ⟨e, h1, h2, h3, h4, h5, h6⟩ := h
  refine ⟨e ++ [j], by simpa using h1, by simp [spillSL, spillSubs, h2], by simp [appTaxa, appTaxaSubs, h3],
    h4, h5, ?_⟩
  intro g hg top ht
  rw [between_snoc] at ht
  obtain ⟨top', info, hbare, ht', rfl⟩ := Wraps.snoc_inv _ ht
  exact realises_chain_step q j hid label l' info hbare top' (ht'.dup_none hg.dup_none) (h6 g hg top' ht')

theorem NSCopies.appTaxa {T : STree} {nm : Naming} (q : Taxon) : (cs : List SL) → (A : List Node) → NSCopies T nm q cs A →
    appTaxaCopies q cs = A.map Node.tx ∧ A.length = cs.length
  | [], A, h => by
    simp only [NSCopies] at h
    subst h
    exact ⟨rfl, rfl⟩
  | c :: cs, A, h => by
    simp only [NSCopies] at h
    obtain ⟨a, A', rfl, ha, hA⟩ := h
    obtain ⟨e, _, h2, _⟩ := ha
    obtain ⟨i1, i2⟩ := NSCopies.appTaxa q cs A' hA
    exact ⟨by simp [appTaxaCopies, h2, i1], by simp [i2]⟩

theorem NSCopies.okpath {T : STree} {nm : Naming} (j : Nat) (q : Taxon) : (cs : List SL) → (A : List Node) → NSCopies T nm (j :: q) cs A →
    ∀ a ∈ A, OKpath a.tx q
  | [], A, h => by
    simp only [NSCopies] at h
    subst h
    simp
  | c :: cs, A, h => by
    simp only [NSCopies] at h
    obtain ⟨a, A', rfl, ha, hA⟩ := h
    obtain ⟨e, h1, _, _⟩ := ha
    intro a' ha'
    rcases List.mem_cons.mp ha' with rfl | ha'
    · exact ⟨e, j, h1⟩
    · exact NSCopies.okpath j q cs A' hA a' ha'

/-- the re-homed copies of a duplication at `q` realise its copies, whatever the order in which the
    loader met them -/
theorem copies_transfer {T : STree} {nm : Naming} (j : Nat) (q : Taxon) (d : Nat) (cs : List SL) (A A' mk : List Node)
    (hns : NSCopies T nm (j :: q) cs A) (hp : A'.Perm A) (hf : F2 (WD q d) A' mk) :
    ∃ ks, ks.Perm mk ∧ RealisesCopiesA T nm (j :: q) cs ks ∧ ∀ k ∈ ks, k.dup = some d := by
  obtain ⟨ks, hks, hf'⟩ := F2.perm_left hp hf
  refine ⟨ks, hks.symm, ?_, ?_⟩
  · clear hks hf hp
    induction cs generalizing A ks with
    | nil =>
      simp only [NSCopies] at hns
      subst hns
      cases hf'
      simp only [RealisesCopiesA]
    | cons c cs ih =>
      simp only [NSCopies] at hns
      obtain ⟨a, A0, rfl, ha, hA⟩ := hns
      cases hf' with
      | cons hr hrest =>
        rename_i k ks'
        simp only [RealisesCopiesA]
        refine ⟨k, ks', rfl, ?_, ih _ hA _ hrest⟩
        obtain ⟨e, h1, _, h3⟩ := ha
        obtain ⟨t0, ht0, rfl⟩ := hr
        rw [h1, pathUp_between] at ht0
        exact realises_setDup _ _ _ _ (h3 t0 ht0)
  · intro k hk
    obtain ⟨a, _, ha⟩ := hf'.mem_right k hk
    exact ha.dup

theorem SPD.base {T : STree} {nm : Naming} (q : Taxon) (j : Nat) (hid : Option String) (label : Bool) (pgid : Option String)
    (cs : List SL) (ev : Ev) (hl : ev.lvl = q) (hpg : ev.pgid = pgid) (hns : NSCopies T nm (j :: q) cs ev.A)
    (hne : ev.A ≠ []) (hfl : ∀ a ∈ ev.A, a.dup = some ev.did) :
    SPD T nm q (.grp false hid label [.dup j pgid cs]) ev := by
  refine ⟨[], by simpa using hl, by simp [spillSL, spillSubs, hl],
    by simp [appTaxa, appTaxaSubs, (hns.appTaxa).1], hne,
    fun a ha => ⟨hfl a ha, by rw [hl]; exact hns.okpath j q cs ev.A a ha⟩, ?_⟩
  intro g hg top ht
  cases ht
  obtain ⟨info, rec, mk, A', rfl, r0, r1, r2, r3, r4, r5, r6⟩ := hg
  rw [hl] at r6
  obtain ⟨ks, k1, k2, k3⟩ := copies_transfer j q ev.did cs ev.A A' mk hns r5 r6
  simp only [RealisesA]
  rw [hl]
  refine ⟨info, none, mk, [rec], rfl, by simpa [InfoOk, Bare] using r0, [], [(rec, ks)], by simpa using k1.symm,
    by simp, by simp, ?_⟩
  simp only [RealisesSubsA]
  refine ⟨rec, ks, [], rfl, by rw [r3, hl], by rw [r2, hpg], ?_, ?_, k2, ?_⟩
  · rw [r4]; exact (k1.map Node.key).symm
  · intro k hk; rw [r1]; exact k3 k hk
  · first | trivial | simp [RealisesSubsA]

/-- an unwritten group holds exactly one branch and nothing else -/
theorem unwritten_shape (T : STree) (q : Taxon) (hid : Option String) (label : Bool) (subs : List Sub)
    (hw : wfh T q (.grp false hid label subs) = true) (hrec : recoverable q (.grp false hid label subs) = true) :
    (∃ j l', subs = [.one j l']) ∨ (∃ j pgid cs, subs = [.dup j pgid cs]) := by
  simp only [wfh, Bool.and_eq_true, Bool.false_or, decide_eq_true_eq] at hw
  simp only [recoverable, Bool.and_eq_true, beq_iff_eq] at hrec
  have hann : annElems subs = [] := by simpa using hw.1.2.2
  have hreal := hrec.2
  have tail_nil : ∀ r : List Sub, realSubs r = 0 → annElems r = [] → r = [] := by
    intro r h1 h2
    cases r with
    | nil => rfl
    | cons s r => cases s <;> simp [realSubs, annElems] at h1 h2
  cases subs with
  | nil => simp [realSubs] at hreal
  | cons s r =>
    cases s with
    | one j l' =>
      simp only [realSubs, annElems] at hreal hann
      have := tail_nil r (by omega) hann
      subst this
      exact Or.inl ⟨j, l', rfl⟩
    | dup j pgid cs =>
      simp only [realSubs, annElems] at hreal hann
      have := tail_nil r (by omega) hann
      subst this
      exact Or.inr ⟨j, pgid, cs, rfl⟩
    | ann e => simp [annElems] at hann

/-! ### reading a paralogGroup whose copies may sit deeper than one level below -/

theorem setMRCA_gen (kids : List Node) (ps : PS) (d : Nat) (b : DupBuild) (ks : List Node) (m : Taxon)
    (hg : ps.getDup d = some b) (hm : b.members = ks.map Node.key)
    (hks : ∀ k ∈ ks, k ∈ kids) (hnd : (kids.map Node.key).Nodup)
    (hrule : ruleDup (ks.map Node.tx) = some m) :
    setMRCA kids ps d = .ok (ps.modDup d fun b => { b with mrca := some m }) := by
  have h1 := mapM_findKey kids hnd ks hks
  unfold ruleDup at hrule
  simp only [setMRCA, hg, hm, h1]
  cases hd : dedup (ks.map Node.tx) with
  | nil => rw [hd] at hrule; simp at hrule
  | cons a r =>
    cases r with
    | nil =>
      rw [hd] at hrule
      simp only at hrule
      simp only [hrule]
    | cons b' r' =>
      rw [hd] at hrule
      simp only at hrule
      simp only [hrule]

theorem pgClose_gen (kids : List Node) (ps : PS) (f : PFrame) (fs : List PFrame) (b : DupBuild)
    (ks : List Node) (m : Taxon)
    (hst : ps.pstack = f :: fs) (hsz : f.size = 0)
    (hg : ps.getDup f.did = some b) (hm : b.members = ks.map Node.key) (hne : ks ≠ [])
    (hks : ∀ k ∈ ks, k ∈ kids) (hnd : (kids.map Node.key).Nodup)
    (hrule : ruleDup (ks.map Node.tx) = some m) :
    ∃ ps', pgClose kids ps = .ok ps' ∧ ps'.pstack = fs ∧ ps'.inPG = fs.head?.map (·.depth) ∧
      ps'.cur = fs.head?.map (·.did) ∧ ps'.next = ps.next ∧
      ps'.dstore.map (·.did) = ps.dstore.map (·.did) ∧
      ∀ d0, ps'.getDup d0 = if d0 = f.did then some { b with mrca := some m } else ps.getDup d0 := by
  have hf : ∀ b : DupBuild, ({ b with mrca := some m } : DupBuild).did = b.did := fun _ => rfl
  have hset := setMRCA_gen kids { ps with pstack := fs } f.did b ks m hg hm hks hnd hrule
  have hlen : (b.members.length == f.size) = false := by
    rw [hm, hsz]
    cases ks with
    | nil => exact absurd rfl hne
    | cons k ks => simp
  have hgd : ∀ d0, (({ ps with pstack := fs } : PS).modDup f.did fun b => { b with mrca := some m }).getDup d0 =
      if d0 = f.did then some { b with mrca := some m } else ps.getDup d0 := by
    intro d0
    rw [getDup_modDup _ _ _ _ hf]
    by_cases h0 : d0 = f.did
    · subst h0
      simp only [if_true]
      show Option.map _ (ps.getDup f.did) = _
      rw [hg]; rfl
    · simp only [if_neg h0]; rfl
  have hdd : (({ ps with pstack := fs } : PS).modDup f.did fun b => { b with mrca := some m }).dstore.map (·.did) =
      ps.dstore.map (·.did) := modDup_dids _ _ _ hf
  cases fs with
  | nil =>
    refine ⟨{ (({ ps with pstack := [] } : PS).modDup f.did fun b => { b with mrca := some m }) with
      inPG := none, cur := none }, ?_, rfl, rfl, rfl, rfl, hdd, hgd⟩
    simp only [pgClose, hst, bind, Except.bind, hg, hlen, hset]
    rfl
  | cons g gs =>
    refine ⟨{ (({ ps with pstack := g :: gs } : PS).modDup f.did fun b => { b with mrca := some m }) with
      inPG := some g.depth, cur := some g.did }, ?_, rfl, rfl, rfl, rfl, hdd, hgd⟩
    simp only [pgClose, hst, bind, Except.bind, hg, hlen, hset]
    rfl

/-- copies of a duplication, read inside the open paralogGroup -/
def CopG (env : Env) (q : Taxon) (len : Nat) (cs : List SL) (G2 : List String) (hb : HogBuild) (ps : PS) :
    Prop :=
  ∃ ks ps', elems env len (encodeCopies env.T env.nm q cs) hb ps = .ok ({ hb with kids := hb.kids ++ ks }, ps') ∧
    NSCopies env.T env.nm q cs ks ∧ (∀ k ∈ ks, k.dup = flagAt len ps) ∧
    KInv (hb.kids ++ ks) ps'.next G2 ∧ Fr ps ps' ∧
    ∀ d0, d0 < ps.next → ps'.getDup d0 =
      if flagAt len ps = some d0 then (ps.getDup d0).map (addMems (ks.map Node.key)) else ps.getDup d0

/-- one `<paralogGroup>` element at nesting level `len + 1`, given what reading its copies yields -/
theorem pgRead (env : Env) (q : Taxon) (j : Nat) (len : Nat) (pgid : Option String) (cs : List SL)
    (G2 : List String) (m : Taxon) (hb : HogBuild) (ps : PS)
    (hinv : PInv len ps) (hk : KInv hb.kids ps.next (genesOfCopies cs ++ G2)) (hlen : cs.length ≥ 2)
    (hrule : ruleDup (appTaxaCopies (j :: q) cs) = some m)
    (hC : ∀ ps0, PInv (len + 1) ps0 → KInv hb.kids ps0.next (genesOfCopies cs ++ G2) →
      CopG env (j :: q) (len + 1) cs G2 hb ps0) :
    ∃ A ps', elem env (len + 1) (.pg pgid (encodeCopies env.T env.nm (j :: q) cs)) hb ps =
        .ok ({ hb with kids := hb.kids ++ A }, ps') ∧
      NSCopies env.T env.nm (j :: q) cs A ∧ A ≠ [] ∧ (∀ a ∈ A, a.dup = some ps.next) ∧
      EvSt ps' ⟨ps.next, pgid, m, A⟩ ∧ ps.next < ps'.next ∧ KInv (hb.kids ++ A) ps'.next G2 ∧ Fr ps ps' ∧
      ∀ d0, d0 < ps.next → ps'.getDup d0 = ps.getDup d0 := by
  obtain ⟨o1, o2, o3, o4, o5, o6⟩ := pgOpen_spec len pgid ps hinv
  generalize hps0 : pgOpen (len + 1) pgid ps = ps0 at o1 o2 o3 o4 o5 o6
  have hinv0 : PInv (len + 1) ps0 := by
    refine ⟨?_, by rw [o1, o2]; rfl, by rw [o1, o3]; rfl, o5⟩
    rw [o1]
    intro f hf
    rcases List.mem_cons.mp hf with rfl | h
    · exact Nat.le_refl _
    · exact Nat.le_succ_of_le (hinv.depth f h)
  have hflag : flagAt (len + 1) ps0 = some ps.next := by simp [flagAt, o2, o3]
  obtain ⟨ks, ps1, hel, hns, hks, hkinv1, hfr1, hg1⟩ := hC ps0 hinv0 (hk.weaken (by omega) (fun _ h => h))
  rw [hflag] at hks hg1
  have hn1 := hfr1.next
  obtain ⟨hat, hkl⟩ := hns.appTaxa
  have hne : ks ≠ [] := by
    intro h; rw [h] at hkl; simp at hkl; omega
  have hgd : ps1.getDup ps.next = some (addMems (ks.map Node.key)
      { did := ps.next, pgid := pgid, members := [], mrca := none }) := by
    rw [hg1 ps.next (by omega), if_pos rfl, o6, if_pos rfl]; rfl
  obtain ⟨ps2, hcl, c1, c2, c3, c4, c5, c6⟩ := pgClose_gen (hb.kids ++ ks) ps1
    { depth := len + 1, did := ps.next, size := 0 } ps.pstack _ ks m (by rw [hfr1.pstack, o1]) rfl hgd
    (by simp [addMems]) hne (fun k hk' => by simp [hk']) hkinv1.1 (by rw [← hat]; exact hrule)
  refine ⟨ks, ps2, elem_pg_ok (by rw [hps0]; exact hel) hcl, hns, hne, hks, ?_, by omega,
    by rw [c4]; exact hkinv1, ?_, ?_⟩
  · unfold EvSt
    show ps2.getDup ps.next = _
    rw [c6, if_pos rfl]
    simp [addMems]
  · exact ⟨c1, by rw [c2, hinv.inpg], by rw [c3, hinv.cur], by omega, by
      intro d hd; rw [c5] at hd; rw [c4]; exact hfr1.dids d hd⟩
  · intro d0 hd0
    rw [c6, if_neg (by show ¬ d0 = ps.next; omega), hg1 d0 (by omega), if_neg (by simp; omega), o6,
      if_neg (by omega)]

/-! ### from the closed children back to the history -/

theorem F2.vg_adjacent {p : Taxon} {tops L : List Node} (h : F2 (VG p) tops L)
    (htx : ∀ t ∈ tops, ∃ i, t.tx = i :: p) : L = tops := by
  induction h with
  | nil => rfl
  | @cons a b as bs hr _ ih =>
    obtain ⟨i, hi⟩ := htx a (by simp)
    unfold VG at hr
    rw [hi, pathUp_adjacent] at hr
    rw [hr.nil_inv, ih (fun t ht => htx t (by simp [ht]))]

theorem assemble {T : STree} {nm : Naming} (p : Taxon) : (subs : List Sub) → (U : List Node) → (evs : List Ev) → (U' : List Node) →
    (outs2 : List (Option DupRec × List Node)) →
    RD T nm p subs U evs → (∀ u ∈ U, u.dup = none) → F2 (VG p) U U' → F2 (EvOut2 p) evs outs2 →
    ∃ plain evsF, RealisesSubsA T nm p subs plain evsF ∧
      (plain ++ evsF.flatMap (·.2)).Perm (U' ++ outs2.flatMap (·.2)) ∧
      evsF.map (·.1) = outs2.filterMap (·.1) ∧
      (evsF.map (·.1.did)).Sublist (evs.map (·.did))
  | [], U, evs, U', outs2, hrd, _, hU', ho => by
    simp only [RD] at hrd
    obtain ⟨rfl, rfl⟩ := hrd
    cases hU'
    cases ho
    exact ⟨[], [], by simp [RealisesSubsA], by simp, rfl, by simp⟩
  | .one i l :: r, U, evs, U', outs2, hrd, hU, hU', ho => by
    simp only [RD] at hrd
    rcases hrd with ⟨x, U0, rfl, hns, hrd'⟩ | ⟨ev, evs', rfl, hsp, hrd'⟩
    · cases hU' with
      | cons hr hrest =>
        rename_i u U0'
        obtain ⟨plain, evsF, h1, h2, h3, h4⟩ := assemble p r U0 evs U0' outs2 hrd'
          (fun u hu => hU u (by simp [hu])) hrest ho
        have hxd : x.dup = none := hU x (by simp)
        obtain ⟨e, e1, _, e3⟩ := hns
        unfold VG at hr
        rw [e1, pathUp_between] at hr
        have hR : RealisesA T nm (i :: p) l u := e3 u (by rw [setDup_self x none hxd]; exact hr)
        refine ⟨u :: plain, evsF, ?_, ?_, h3, h4⟩
        · simp only [RealisesSubsA]
          exact ⟨u, plain, rfl, hr.dup_none hxd, hR, h1⟩
        · exact h2.cons u
    · cases ho with
      | cons hr hrest =>
        rename_i o2 outs2'
        obtain ⟨plain, evsF, h1, h2, h3, h4⟩ := assemble p r U evs' U' outs2' hrd' hU hU' hrest
        obtain ⟨e, e1, _, _, _, _, e6⟩ := hsp
        obtain ⟨o, ho1, ho2, ho3⟩ := hr
        have hne : ev.lvl ≠ p := by
          rw [e1]
          exact (OKpath.ne ⟨e, i, rfl⟩)
        rcases ho1 with ⟨hl, _⟩ | ⟨_, g, rfl, hg⟩
        · exact absurd hl hne
        · obtain ⟨o21, o22⟩ := o2
          simp only at ho2 ho3
          subst ho2
          cases ho3 with
          | cons hv hnil =>
            cases hnil
            rename_i n
            unfold VG at hv
            rw [hg.tx, e1, pathUp_between] at hv
            have hR : RealisesA T nm (i :: p) l n := e6 g hg n hv
            refine ⟨n :: plain, evsF, ?_, ?_, by simpa using h3, ?_⟩
            · simp only [RealisesSubsA]
              exact ⟨n, plain, rfl, hv.dup_none hg.dup_none, hR, h1⟩
            · simp only [List.flatMap_cons, List.cons_append, List.nil_append]
              exact (h2.cons n).trans List.perm_middle.symm
            · simp only [List.map_cons]
              exact h4.cons _
  | .dup i pgid cs :: r, U, evs, U', outs2, hrd, hU, hU', ho => by
    simp only [RD] at hrd
    obtain ⟨ev, evs', rfl, hl, hpg, hns, hrd'⟩ := hrd
    cases ho with
    | cons hr hrest =>
      rename_i o2 outs2'
      obtain ⟨plain, evsF, h1, h2, h3, h4⟩ := assemble p r U evs' U' outs2' hrd' hU hU' hrest
      obtain ⟨o, ho1, ho2, ho3⟩ := hr
      rcases ho1 with ⟨_, rec, tops, A', rfl, r1, r2, r3, r4, r5, r6, r7⟩ | ⟨hne, _⟩
      · obtain ⟨o21, o22⟩ := o2
        simp only at ho2 ho3
        subst ho2
        have hvg : o22 = tops := F2.vg_adjacent ho3 r7
        rw [hvg]
        obtain ⟨ks, k1, k2, k3⟩ := copies_transfer i p ev.did cs ev.A A' tops hns r5 r6
        refine ⟨plain, (rec, ks) :: evsF, ?_, ?_, by simpa using h3, ?_⟩
        · simp only [RealisesSubsA]
          refine ⟨rec, ks, evsF, rfl, r3, by rw [r2, hpg], r4.trans (k1.map Node.key).symm, ?_, k2, h1⟩
          intro k hk; rw [r1]; exact k3 k hk
        · simp only [List.flatMap_cons]
          refine (List.perm_append_comm_assoc _ _ _).trans ?_
          refine List.Perm.trans ?_ (List.perm_append_comm_assoc _ _ _)
          exact k1.append h2
        · simp only [List.map_cons, r1]
          exact h4.cons_cons _
      · exact absurd hl hne
  | .ann _ :: r, U, evs, U', outs2, hrd, hU, hU', ho => by
    simp only [RD] at hrd
    obtain ⟨plain, evsF, h1, h2, h3, h4⟩ := assemble p r U evs U' outs2 hrd hU hU' ho
    exact ⟨plain, evsF, by simpa only [RealisesSubsA] using h1, h2, h3, h4⟩

/-! ### the sub-branches of a written group, and the written group itself -/

/-- the folds `scoresOf` / `propsOf` perform, from an arbitrary starting dictionary -/
def scoresFold (d : List (String × String)) (es : List Elem) : List (String × String) :=
  es.foldl (fun d e => match e with | .score i v => dictSet d i v | _ => d) d
def propsFold (d : List (String × String)) (es : List Elem) : List (String × String) :=
  es.foldl (fun d e => match e with | .prop n v => dictSet d n v | _ => d) d

theorem scoresOf_eq (es : List Elem) : scoresOf es = scoresFold [] es := rfl
theorem propsOf_eq (es : List Elem) : propsOf es = propsFold [] es := rfl

/-- reading the annotation elements `es` turns `i` into `i'` -/
def InfoFold (i i' : HogInfo) (es : List Elem) : Prop :=
  i'.uid = i.uid ∧ i'.hid = i.hid ∧ i'.og = i.og ∧ i'.synth = i.synth ∧
    i'.scores = scoresFold i.scores es ∧ i'.props = propsFold i.props es

theorem InfoFold.nil (i : HogInfo) : InfoFold i i [] := ⟨rfl, rfl, rfl, rfl, rfl, rfl⟩

theorem InfoFold.cons {i i1 i' : HogInfo} {e : Elem} {es : List Elem} (h1 : InfoFold i i1 [e])
    (h2 : InfoFold i1 i' es) : InfoFold i i' (e :: es) := by
  obtain ⟨a1, a2, a3, a4, a5, a6⟩ := h1
  obtain ⟨b1, b2, b3, b4, b5, b6⟩ := h2
  refine ⟨b1.trans a1, b2.trans a2, b3.trans a3, b4.trans a4, ?_, ?_⟩
  · rw [b5, a5]; rfl
  · rw [b6, a6]; rfl

def SubsG (env : Env) (p : Taxon) (len : Nat) (subs : List Sub) (hb : HogBuild) (ps : PS) : Prop :=
  ∃ hb' ps' new U evs,
    elems env (len + 1) (encodeSubs env.T env.nm p subs) hb ps = .ok (hb', ps') ∧
    hb'.kids = hb.kids ++ new ∧ hb'.dup = hb.dup ∧ hb'.info.uid = hb.info.uid ∧
    hb'.info.props.lookup "TaxRange" = hb.info.props.lookup "TaxRange" ∧
    RD env.T env.nm p subs U evs ∧ new.Perm (U ++ evs.flatMap (·.A)) ∧ (∀ u ∈ U, u.dup = none) ∧
    dupGroups new = evs.map (·.did) ∧
    (∀ ev ∈ evs, (∀ a ∈ ev.A, a.dup = some ev.did) ∧ EvSt ps' ev ∧ (ev.lvl = p ∨ OKpath ev.lvl p) ∧
      (∀ a ∈ ev.A, OKpath a.tx ev.lvl) ∧ ps.next ≤ ev.did ∧ ev.did < ps'.next) ∧
    (∀ k ∈ new, OKpath k.tx p) ∧
    (∀ k ∈ new, ∀ d, k.dup = some d → ps.next ≤ d ∧ d < ps'.next) ∧
    new.map Node.tx = appTaxaSubs p subs ∧
    (∀ lv, liftLevel ps' new lv = .ok ((spillSubs p subs).foldl lstep lv)) ∧
    KInv hb'.kids ps'.next [] ∧ Fr ps ps' ∧ (∀ d0, d0 < ps.next → ps'.getDup d0 = ps.getDup d0) ∧
    InfoFold hb.info hb'.info (annElems subs)

theorem ogCloseG (env : Env) (hn : NamesInj env.T env.nm) (q : Taxon) (len : Nat) (top : Bool)
    (hid : Option String) (label : Bool) (subs : List Sub) (ps : PS)
    (hw : wfh env.T q (.grp true hid label subs) = true)
    (hrec : recoverable q (.grp true hid label subs) = true) (hinv : PInv len ps)
    (hB : ∀ hb ps, PInv len ps → KInv hb.kids ps.next (genesOfSubs subs) → SubsG env q len subs hb ps) :
    ∃ nb ps2 n ps3,
      elems env (len + 1)
        ((if label then [Elem.prop "TaxRange" (nameOrEmpty env.T env.nm q)] else []) ++
          encodeSubs env.T env.nm q subs)
        { info := newInfo ps.next hid none, dup := flagAt len ps, kids := [] }
        (bump { ps with next := ps.next + 1 } (flagAt len ps) (.h ps.next)) = .ok (nb, ps2) ∧
      closeOg env top nb ps2 = .ok ([n], ps3) ∧
      n.tx = q ∧ n.dup = flagAt len ps ∧ n.key = .h ps.next ∧
      RealisesA env.T env.nm q (.grp true hid label subs) n ∧ Fr ps ps3 ∧ ps.next < ps3.next ∧
      ∀ d0, d0 < ps.next → ps3.getDup d0 =
        if flagAt len ps = some d0 then (ps.getDup d0).map (addMems [.h ps.next]) else ps.getDup d0 := by
  simp only [wfh, Bool.and_eq_true, decide_eq_true_eq] at hw
  obtain ⟨⟨⟨⟨hint, _⟩, _⟩, _⟩, _⟩ := hw
  simp only [recoverable, Bool.and_eq_true, beq_iff_eq] at hrec
  have hrule := hrec.2
  generalize hps1 : bump { ps with next := ps.next + 1 } (flagAt len ps) (.h ps.next) = ps1
  have hfrd : FrD { ps with next := ps.next + 1 } ps1 := by rw [← hps1]; exact bump_frd _ _ _
  have hg1 : ∀ d0, ps1.getDup d0 =
      if flagAt len ps = some d0 then (ps.getDup d0).map (addMems [.h ps.next]) else ps.getDup d0 := by
    intro d0; rw [← hps1, bump_getDup]; rfl
  have hn1 : ps1.next = ps.next + 1 := hfrd.next
  have hdb1 : DidsBelow ps1 := by
    intro d hd
    rw [hfrd.dids] at hd
    have := hinv.dids d hd
    omega
  have hfr1 : Fr ps ps1 := ⟨hfrd.pstack, hfrd.inpg, hfrd.cur, by omega, hdb1⟩
  have hinv1 : PInv len ps1 := hinv.of_fr hfr1
  have hhid : (newInfo ps.next hid none).hid = hid := by cases hid <;> rfl
  obtain ⟨hb0, hlbl, hk0, hd0, hu0, hp0, hi0⟩ : ∃ hb0 : HogBuild,
      (∀ es, elems env (len + 1)
        ((if label then [Elem.prop "TaxRange" (nameOrEmpty env.T env.nm q)] else []) ++ es)
        { info := newInfo ps.next hid none, dup := flagAt len ps, kids := [] } ps1 =
        elems env (len + 1) es hb0 ps1) ∧ hb0.kids = [] ∧ hb0.dup = flagAt len ps ∧
      hb0.info.uid = ps.next ∧
      (hb0.info.props.lookup "TaxRange" = none ∨
        hb0.info.props.lookup "TaxRange" = some (nameOrEmpty env.T env.nm q)) ∧
      (hb0.info.hid = hid ∧ hb0.info.og = none ∧ hb0.info.synth = false ∧ hb0.info.scores = [] ∧
        hb0.info.props = propsFold []
          (if label then [Elem.prop "TaxRange" (nameOrEmpty env.T env.nm q)] else [])) := by
    cases label with
    | false => exact ⟨_, fun es => rfl, rfl, rfl, rfl, Or.inl rfl, hhid, rfl, rfl, rfl, rfl⟩
    | true =>
      refine ⟨{ info := { newInfo ps.next hid none with
                  props := dictSet (newInfo ps.next hid none).props "TaxRange" (nameOrEmpty env.T env.nm q) },
                dup := flagAt len ps, kids := [] }, fun es => ?_, rfl, rfl, rfl, Or.inr ?_,
                hhid, rfl, rfl, rfl, rfl⟩
      · simp only [if_true, List.cons_append, List.nil_append, elems, elem, bind, Except.bind]
      · simp [newInfo, dictSet]
  obtain ⟨hb', ps2, new, U, evs, hel, hkids, hdup, huid, hprops, hrd, hperm, hU, hdg, hev, htx, hfl, htaxa,
    hlift, hkinv, hfr2, hg2, hif⟩ := hB hb0 ps1 hinv1 (by rw [hk0]; exact KInv.nil _ _)
  rw [hk0, List.nil_append] at hkids
  have hp : ∃ s, env.T.nameAt env.nm q = some s := nameAt_isSome_of_internal _ _ _ hint
  obtain ⟨Kf, U', outs2, ps3, hclose, c2, c3, c4, c5, c6⟩ := closeOg_gen env hn top hb' ps2 q evs U
    (spillSubs q subs) hp (by rw [hprops]; exact hp0) (by rw [hkids]; exact htx)
    ⟨hkinv.1, hkinv.2.1⟩ (by rw [hkids]; exact hperm) hU (by rw [hkids]; exact hdg)
    (fun ev he => ⟨(hev ev he).1, (hev ev he).2.1, (hev ev he).2.2.1, (hev ev he).2.2.2.1⟩)
    (by rw [hkids, htaxa]; exact hrule) (by rw [hkids]; exact hlift)
  obtain ⟨plain, evsF, a1, a2, a3, a4⟩ := assemble q subs U evs U' outs2 hrd hU c3 c4
  have hfr3 : Fr ps2 ps3 := c5.toFr hfr2.dids
  refine ⟨hb', ps2, _, ps3, ?_, hclose, rfl, hdup.trans hd0, by simp [Node.key, huid, hu0], ?_,
    (hfr1.trans hfr2).trans hfr3, ?_, ?_⟩
  · rw [hlbl]; exact hel
  · simp only [RealisesA]
    refine ⟨_, _, _, _, rfl, ?_, plain, evsF, c2.trans a2.symm, by rw [a3], ?_, a1⟩
    · obtain ⟨_, f2, f3, f4, f5, f6⟩ := hif
      obtain ⟨g1, g2, g3, g4, g5⟩ := hi0
      simp only [InfoOk, if_true]
      refine ⟨f2.trans g1, f3.trans g2, f4.trans g3, ?_, ?_⟩
      · rw [f5, g4, scoresOf_eq]
      · rw [f6, g5, propsOf_eq]
        simp only [propsFold, List.foldl_append]
    · have hdn : (evs.map (·.did)).Nodup := by rw [← hdg]; exact dedup_nodup _
      exact hdn.sublist a4
  · have := hfr2.next; have := hfr3.next; omega
  · intro d0 hd0'
    rw [c6 d0, hg2 d0 (by omega), hg1 d0]
    intro hmem
    obtain ⟨e, he, hed⟩ := List.mem_map.mp hmem
    have := (hev e he).2.2.2.2.1
    omega

theorem OKpath.trans {a l p : Taxon} (h1 : OKpath a l) (h2 : OKpath l p) : OKpath a p := by
  obtain ⟨e1, i1, rfl⟩ := h1
  obtain ⟨e2, i2, rfl⟩ := h2
  exact ⟨e1 ++ i1 :: e2, i2, by simp⟩

/-- a lineage that spills nothing, read as one item -/
def LinNS (env : Env) (q : Taxon) (len : Nat) (l : SL) (hb : HogBuild) (ps : PS) : Prop :=
  ∃ n ps', elems env len (encode env.T env.nm q l) hb ps = .ok ({ hb with kids := hb.kids ++ [n] }, ps') ∧
    n.dup = flagAt len ps ∧ NS env.T env.nm q l n ∧ KeySpec l n ps.next ps'.next ∧ Fr ps ps' ∧
    ∀ d0, d0 < ps.next → ps'.getDup d0 =
      if flagAt len ps = some d0 then (ps.getDup d0).map (addMems [n.key]) else ps.getDup d0

/-- a lineage that spills its duplication into the enclosing written group -/
def LinSP (env : Env) (q : Taxon) (len : Nat) (l : SL) (G2 : List String) (hb : HogBuild) (ps : PS) : Prop :=
  ∃ ev ps', elems env (len + 1) (encode env.T env.nm q l) hb ps =
      .ok ({ hb with kids := hb.kids ++ ev.A }, ps') ∧
    SPD env.T env.nm q l ev ∧ ev.did = ps.next ∧ ps.next < ps'.next ∧ EvSt ps' ev ∧
    KInv (hb.kids ++ ev.A) ps'.next G2 ∧ Fr ps ps' ∧
    ∀ d0, d0 < ps.next → ps'.getDup d0 = ps.getDup d0

/-- one event block followed by the remaining sub-branches -/
theorem subs_event_step (env : Env) (p : Taxon) (len : Nat) (s : Sub) (r : List Sub) (hb : HogBuild)
    (ps ps1 : PS) (ev : Ev)
    (hel1 : elems env (len + 1) (encodeSubs env.T env.nm p (s :: r)) hb ps =
      elems env (len + 1) (encodeSubs env.T env.nm p r) { hb with kids := hb.kids ++ ev.A } ps1)
    (hrd : ∀ U evs', RD env.T env.nm p r U evs' → RD env.T env.nm p (s :: r) U (ev :: evs'))
    (htaxa : appTaxaSubs p (s :: r) = ev.A.map Node.tx ++ appTaxaSubs p r)
    (hspill : spillSubs p (s :: r) = ev.lvl :: spillSubs p r)
    (hann : annElems (s :: r) = annElems r)
    (hne : ev.A ≠ []) (hfl : ∀ a ∈ ev.A, a.dup = some ev.did) (hpa : ∀ a ∈ ev.A, OKpath a.tx ev.lvl)
    (hlvl : ev.lvl = p ∨ OKpath ev.lvl p)
    (hdid : ev.did = ps.next) (hlt : ps.next < ps1.next) (hst : EvSt ps1 ev) (hfr1 : Fr ps ps1)
    (hg1 : ∀ d0, d0 < ps.next → ps1.getDup d0 = ps.getDup d0)
    (ih : SubsG env p len r { hb with kids := hb.kids ++ ev.A } ps1) :
    SubsG env p len (s :: r) hb ps := by
  obtain ⟨hb', ps', new, U, evs, hel', hkids, hdup', huid, hprops, hrd', hperm, hU, hdg, hev, htx', hfl', htx,
    hlift, hkinv, hfr2, hg2, hif⟩ := ih
  have hn2 := hfr2.next
  have hst' : EvSt ps' ev := by
    unfold EvSt at hst ⊢
    rw [hg2 _ (by omega)]
    exact hst
  have hnew_ne : ∀ k ∈ new, k.dup ≠ some ev.did := by
    intro k hk' hd
    have := (hfl' k hk' _ hd).1
    omega
  have hpath_p : ∀ a ∈ ev.A, OKpath a.tx p := by
    intro a ha
    rcases hlvl with h | h
    · rw [← h]; exact hpa a ha
    · exact (hpa a ha).trans h
  refine ⟨hb', ps', ev.A ++ new, U, ev :: evs, ?_, ?_, hdup', huid, hprops, hrd U evs hrd', ?_, hU, ?_, ?_, ?_, ?_,
    ?_, ?_, hkinv, hfr1.trans hfr2, ?_, by rw [hann]; exact hif⟩
  · rw [hel1]; exact hel'
  · rw [hkids]; simp
  · simp only [List.flatMap_cons]
    exact (hperm.append_left ev.A).trans (List.perm_append_comm_assoc _ _ _)
  · rw [dupGroups_flagged ev.did ev.A new hne hfl hnew_ne, hdg]
    rfl
  · intro e he
    rcases List.mem_cons.mp he with rfl | he
    · exact ⟨hfl, hst', hlvl, hpa, by omega, by omega⟩
    · obtain ⟨h1, h2, h3, h4, h5, h6⟩ := hev e he
      exact ⟨h1, h2, h3, h4, by omega, h6⟩
  · intro k hk'
    rcases List.mem_append.mp hk' with h | h
    · exact hpath_p k h
    · exact htx' k h
  · intro k hk' d hd
    rcases List.mem_append.mp hk' with h | h
    · rw [hfl k h] at hd; cases hd; omega
    · have := hfl' k h d hd; omega
  · rw [htaxa, List.map_append, htx]
  · intro lv
    obtain ⟨b, hb1, hb2⟩ : ∃ b, ps'.getDup ev.did = some b ∧ b.mrca = some ev.lvl := ⟨_, hst', rfl⟩
    rw [liftLevel_append_ok ps' ev.A (liftLevel_block ps' ev.did b ev.lvl hb1 hb2 ev.A lv hne hfl), hlift,
      hspill]
    rfl
  · intro d0 hd0
    rw [hg2 d0 (by omega), hg1 d0 hd0]

/-! ### the main induction over recoverable histories -/

mutual
theorem lin_ns (env : Env) (hn : NamesInj env.T env.nm) : (l : SL) → (q : Taxon) → (len : Nat) →
    (hb : HogBuild) → (ps : PS) → wfh env.T q l = true → recoverable q l = true → spillSL q l = [] →
    (∀ e ∈ geneTaxaSL q l, env.lookupGene e.1 = some e.2) → (genesOf l).Nodup → PInv len ps →
    LinNS env q len l hb ps
  | .gene id loft, q, len, hb, ps, _, _, _, hdecl, _, hinv => by
    have hlook : env.lookupGene id = some q := hdecl (id, q) (by simp [geneTaxaSL])
    have hfrd := bump_frd ps (flagAt len ps) (.g id)
    refine ⟨Node.gene id q (flagAt len ps) loft, bump ps (flagAt len ps) (.g id), ?_, rfl, ?_,
      Or.inl ⟨id, by simp [genesOf], rfl⟩, hfrd.toFr hinv.dids, fun d0 _ => bump_getDup _ _ _ _⟩
    · simp only [encode]
      rw [elems_cons_ok (elem_ref_ok hlook)]
      rfl
    · refine ⟨[], rfl, rfl, ?_⟩
      intro top ht
      cases ht
      simp only [RealisesA]
      exact ⟨_, rfl⟩
  | .grp true hid label subs, q, len, hb, ps, hw, hrec, _, hdecl, hnd, hinv => by
    have hw' := hw
    simp only [wfh, Bool.and_eq_true, decide_eq_true_eq] at hw'
    obtain ⟨_, hws⟩ := hw'
    have hrec' := hrec
    simp only [recoverable, Bool.and_eq_true] at hrec'
    simp only [genesOf] at hnd
    obtain ⟨nb, ps2, n, ps3, h1, h2, htx, hdup, hkey, hR, hfr, hlt, hg⟩ :=
      ogCloseG env hn q len false hid label subs ps hw hrec hinv
        (fun hb' ps' hi hk => subs_g env hn subs q len hb' ps' hws hrec'.1
          (by simpa [geneTaxaSL] using hdecl) hnd hi hk)
    refine ⟨n, ps3, ?_, hdup, ?_, Or.inr ⟨ps.next, hkey, Nat.le_refl _, hlt⟩, hfr, ?_⟩
    · simp only [encode]
      rw [elems_cons_ok (elem_og_ok h1 h2)]
      rfl
    · refine ⟨[], by simpa using htx, by simp [appTaxa, htx], ?_⟩
      intro top ht
      cases ht
      exact realises_setDup _ _ _ _ hR
    · intro d0 hd0
      rw [hkey]
      exact hg d0 hd0
  | .grp false hid label [.one j l'], q, len, hb, ps, hw, hrec, hsp, hdecl, hnd, hinv => by
    simp only [wfh, wfhSubs, Bool.and_eq_true] at hw
    simp only [recoverable, recoverableSubs, Bool.and_eq_true] at hrec
    simp only [spillSL, spillSubs, List.append_nil] at hsp
    simp only [genesOf, genesOfSubs, List.append_nil] at hnd
    obtain ⟨n, ps', hel, hdup, hns, hkey, hfr, hg⟩ := lin_ns env hn l' (j :: q) len hb ps hw.2.1 hrec.1.1 hsp
      (fun e he => hdecl e (by simp [geneTaxaSL, geneTaxaSubs, he])) hnd hinv
    refine ⟨n, ps', ?_, hdup, hns.unwritten hid label, ?_, hfr, hg⟩
    · simp only [encode, encodeSubs, List.append_nil]
      exact hel
    · simpa [KeySpec, genesOf, genesOfSubs] using hkey
  | .grp false hid label [.dup j pgid cs], q, len, hb, ps, _, _, hsp, _, _, _ => by
    simp [spillSL, spillSubs] at hsp
  | .grp false hid label [], q, len, hb, ps, hw, hrec, _, _, _, _ => by
    rcases unwritten_shape env.T q hid label _ hw hrec with ⟨_, _, h⟩ | ⟨_, _, _, h⟩ <;> cases h
  | .grp false hid label (.ann _ :: _), q, len, hb, ps, hw, hrec, _, _, _, _ => by
    rcases unwritten_shape env.T q hid label _ hw hrec with ⟨_, _, h⟩ | ⟨_, _, _, h⟩ <;> cases h
  | .grp false hid label (.one _ _ :: _ :: _), q, len, hb, ps, hw, hrec, _, _, _, _ => by
    rcases unwritten_shape env.T q hid label _ hw hrec with ⟨_, _, h⟩ | ⟨_, _, _, h⟩ <;> cases h
  | .grp false hid label (.dup _ _ _ :: _ :: _), q, len, hb, ps, hw, hrec, _, _, _, _ => by
    rcases unwritten_shape env.T q hid label _ hw hrec with ⟨_, _, h⟩ | ⟨_, _, _, h⟩ <;> cases h

theorem lin_sp (env : Env) (hn : NamesInj env.T env.nm) : (l : SL) → (q : Taxon) → (len : Nat) →
    (G2 : List String) → (hb : HogBuild) → (ps : PS) → wfh env.T q l = true → recoverable q l = true →
    spillSL q l ≠ [] → (∀ e ∈ geneTaxaSL q l, env.lookupGene e.1 = some e.2) →
    (genesOf l ++ G2).Nodup → PInv len ps → KInv hb.kids ps.next (genesOf l ++ G2) →
    LinSP env q len l G2 hb ps
  | .gene id loft, q, len, G2, hb, ps, _, _, hsp, _, _, _, _ => by simp [spillSL] at hsp
  | .grp true hid label subs, q, len, G2, hb, ps, _, _, hsp, _, _, _, _ => by simp [spillSL] at hsp
  | .grp false hid label [.one j l'], q, len, G2, hb, ps, hw, hrec, hsp, hdecl, hnd, hinv, hk => by
    simp only [wfh, wfhSubs, Bool.and_eq_true] at hw
    simp only [recoverable, recoverableSubs, Bool.and_eq_true] at hrec
    simp only [spillSL, spillSubs, List.append_nil] at hsp
    simp only [genesOf, genesOfSubs, List.append_nil] at hnd hk
    obtain ⟨ev, ps', hel, h1, h2, h3, h4, h5, h6, h7⟩ := lin_sp env hn l' (j :: q) len G2 hb ps hw.2.1
      hrec.1.1 hsp (fun e he => hdecl e (by simp [geneTaxaSL, geneTaxaSubs, he])) hnd hinv hk
    refine ⟨ev, ps', ?_, h1.unwritten hid label, h2, h3, h4, h5, h6, h7⟩
    simp only [encode, encodeSubs, List.append_nil]
    exact hel
  | .grp false hid label [.dup j pgid cs], q, len, G2, hb, ps, hw, hrec, _, hdecl, hnd, hinv, hk => by
    simp only [wfh, wfhSubs, Bool.and_eq_true, decide_eq_true_eq] at hw
    simp only [recoverable, recoverableSubs, Bool.and_eq_true, beq_iff_eq] at hrec
    simp only [genesOf, genesOfSubs, List.append_nil] at hnd hk
    obtain ⟨A, ps', hel, hns, hne, hfl, hst, hlt, hkinv, hfr, hg⟩ := pgRead env q j len pgid cs G2 q hb ps hinv
      hk hw.2.1.1 hrec.1.1.2
      (fun ps0 hi hk0 => cop_g env hn cs (j :: q) (len + 1) G2 hb ps0 hw.2.1.2 hrec.1.1.1
        (fun e he => hdecl e (by simp [geneTaxaSL, geneTaxaSubs, he])) hnd hi hk0)
    refine ⟨⟨ps.next, pgid, q, A⟩, ps', ?_, SPD.base q j hid label pgid cs _ rfl rfl hns hne hfl, rfl, hlt, hst,
      hkinv, hfr, hg⟩
    simp only [encode, encodeSubs]
    rw [elems_cons_ok hel]
    rfl
  | .grp false hid label [], q, len, G2, hb, ps, hw, hrec, _, _, _, _, _ => by
    rcases unwritten_shape env.T q hid label _ hw hrec with ⟨_, _, h⟩ | ⟨_, _, _, h⟩ <;> cases h
  | .grp false hid label (.ann _ :: _), q, len, G2, hb, ps, hw, hrec, _, _, _, _, _ => by
    rcases unwritten_shape env.T q hid label _ hw hrec with ⟨_, _, h⟩ | ⟨_, _, _, h⟩ <;> cases h
  | .grp false hid label (.one _ _ :: _ :: _), q, len, G2, hb, ps, hw, hrec, _, _, _, _, _ => by
    rcases unwritten_shape env.T q hid label _ hw hrec with ⟨_, _, h⟩ | ⟨_, _, _, h⟩ <;> cases h
  | .grp false hid label (.dup _ _ _ :: _ :: _), q, len, G2, hb, ps, hw, hrec, _, _, _, _, _ => by
    rcases unwritten_shape env.T q hid label _ hw hrec with ⟨_, _, h⟩ | ⟨_, _, _, h⟩ <;> cases h

theorem subs_g (env : Env) (hn : NamesInj env.T env.nm) : (subs : List Sub) → (p : Taxon) → (len : Nat) →
    (hb : HogBuild) → (ps : PS) → wfhSubs env.T p subs = true → recoverableSubs p subs = true →
    (∀ e ∈ geneTaxaSubs p subs, env.lookupGene e.1 = some e.2) → (genesOfSubs subs).Nodup → PInv len ps →
    KInv hb.kids ps.next (genesOfSubs subs) → SubsG env p len subs hb ps
  | [], p, len, hb, ps, _, _, _, _, hinv, hk => by
    refine ⟨hb, ps, [], [], [], rfl, by simp, rfl, rfl, rfl, by simp [RD], by simp, by simp, rfl, by simp,
      by simp, by simp, by simp [appTaxaSubs], fun lv => by simp [liftLevel, spillSubs], ?_,
      Fr.refl_of hinv.dids, fun _ _ => rfl, InfoFold.nil _⟩
    simpa [genesOfSubs] using hk
  | .one i l :: r, p, len, hb, ps, hw, hrec, hdecl, hnd, hinv, hk => by
    simp only [wfhSubs, Bool.and_eq_true] at hw
    simp only [recoverableSubs, Bool.and_eq_true] at hrec
    simp only [genesOfSubs] at hnd hk
    have hdecl1 : ∀ e ∈ geneTaxaSL (i :: p) l, env.lookupGene e.1 = some e.2 :=
      fun e he => hdecl e (by simp [geneTaxaSubs, he])
    have hdecl2 : ∀ e ∈ geneTaxaSubs p r, env.lookupGene e.1 = some e.2 :=
      fun e he => hdecl e (by simp [geneTaxaSubs, he])
    by_cases hsp : spillSL (i :: p) l = []
    · obtain ⟨n, ps1, hel, hdup, hns, hkey, hfr1, hg1⟩ := lin_ns env hn l (i :: p) (len + 1) hb ps
        hw.1 hrec.1 hsp hdecl1 (List.nodup_append.mp hnd).1 hinv.mono
      rw [flagAt_succ_of_pinv hinv] at hdup hg1
      have hinv1 : PInv len ps1 := hinv.of_fr hfr1
      have hk1 : KInv (hb.kids ++ [n]) ps1.next (genesOfSubs r) := hk.step hnd hkey hfr1.next
      obtain ⟨hb', ps', new, U, evs, hel', hkids, hdup', huid, hprops, hrd, hperm, hU, hdg, hev, htx', hfl,
        htx, hlift, hkinv, hfr2, hg2, hif⟩ := subs_g env hn r p len { hb with kids := hb.kids ++ [n] } ps1 hw.2
          hrec.2 hdecl2 (List.nodup_append.mp hnd).2.1 hinv1 hk1
      have hn1 := hfr1.next
      obtain ⟨e, e1, e2, _⟩ := hns
      refine ⟨hb', ps', n :: new, n :: U, evs, ?_, ?_, hdup', huid, hprops, ?_, hperm.cons n, ?_, ?_, ?_, ?_,
        ?_, ?_, ?_, hkinv, hfr1.trans hfr2, ?_, hif⟩
      · simp only [encodeSubs]
        rw [elems_append_ok _ hel]
        exact hel'
      · rw [hkids]; simp
      · simp only [RD]
        exact Or.inl ⟨n, U, rfl, ⟨e, e1, e2, by assumption⟩, hrd⟩
      · intro u hu
        rcases List.mem_cons.mp hu with rfl | h
        · exact hdup
        · exact hU u h
      · rw [← hdg]
        simp [dupGroups, hdup]
      · intro ev he
        obtain ⟨h1, h2, h3, h4, h5, h6⟩ := hev ev he
        exact ⟨h1, h2, h3, h4, by omega, h6⟩
      · intro k hk'
        rcases List.mem_cons.mp hk' with rfl | h
        · exact ⟨e, i, e1⟩
        · exact htx' k h
      · intro k hk' d hd
        rcases List.mem_cons.mp hk' with rfl | h
        · rw [hdup] at hd; cases hd
        · have := hfl k h d hd; omega
      · simp only [List.map_cons, appTaxaSubs, e2, htx, List.cons_append, List.nil_append]
      · intro lv
        have : n :: new = [n] ++ new := rfl
        rw [this, liftLevel_append_ok ps' [n] (liftLevel_unflagged ps' n lv hdup), hlift]
        simp [spillSubs, hsp]
      · intro d0 hd0
        rw [hg2 d0 (by omega), hg1 d0 hd0]
        simp
    · obtain ⟨ev, ps1, hel, hspd, hdid, hlt, hst, hkinv1, hfr1, hg1⟩ := lin_sp env hn l (i :: p) len
        (genesOfSubs r) hb ps hw.1 hrec.1 hsp hdecl1 hnd hinv hk
      obtain ⟨e, e1, e2, e3, e4, e5, e6⟩ := hspd
      apply subs_event_step env p len (.one i l) r hb ps ps1 ev
      · simp only [encodeSubs]
        exact elems_append_ok _ hel
      · intro U evs' h
        simp only [RD]
        exact Or.inr ⟨ev, evs', rfl, ⟨e, e1, e2, e3, e4, e5, e6⟩, h⟩
      · simp only [appTaxaSubs, e3]
      · simp only [spillSubs, e2, List.cons_append, List.nil_append]
      · rfl
      · exact e4
      · exact fun a ha => (e5 a ha).1
      · exact fun a ha => (e5 a ha).2
      · exact Or.inr ⟨e, i, e1⟩
      · exact hdid
      · exact hlt
      · exact hst
      · exact hfr1
      · exact hg1
      · exact subs_g env hn r p len _ ps1 hw.2 hrec.2 hdecl2 (List.nodup_append.mp hnd).2.1
          (hinv.of_fr hfr1) hkinv1
  | .dup i pgid cs :: r, p, len, hb, ps, hw, hrec, hdecl, hnd, hinv, hk => by
    simp only [wfhSubs, Bool.and_eq_true, decide_eq_true_eq] at hw
    obtain ⟨⟨hlen2, hwc⟩, hwr⟩ := hw
    simp only [recoverableSubs, Bool.and_eq_true, beq_iff_eq] at hrec
    simp only [genesOfSubs] at hnd hk
    have hdecl1 : ∀ e ∈ geneTaxaCopies (i :: p) cs, env.lookupGene e.1 = some e.2 :=
      fun e he => hdecl e (by simp [geneTaxaSubs, he])
    have hdecl2 : ∀ e ∈ geneTaxaSubs p r, env.lookupGene e.1 = some e.2 :=
      fun e he => hdecl e (by simp [geneTaxaSubs, he])
    obtain ⟨A, ps1, hel, hns, hne, hfl, hst, hlt, hkinv1, hfr1, hg1⟩ := pgRead env p i len pgid cs
      (genesOfSubs r) p hb ps hinv hk hlen2 hrec.1.2
      (fun ps0 hi hk0 => cop_g env hn cs (i :: p) (len + 1) (genesOfSubs r) hb ps0 hwc hrec.1.1 hdecl1 hnd hi hk0)
    apply subs_event_step env p len (.dup i pgid cs) r hb ps ps1 ⟨ps.next, pgid, p, A⟩
    · simp only [encodeSubs]
      exact elems_cons_ok hel
    · intro U evs' h
      simp only [RD]
      exact ⟨_, evs', rfl, rfl, rfl, hns, h⟩
    · simp only [appTaxaSubs, (hns.appTaxa).1]
    · simp only [spillSubs]
    · rfl
    · exact hne
    · exact hfl
    · exact hns.okpath i p cs A
    · exact Or.inl rfl
    · rfl
    · exact hlt
    · exact hst
    · exact hfr1
    · exact hg1
    · exact subs_g env hn r p len _ ps1 hwr hrec.2 hdecl2 (List.nodup_append.mp hnd).2.1
        (hinv.of_fr hfr1) hkinv1
  | .ann e :: r, p, len, hb, ps, hw, hrec, hdecl, hnd, hinv, hk => by
    simp only [wfhSubs, Bool.and_eq_true] at hw
    simp only [recoverableSubs] at hrec
    simp only [genesOfSubs] at hnd hk
    obtain ⟨hb1, hel1, hk1, hd1, hu1, hp1, hi1⟩ : ∃ hb1, elem env (len + 1) e hb ps = .ok (hb1, ps) ∧
        hb1.kids = hb.kids ∧ hb1.dup = hb.dup ∧ hb1.info.uid = hb.info.uid ∧
        hb1.info.props.lookup "TaxRange" = hb.info.props.lookup "TaxRange" ∧
        InfoFold hb.info hb1.info [e] := by
      cases e with
      | score id v =>
        exact ⟨{ hb with info := { hb.info with scores := dictSet hb.info.scores id v } },
          by simp only [elem], rfl, rfl, rfl, rfl, rfl, rfl, rfl, rfl, rfl, rfl⟩
      | prop n v =>
        have hne : n ≠ "TaxRange" := by simpa [isAnnElem] using hw.1
        exact ⟨{ hb with info := { hb.info with props := dictSet hb.info.props n v } },
          by simp only [elem], rfl, rfl, rfl, lookup_dictSet_ne _ _ _ (Ne.symm hne) _,
          rfl, rfl, rfl, rfl, rfl, rfl⟩
      | ref _ _ => simp [isAnnElem] at hw
      | og _ _ _ => simp [isAnnElem] at hw
      | pg _ _ => simp [isAnnElem] at hw
    obtain ⟨hb', ps', new, U, evs, hel', hkids, hdup', huid, hprops, hrd, hperm, hU, hdg, hev, htx', hfl,
      htx, hlift, hkinv, hfr, hg, hif⟩ := subs_g env hn r p len hb1 ps hw.2 hrec
        (by simpa [geneTaxaSubs] using hdecl) hnd hinv (by rw [hk1]; exact hk)
    refine ⟨hb', ps', new, U, evs, ?_, by rw [hkids, hk1], hdup'.trans hd1, huid.trans hu1,
      hprops.trans hp1, by simpa only [RD] using hrd, hperm, hU, hdg, hev, htx', hfl,
      by simpa [appTaxaSubs] using htx, by simpa [spillSubs] using hlift, hkinv, hfr, hg,
      InfoFold.cons hi1 hif⟩
    simp only [encodeSubs]
    rw [elems_cons_ok hel1]
    exact hel'

theorem cop_g (env : Env) (hn : NamesInj env.T env.nm) : (cs : List SL) → (q : Taxon) → (len : Nat) →
    (G2 : List String) → (hb : HogBuild) → (ps : PS) → wfhCopies env.T q cs = true →
    recoverableCopies q cs = true → (∀ e ∈ geneTaxaCopies q cs, env.lookupGene e.1 = some e.2) →
    (genesOfCopies cs ++ G2).Nodup → PInv len ps → KInv hb.kids ps.next (genesOfCopies cs ++ G2) →
    CopG env q len cs G2 hb ps
  | [], q, len, G2, hb, ps, _, _, _, _, hinv, hk => by
    refine ⟨[], ps, ?_, by simp only [NSCopies], by simp, by simpa [genesOfCopies] using hk,
      Fr.refl_of hinv.dids, ?_⟩
    · simp [encodeCopies, elems]
    · intro d0 _
      split
      · cases ps.getDup d0 <;> simp [addMems_nil]
      · rfl
  | c :: cs, q, len, G2, hb, ps, hw, hrec, hdecl, hnd, hinv, hk => by
    simp only [wfhCopies, Bool.and_eq_true] at hw
    simp only [recoverableCopies, Bool.and_eq_true, List.isEmpty_iff] at hrec
    simp only [genesOfCopies, List.append_assoc] at hnd hk
    have hdecl1 : ∀ e ∈ geneTaxaSL q c, env.lookupGene e.1 = some e.2 :=
      fun e he => hdecl e (by simp [geneTaxaCopies, he])
    have hdecl2 : ∀ e ∈ geneTaxaCopies q cs, env.lookupGene e.1 = some e.2 :=
      fun e he => hdecl e (by simp [geneTaxaCopies, he])
    obtain ⟨n, ps1, hel, hdup, hns, hkey, hfr1, hg1⟩ := lin_ns env hn c q len hb ps hw.1 hrec.1.1 hrec.1.2
      hdecl1 (List.nodup_append.mp hnd).1 hinv
    have hinv1 := hinv.of_fr hfr1
    have hn1 := hfr1.next
    have hk1 : KInv (hb.kids ++ [n]) ps1.next (genesOfCopies cs ++ G2) := hk.step hnd hkey hfr1.next
    obtain ⟨ks, ps', hel', hnsc, hks, hkinv, hfr2, hg2⟩ := cop_g env hn cs q len G2
      { hb with kids := hb.kids ++ [n] } ps1 hw.2 hrec.2 hdecl2 (List.nodup_append.mp hnd).2.1 hinv1 hk1
    rw [flagAt_fr hfr1] at hks hg2
    refine ⟨n :: ks, ps', ?_, ?_, ?_, ?_, hfr1.trans hfr2, ?_⟩
    · simp only [encodeCopies]
      rw [elems_append_ok _ hel, hel']
      simp
    · simp only [NSCopies]
      exact ⟨n, ks, rfl, hns, hnsc⟩
    · intro k hk'
      rcases List.mem_cons.mp hk' with rfl | h
      · exact hdup
      · exact hks k h
    · simpa using hkinv
    · intro d0 hd0
      rw [hg2 d0 (by omega), hg1 d0 hd0]
      split
      · cases ps.getDup d0 <;> simp [addMems_addMems]
      · rfl
end

/-- C19 / C03, one family, with the annotation clause -/
theorem C03A_family (env : Env) (p : Taxon) (l : SL)
    (hg : isWrittenGrp l = true) (hw : wfh env.T p l = true) (hrec : recoverable p l = true)
    (hdecl : Declared env p l) (hnd : (genesOf l).Nodup) (hn : NamesInj env.T env.nm)
    (tops : List Node) (ps : PS) (hidle : Idle ps) :
    ∃ n ps', topElems env none (encode env.T env.nm p l) tops ps = .ok (tops ++ [n], ps') ∧
      RealisesA env.T env.nm p l n ∧ n.dup = none ∧ Idle ps' ∧ ps.next ≤ ps'.next := by
  cases l with
  | gene _ _ => simp [isWrittenGrp] at hg
  | grp w hid label subs =>
    simp only [isWrittenGrp] at hg
    subst hg
    obtain ⟨hst, hin, hcur, hdid⟩ := hidle
    have hinv : PInv 0 ps := ⟨by rw [hst]; simp, by rw [hst, hin]; rfl, by rw [hst, hcur]; rfl, by
      intro d hd
      obtain ⟨b, hb, rfl⟩ := List.mem_map.mp hd
      exact hdid b hb⟩
    have hw' := hw
    simp only [wfh, Bool.and_eq_true, decide_eq_true_eq] at hw'
    obtain ⟨_, hws⟩ := hw'
    have hrec' := hrec
    simp only [recoverable, Bool.and_eq_true] at hrec'
    simp only [genesOf] at hnd
    obtain ⟨nb, ps2, n, ps3, h1, h2, htx, hdup, hkey, hR, hfr, hlt, hg⟩ :=
      ogCloseG env hn p 0 true hid label subs ps hw hrec hinv
        (fun hb' ps' hi hk => subs_g env hn subs p 0 hb' ps' hws hrec'.1
          (by simpa [Declared, geneTaxaSL] using hdecl) hnd hi hk)
    refine ⟨n, ps3, ?_, hR, ?_, ?_, by omega⟩
    · simp only [encode, topElems, bind, Except.bind, topElem_og_ok h1 h2]
    · rw [hdup]; simp [flagAt, hin]
    · exact ⟨hfr.pstack.trans hst, hfr.inpg.trans hin, hfr.cur.trans hcur,
        fun b hb => hfr.dids b.did (List.mem_map.mpr ⟨b, hb, rfl⟩)⟩

theorem C03A_load_aux (env : Env) (hn : NamesInj env.T env.nm) : (fams : List (Taxon × SL)) →
    (∀ f ∈ fams, isWrittenGrp f.2 = true ∧ wfh env.T f.1 f.2 = true ∧ recoverable f.1 f.2 = true ∧
      Declared env f.1 f.2 ∧ (genesOf f.2).Nodup) → (tops : List Node) → (ps : PS) → Idle ps →
    ∃ new ps', topElems env none (fams.flatMap fun f => encode env.T env.nm f.1 f.2) tops ps =
        .ok (tops ++ new, ps') ∧ new.length = fams.length ∧
      ∀ i (h1 : i < new.length) (h2 : i < fams.length), RealisesA env.T env.nm (fams[i]).1 (fams[i]).2 new[i]
  | [], _, tops, ps, _ => ⟨[], ps, by simp [topElems], rfl, fun i h1 => by simp at h1⟩
  | f :: fs, hf, tops, ps, hidle => by
    obtain ⟨hg, hw, hrec, hdecl, hnd⟩ := hf f (by simp)
    obtain ⟨n, ps1, h1, hR, _, hidle1, _⟩ :=
      C03A_family env f.1 f.2 hg hw hrec hdecl hnd hn tops ps hidle
    obtain ⟨new, ps', h2, hl, hi⟩ := C03A_load_aux env hn fs (fun g hg => hf g (by simp [hg]))
      (tops ++ [n]) ps1 hidle1
    refine ⟨n :: new, ps', ?_, by simp [hl], ?_⟩
    · simp only [List.flatMap_cons]
      rw [topElems_append_ok _ h1, h2]
      simp
    · intro i h1' h2'
      cases i with
      | zero => exact hR
      | succ i =>
        simp only [List.getElem_cons_succ]
        exact hi i (by simpa using h1') (by simpa using h2')

/-- C19 / C03, whole file, with the annotation clause -/
theorem C03A_load (env : Env) (fams : List (Taxon × SL))
    (hf : ∀ f ∈ fams, isWrittenGrp f.2 = true ∧ wfh env.T f.1 f.2 = true ∧ recoverable f.1 f.2 = true ∧
      Declared env f.1 f.2 ∧ (genesOf f.2).Nodup)
    (hn : NamesInj env.T env.nm) :
    ∃ tops ps, topElems env none (fams.flatMap fun f => encode env.T env.nm f.1 f.2) [] {} = .ok (tops, ps) ∧
      tops.length = fams.length ∧
      ∀ i (h1 : i < tops.length) (h2 : i < fams.length), RealisesA env.T env.nm (fams[i]).1 (fams[i]).2 tops[i] := by
  obtain ⟨new, ps', h, hl, hi⟩ := C03A_load_aux env hn fams hf [] {}
    ⟨rfl, rfl, rfl, fun b hb => absurd hb List.not_mem_nil⟩
  refine ⟨new, ps', by simpa using h, hl, hi⟩

/-- **C03, one family** -/
theorem C03_family (env : Env) (p : Taxon) (l : SL)
    (hg : isWrittenGrp l = true) (hw : wfh env.T p l = true) (hrec : recoverable p l = true)
    (hdecl : Declared env p l) (hnd : (genesOf l).Nodup) (hn : NamesInj env.T env.nm)
    (tops : List Node) (ps : PS) (hidle : Idle ps) :
    ∃ n ps', topElems env none (encode env.T env.nm p l) tops ps = .ok (tops ++ [n], ps') ∧
      Realises p l n ∧ n.dup = none ∧ Idle ps' ∧ ps.next ≤ ps'.next := by
  obtain ⟨n, ps', h1, h2, h3, h4, h5⟩ := C03A_family env p l hg hw hrec hdecl hnd hn tops ps hidle
  exact ⟨n, ps', h1, realisesA_realises' env.T env.nm l p n h2, h3, h4, h5⟩

/-- **C03, whole file**: all families are loaded, in order, each realising its history -/
theorem C03_load_realises (env : Env) (fams : List (Taxon × SL))
    (hf : ∀ f ∈ fams, isWrittenGrp f.2 = true ∧ wfh env.T f.1 f.2 = true ∧ recoverable f.1 f.2 = true ∧
      Declared env f.1 f.2 ∧ (genesOf f.2).Nodup)
    (hn : NamesInj env.T env.nm) :
    ∃ tops ps, topElems env none (fams.flatMap fun f => encode env.T env.nm f.1 f.2) [] {} = .ok (tops, ps) ∧
      tops.length = fams.length ∧
      ∀ i (h1 : i < tops.length) (h2 : i < fams.length), Realises (fams[i]).1 (fams[i]).2 tops[i] := by
  obtain ⟨tops, ps, h1, h2, h3⟩ := C03A_load env fams hf hn
  exact ⟨tops, ps, h1, h2, fun i a b => realisesA_realises' env.T env.nm _ _ _ (h3 i a b)⟩

end Pyham
