/-
  C16: navigation inside a family is self-consistent.
-/
import PyhamModel.Model.Nav
namespace Pyham

/-- the descendant-HOG list and the node list describe the same subtree -/
theorem hogs_eq_nodes_filter : (n : Node) → n.hogs = n.nodes.filter (fun x => !x.isGene)
  | .gene i t d l => by simp [Node.hogs, Node.nodes, Node.isGene]
  | .hog info t d ks ds => by
    simp [Node.hogs, Node.nodes, Node.isGene, hogsL_eq ks]
where
  hogsL_eq : (ks : List Node) → Node.hogsL ks = (Node.nodesL ks).filter (fun x => !x.isGene)
    | [] => by simp [Node.hogsL, Node.nodesL]
    | k :: ks => by
      simp only [Node.hogsL, Node.nodesL, List.filter_append]
      rw [hogs_eq_nodes_filter k, hogsL_eq ks]

/-- the descendant-gene list is the list of gene nodes of the subtree -/
theorem leaves_eq_nodes : (n : Node) →
    n.leaves = n.nodes.filterMap (fun x => match x with | .gene i _ _ _ => some i | _ => none)
  | .gene i t d l => by simp [Node.leaves, Node.nodes]
  | .hog info t d ks ds => by
    simp [Node.leaves, Node.nodes, leavesL_eq ks]
where
  leavesL_eq : (ks : List Node) → Node.leavesL ks =
      (Node.nodesL ks).filterMap (fun x => match x with | .gene i _ _ _ => some i | _ => none)
    | [] => by simp [Node.leavesL, Node.nodesL]
    | k :: ks => by
      simp only [Node.leavesL, Node.nodesL, List.filterMap_append]
      rw [leaves_eq_nodes k, leavesL_eq ks]

theorem geneTaxa_map_fst (n : Node) : (geneTaxa n).map (·.1) = n.leaves := by
  rw [leaves_eq_nodes, geneTaxa, List.map_filterMap]
  congr 1
  funext x
  cases x <;> rfl

/-! ### clusterPut -/

def cupd (t : Taxon) (g : String) (e : Taxon × List String) : Taxon × List String :=
  if e.1 == t then (t, e.2 ++ [g]) else e

theorem clusterPut_eq (d : List (Taxon × List String)) (t : Taxon) (g : String) :
    clusterPut d t g = if d.any (·.1 == t) then d.map (cupd t g) else d ++ [(t, [g])] := rfl

theorem cupd_fst (t : Taxon) (g : String) (e : Taxon × List String) : (cupd t g e).1 = e.1 := by
  unfold cupd
  split
  · rename_i h; simpa using (beq_iff_eq.mp h).symm
  · rfl

theorem nav_any_key_iff (d : List (Taxon × List String)) (t : Taxon) :
    d.any (·.1 == t) = true ↔ t ∈ d.map (·.1) := by
  simp only [List.any_eq_true, List.mem_map, beq_iff_eq]

theorem map_cupd_of_not_mem (d : List (Taxon × List String)) (t : Taxon) (g : String)
    (h : t ∉ d.map (·.1)) : d.map (cupd t g) = d := by
  induction d with
  | nil => rfl
  | cons e d ih =>
    simp only [List.map_cons, List.mem_cons, not_or] at h
    simp only [List.map_cons, ih h.2]
    congr 1
    unfold cupd
    have : (e.1 == t) = false := by
      simp only [beq_eq_false_iff_ne, ne_eq]; exact fun hh => h.1 hh.symm
    simp [this]

theorem map_cupd_flat (d : List (Taxon × List String)) (t : Taxon) (g : String)
    (hn : (d.map (·.1)).Nodup) (h : t ∈ d.map (·.1)) :
    ((d.map (cupd t g)).flatMap (·.2)).Perm (d.flatMap (·.2) ++ [g]) := by
  induction d with
  | nil => simp at h
  | cons e d ih =>
    simp only [List.map_cons, List.nodup_cons] at hn
    simp only [List.map_cons, List.flatMap_cons]
    by_cases he : e.1 = t
    · have hnot : t ∉ d.map (·.1) := he ▸ hn.1
      rw [map_cupd_of_not_mem d t g hnot]
      have : (cupd t g e).2 = e.2 ++ [g] := by simp [cupd, he]
      rw [this]
      simp only [List.append_assoc]
      exact List.Perm.append_left _ List.perm_append_comm
    · have hin : t ∈ d.map (·.1) := by
        simp only [List.map_cons, List.mem_cons] at h
        rcases h with h | h
        · exact absurd h.symm he
        · exact h
      have : cupd t g e = e := by simp [cupd, he]
      rw [this, List.append_assoc]
      exact List.Perm.append_left _ (ih hn.2 hin)

theorem clusterPut_keys_nodup (d : List (Taxon × List String)) (t : Taxon) (g : String)
    (hn : (d.map (·.1)).Nodup) : ((clusterPut d t g).map (·.1)).Nodup := by
  rw [clusterPut_eq]
  split
  · rw [List.map_map]
    have : ((fun x : Taxon × List String => x.1) ∘ cupd t g) = (·.1) := by
      funext e; exact cupd_fst t g e
    rw [this]; exact hn
  · rename_i h
    rw [nav_any_key_iff] at h
    rw [List.map_append, List.nodup_append]
    refine ⟨hn, by simp, ?_⟩
    intro a ha b hb
    simp at hb
    subst hb
    intro hab; subst hab; exact h ha

theorem clusterPut_flat (d : List (Taxon × List String)) (t : Taxon) (g : String)
    (hn : (d.map (·.1)).Nodup) :
    ((clusterPut d t g).flatMap (·.2)).Perm (d.flatMap (·.2) ++ [g]) := by
  rw [clusterPut_eq]
  split
  · rename_i h
    exact map_cupd_flat d t g hn ((nav_any_key_iff d t).mp h)
  · simp

theorem clusterPut_mem (d : List (Taxon × List String)) (t : Taxon) (g : String)
    (t' : Taxon) (gs : List String) (h : (t', gs) ∈ clusterPut d t g) :
    ∀ x ∈ gs, (x = g ∧ t' = t) ∨ ∃ gs', (t', gs') ∈ d ∧ x ∈ gs' := by
  intro x hx
  rw [clusterPut_eq] at h
  split at h
  · simp only [List.mem_map] at h
    obtain ⟨e, he, hee⟩ := h
    unfold cupd at hee
    split at hee
    · rename_i hk
      have hk := beq_iff_eq.mp hk
      injection hee with h1 h2
      subst h1 h2
      simp only [List.mem_append, List.mem_singleton] at hx
      rcases hx with hx | hx
      · exact Or.inr ⟨e.2, by rw [← hk]; exact he, hx⟩
      · exact Or.inl ⟨hx, rfl⟩
    · subst hee; exact Or.inr ⟨_, he, hx⟩
  · simp only [List.mem_append, List.mem_singleton] at h
    rcases h with h | h
    · exact Or.inr ⟨_, h, hx⟩
    · injection h with h1 h2
      subst h1 h2
      simp at hx
      exact Or.inl ⟨hx, rfl⟩

abbrev cstep (d : List (Taxon × List String)) (e : String × Taxon) := clusterPut d e.2 e.1

theorem cfold_inv (es : List (String × Taxon)) : ∀ (d : List (Taxon × List String)),
    (d.map (·.1)).Nodup →
    ((es.foldl cstep d).map (·.1)).Nodup ∧
    ((es.foldl cstep d).flatMap (·.2)).Perm (d.flatMap (·.2) ++ es.map (·.1)) ∧
    ∀ t gs, (t, gs) ∈ es.foldl cstep d → ∀ x ∈ gs,
      (x, t) ∈ es ∨ ∃ gs', (t, gs') ∈ d ∧ x ∈ gs' := by
  induction es with
  | nil =>
    intro d hn
    refine ⟨hn, by simp, ?_⟩
    intro t gs h x hx
    exact Or.inr ⟨gs, h, hx⟩
  | cons e es ih =>
    intro d hn
    simp only [List.foldl_cons]
    have hn' := clusterPut_keys_nodup d e.2 e.1 hn
    obtain ⟨h1, h2, h3⟩ := ih (cstep d e) hn'
    refine ⟨h1, ?_, ?_⟩
    · refine h2.trans ?_
      simp only [List.map_cons]
      have := clusterPut_flat d e.2 e.1 hn
      refine (List.Perm.append_right _ this).trans ?_
      simp
    · intro t gs h x hx
      rcases h3 t gs h x hx with h | ⟨gs', hg, hx'⟩
      · exact Or.inl (List.mem_cons_of_mem _ h)
      · rcases clusterPut_mem d e.2 e.1 t gs' hg x hx' with ⟨a, b⟩ | h
        · left; subst a b; exact List.mem_cons_self
        · exact Or.inr h

theorem clusterBySpecies_eq (n : Node) : clusterBySpecies n = (geneTaxa n).foldl cstep [] := rfl

/-- the per-species clustering is a partition of the descendant genes: flattened it is a permutation
    of the gene list ... -/
theorem clusterBySpecies_perm (n : Node) :
    ((clusterBySpecies n).flatMap (·.2)).Perm n.leaves := by
  have := (cfold_inv (geneTaxa n) [] (by simp)).2.1
  rw [clusterBySpecies_eq]
  simpa [geneTaxa_map_fst] using this
/-- ... its keys are pairwise distinct ... -/
theorem clusterBySpecies_keys_nodup (n : Node) : ((clusterBySpecies n).map (·.1)).Nodup :=
  (cfold_inv (geneTaxa n) [] (by simp)).1
/-- ... and each gene is listed under the species it lives in -/
theorem clusterBySpecies_sound (n : Node) (t : Taxon) (gs : List String) (g : String)
    (h : (t, gs) ∈ clusterBySpecies n) (hg : g ∈ gs) : (g, t) ∈ geneTaxa n := by
  rcases (cfold_inv (geneTaxa n) [] (by simp)).2.2 t gs h g hg with h | ⟨gs', h, _⟩
  · exact h
  · simp at h

/-- the level list is the descendant-HOG list seen through `tx` (each HOG once) -/
theorem descLevels_eq (n : Node) : descLevels n = n.hogs.map Node.tx := rfl

theorem locs_anc : (n : Node) → (anc : List Node) → ∀ l ∈ locs anc n,
    (l.node = n ∧ l.anc = anc) ∨ ∃ pre, l.anc = pre ++ n :: anc
  | .gene i t d lo, anc => by
    intro l hl
    simp [locs] at hl
    subst hl
    exact Or.inl ⟨rfl, rfl⟩
  | .hog info t d ks ds, anc => by
    intro l hl
    simp only [locs, List.mem_cons] at hl
    rcases hl with hl | hl
    · subst hl; exact Or.inl ⟨rfl, rfl⟩
    · exact Or.inr (locsL_anc ks _ l hl)
where
  locsL_anc : (ks : List Node) → (anc : List Node) → ∀ l ∈ locsL anc ks, ∃ pre, l.anc = pre ++ anc
    | [], _ => by intro l hl; simp [locsL] at hl
    | k :: ks, anc => by
      intro l hl
      simp only [locsL, List.mem_append] at hl
      rcases hl with hl | hl
      · rcases locs_anc k anc l hl with ⟨_, h⟩ | ⟨pre, h⟩
        · exact ⟨[], by simpa using h⟩
        · exact ⟨pre ++ [k], by simpa using h⟩
      · exact locsL_anc ks anc l hl

/-- every member of a family reports the same top-level HOG -/
theorem topOf_locs (top : Node) (l : Loc) (h : l ∈ locs [] top) : topOf l = top := by
  unfold topOf
  rcases locs_anc top [] l h with ⟨h1, h2⟩ | ⟨pre, h⟩
  · simp [h1, h2]
  · simp [h]

/-- every located node of a family is a node of the family and vice versa -/
theorem locs_nodes : (top : Node) → (anc : List Node) → (locs anc top).map Loc.node = top.nodes
  | .gene i t d l, anc => by simp [locs, Node.nodes]
  | .hog info t d ks ds, anc => by
    simp [locs, Node.nodes, locsL_nodes ks]
where
  locsL_nodes : (ks : List Node) → (anc : List Node) → (locsL anc ks).map Loc.node = Node.nodesL ks
    | [], _ => by simp [locsL, Node.nodesL]
    | k :: ks, anc => by
      simp only [locsL, Node.nodesL, List.map_append]
      rw [locs_nodes k anc, locsL_nodes ks anc]

/-- asking any member for a genome returns exactly the family's members living in that genome,
    with KeyError when there are none or the answer would contain the member itself -/
theorem getAtLevel_ok (top : Node) (l : Loc) (hl : l ∈ locs [] top) (g : Taxon) (r : List Node)
    (h : getAtLevel l g = .ok r) :
    r = top.nodes.filter (fun n => n.tx == g) ∧ r ≠ [] ∧ ∀ n ∈ r, n.key ≠ l.node.key := by
  unfold getAtLevel at h
  rw [topOf_locs top l hl] at h
  simp only at h
  split at h
  · cases h
  · split at h
    · cases h
    · rename_i h1 h2
      injection h with h
      subst h
      refine ⟨rfl, ?_, ?_⟩
      · intro h; simp [h] at h1
      · intro n hn hk
        apply h2
        simp only [List.any_eq_true, beq_iff_eq]
        exact ⟨n, hn, hk⟩

theorem getAtLevel_err (top : Node) (l : Loc) (hl : l ∈ locs [] top) (g : Taxon) (e : Err)
    (h : getAtLevel l g = .error e) :
    e = .key ∧ (top.nodes.filter (fun n => n.tx == g) = [] ∨
                ∃ n ∈ top.nodes.filter (fun n => n.tx == g), n.key = l.node.key) := by
  unfold getAtLevel at h
  rw [topOf_locs top l hl] at h
  simp only at h
  split at h
  · rename_i h1
    injection h with h
    exact ⟨h.symm, Or.inl (by simpa using h1)⟩
  · split at h
    · rename_i h1 h2
      injection h with h
      refine ⟨h.symm, Or.inr ?_⟩
      simp only [List.any_eq_true, beq_iff_eq] at h2
      exact h2
    · cases h

end Pyham
