/-
  C14: results do not depend on how the file happens to be written.  `Realises` -- the relation
  between a history and the loaded HOG that C03 establishes -- does not look at the spelling:
  re-ordering the members of a group, relabelling group ids, adding or removing TaxRange labels,
  eliding or spelling out groups.  Two spellings of one history are therefore realised by exactly the
  same hierarchies.
-/
import PyhamModel.Model.Realises
namespace Pyham

mutual
/-- same history, possibly spelled differently: written/elided flag, group id, TaxRange label and
    annotations are free; sub-branches and copies may be listed in any order -/
inductive SameL : SL → SL → Prop
  | gene (id : String) (loft : Option String) : SameL (.gene id loft) (.gene id loft)
  | grp (w w' : Bool) (hid hid' : Option String) (lab lab' : Bool) (subs subs' : List Sub) :
      SameSubs subs subs' → SameL (.grp w hid lab subs) (.grp w' hid' lab' subs')
/-- the real subs correspond one to one, up to order; annotations are ignored -/
inductive SameSubs : List Sub → List Sub → Prop
  | nil : SameSubs [] []
  | ann_left (e : Elem) (a b : List Sub) : SameSubs a b → SameSubs (.ann e :: a) b
  | ann_right (e : Elem) (a b : List Sub) : SameSubs a b → SameSubs a (.ann e :: b)
  | one (i : Nat) (l l' : SL) (a b : List Sub) : SameL l l' → SameSubs a b → SameSubs (.one i l :: a) (.one i l' :: b)
  | dup (i : Nat) (pgid : Option String) (cs cs' : List SL) (a b : List Sub) :
      SameCopies cs cs' → SameSubs a b → SameSubs (.dup i pgid cs :: a) (.dup i pgid cs' :: b)
  | swap (x y : Sub) (a : List Sub) : SameSubs (x :: y :: a) (y :: x :: a)
  | trans (a b c : List Sub) : SameSubs a b → SameSubs b c → SameSubs a c
inductive SameCopies : List SL → List SL → Prop
  | nil : SameCopies [] []
  | cons (c c' : SL) (a b : List SL) : SameL c c' → SameCopies a b → SameCopies (c :: a) (c' :: b)
  | swap (x y : SL) (a : List SL) : SameCopies (x :: y :: a) (y :: x :: a)
  | trans (a b c : List SL) : SameCopies a b → SameCopies b c → SameCopies a c
end

/-- what the enclosing group sees of the events: records and flagged children, up to order -/
def EvsSame (evs' evs : List (DupRec × List Node)) : Prop :=
  (evs'.map (·.1)).Perm (evs.map (·.1)) ∧ (evs'.flatMap (·.2)).Perm (evs.flatMap (·.2))

theorem EvsSame.refl (evs : List (DupRec × List Node)) : EvsSame evs evs := ⟨.refl _, .refl _⟩

theorem realisesSubs_swap (q : Taxon) (x y : Sub) (a : List Sub) (plain : List Node)
    (evs : List (DupRec × List Node)) (h : RealisesSubs q (x :: y :: a) plain evs) :
    ∃ plain' evs', plain'.Perm plain ∧ EvsSame evs' evs ∧ RealisesSubs q (y :: x :: a) plain' evs' := by
  cases x with
  | ann e =>
    cases y with
    | ann e' => exact ⟨plain, evs, .refl _, .refl _, by simpa only [RealisesSubs] using h⟩
    | one j m => exact ⟨plain, evs, .refl _, .refl _, by simpa only [RealisesSubs] using h⟩
    | dup j pg cs => exact ⟨plain, evs, .refl _, .refl _, by simpa only [RealisesSubs] using h⟩
  | one i l =>
    cases y with
    | ann e' => exact ⟨plain, evs, .refl _, .refl _, by simpa only [RealisesSubs] using h⟩
    | one j m =>
      simp only [RealisesSubs] at h
      obtain ⟨k, p1, rfl, hk, hr, k2, p2, rfl, hk2, hr2, hrest⟩ := h
      refine ⟨k2 :: k :: p2, evs, List.Perm.swap _ _ _, .refl _, ?_⟩
      simp only [RealisesSubs]
      exact ⟨k2, _, rfl, hk2, hr2, k, _, rfl, hk, hr, hrest⟩
    | dup j pg cs =>
      simp only [RealisesSubs] at h
      obtain ⟨k, p1, rfl, hk, hr, rc, ks, evs', rfl, h1, h2, h3, h4, h5, hrest⟩ := h
      refine ⟨_, _, .refl _, .refl _, ?_⟩
      simp only [RealisesSubs]
      exact ⟨rc, ks, evs', rfl, h1, h2, h3, h4, h5, k, p1, rfl, hk, hr, hrest⟩
  | dup i pg cs =>
    cases y with
    | ann e' => exact ⟨plain, evs, .refl _, .refl _, by simpa only [RealisesSubs] using h⟩
    | one j m =>
      simp only [RealisesSubs] at h
      obtain ⟨rc, ks, evs', rfl, h1, h2, h3, h4, h5, k, p1, rfl, hk, hr, hrest⟩ := h
      refine ⟨_, _, .refl _, .refl _, ?_⟩
      simp only [RealisesSubs]
      exact ⟨k, p1, rfl, hk, hr, rc, ks, evs', rfl, h1, h2, h3, h4, h5, hrest⟩
    | dup j pg' cs' =>
      simp only [RealisesSubs] at h
      obtain ⟨rc, ks, evs', rfl, h1, h2, h3, h4, h5, rc2, ks2, evs2, rfl, g1, g2, g3, g4, g5, hrest⟩ := h
      refine ⟨plain, (rc2, ks2) :: (rc, ks) :: evs2, .refl _, ⟨?_, ?_⟩, ?_⟩
      · simp only [List.map_cons]; exact List.Perm.swap _ _ _
      · simp only [List.flatMap_cons, ← List.append_assoc]
        exact List.Perm.append_right _ List.perm_append_comm
      · simp only [RealisesSubs]
        exact ⟨rc2, ks2, _, rfl, g1, g2, g3, g4, g5, rc, ks, _, rfl, h1, h2, h3, h4, h5, hrest⟩

theorem realisesCopies_swap (q : Taxon) (x y : SL) (a : List SL) (ks : List Node)
    (h : RealisesCopies q (x :: y :: a) ks) :
    ∃ ks', ks'.Perm ks ∧ RealisesCopies q (y :: x :: a) ks' := by
  simp only [RealisesCopies] at h
  obtain ⟨k, _, rfl, hr, k2, r, rfl, hr2, hrest⟩ := h
  refine ⟨k2 :: k :: r, List.Perm.swap _ _ _, ?_⟩
  simp only [RealisesCopies]
  exact ⟨k2, _, rfl, hr2, k, _, rfl, hr, hrest⟩

mutual
theorem sameL_real : ∀ {l l' : SL}, SameL l l' → ∀ (q : Taxon) (n : Node), Realises q l n → Realises q l' n
  | _, _, .gene id loft, q, n, h => h
  | _, _, .grp w w' hid hid' lab lab' subs subs' hs, q, n, h => by
    simp only [Realises] at h ⊢
    obtain ⟨info, d, kids, dups, rfl, plain, evs, hk, hd, hnd, hsub⟩ := h
    obtain ⟨plain', evs', hp, ⟨he1, he2⟩, hsub'⟩ := sameSubs_real hs q plain evs hsub
    refine ⟨info, d, kids, dups, rfl, plain', evs', ?_, ?_, ?_, hsub'⟩
    · exact hk.trans (List.Perm.append hp he2).symm
    · exact hd.trans he1.symm
    · have e : ∀ (x : List (DupRec × List Node)), x.map (·.1.did) = (x.map (·.1)).map (·.did) := by
        intro x; simp [List.map_map]
      rw [e] at hnd ⊢
      exact ((he1.map _).nodup_iff).2 hnd
theorem sameSubs_real : ∀ {a b : List Sub}, SameSubs a b → ∀ (q : Taxon) (plain : List Node)
    (evs : List (DupRec × List Node)), RealisesSubs q a plain evs →
    ∃ plain' evs', plain'.Perm plain ∧ EvsSame evs' evs ∧ RealisesSubs q b plain' evs'
  | _, _, .nil, q, plain, evs, h => ⟨plain, evs, .refl _, .refl _, h⟩
  | _, _, .ann_left e a b s, q, plain, evs, h => by
    simp only [RealisesSubs] at h
    exact sameSubs_real s q plain evs h
  | _, _, .ann_right e a b s, q, plain, evs, h => by
    obtain ⟨p', e', hp, he, hr⟩ := sameSubs_real s q plain evs h
    exact ⟨p', e', hp, he, by simpa only [RealisesSubs] using hr⟩
  | _, _, .one i l l' a b hl hs, q, plain, evs, h => by
    simp only [RealisesSubs] at h
    obtain ⟨k, p1, rfl, hk, hr, hrest⟩ := h
    obtain ⟨p', e', hp, he, hr'⟩ := sameSubs_real hs q p1 evs hrest
    refine ⟨k :: p', e', hp.cons _, he, ?_⟩
    simp only [RealisesSubs]
    exact ⟨k, p', rfl, hk, sameL_real hl _ _ hr, hr'⟩
  | _, _, .dup i pgid cs cs' a b hc hs, q, plain, evs, h => by
    simp only [RealisesSubs] at h
    obtain ⟨rc, ks, evs1, rfl, h1, h2, h3, h4, h5, hrest⟩ := h
    obtain ⟨ks', hks, hc'⟩ := sameCopies_real hc (i :: q) ks h5
    obtain ⟨p', e', hp, ⟨he1, he2⟩, hr'⟩ := sameSubs_real hs q plain evs1 hrest
    refine ⟨p', (rc, ks') :: e', hp, ⟨?_, ?_⟩, ?_⟩
    · simp only [List.map_cons]; exact he1.cons _
    · simp only [List.flatMap_cons]; exact List.Perm.append hks he2
    · simp only [RealisesSubs]
      refine ⟨rc, ks', e', rfl, h1, h2, h3.trans (hks.map _).symm, ?_, hc', hr'⟩
      intro k hk
      exact h4 k (hks.mem_iff.1 hk)
  | _, _, .swap x y a, q, plain, evs, h => realisesSubs_swap q x y a plain evs h
  | _, _, .trans a b c s1 s2, q, plain, evs, h => by
    obtain ⟨p1, e1, hp1, ⟨ha1, hb1⟩, hr1⟩ := sameSubs_real s1 q plain evs h
    obtain ⟨p2, e2, hp2, ⟨ha2, hb2⟩, hr2⟩ := sameSubs_real s2 q p1 e1 hr1
    exact ⟨p2, e2, hp2.trans hp1, ⟨ha2.trans ha1, hb2.trans hb1⟩, hr2⟩
theorem sameCopies_real : ∀ {a b : List SL}, SameCopies a b → ∀ (q : Taxon) (ks : List Node),
    RealisesCopies q a ks → ∃ ks', ks'.Perm ks ∧ RealisesCopies q b ks'
  | _, _, .nil, q, ks, h => ⟨ks, .refl _, h⟩
  | _, _, .cons c c' a b hl hs, q, ks, h => by
    simp only [RealisesCopies] at h
    obtain ⟨k, r, rfl, hr, hrest⟩ := h
    obtain ⟨r', hp, hr'⟩ := sameCopies_real hs q r hrest
    refine ⟨k :: r', hp.cons _, ?_⟩
    simp only [RealisesCopies]
    exact ⟨k, r', rfl, sameL_real hl _ _ hr, hr'⟩
  | _, _, .swap x y a, q, ks, h => realisesCopies_swap q x y a ks h
  | _, _, .trans a b c s1 s2, q, ks, h => by
    obtain ⟨k1, hp1, hr1⟩ := sameCopies_real s1 q ks h
    obtain ⟨k2, hp2, hr2⟩ := sameCopies_real s2 q k1 hr1
    exact ⟨k2, hp2.trans hp1, hr2⟩
end

/-- **C14**: whatever realises one spelling of a history realises every other spelling of it -/
theorem C14_spelling_independent (q : Taxon) (l l' : SL) (n : Node) (h : SameL l l') (hr : Realises q l n) :
    Realises q l' n :=
  sameL_real h q n hr

mutual
theorem sameL_symm' : ∀ {l l' : SL}, SameL l l' → SameL l' l
  | _, _, .gene id loft => .gene id loft
  | _, _, .grp w w' hid hid' lab lab' subs subs' hs => .grp _ _ _ _ _ _ _ _ (sameSubs_symm' hs)
theorem sameSubs_symm' : ∀ {a b : List Sub}, SameSubs a b → SameSubs b a
  | _, _, .nil => .nil
  | _, _, .ann_left e a b s => .ann_right e _ _ (sameSubs_symm' s)
  | _, _, .ann_right e a b s => .ann_left e _ _ (sameSubs_symm' s)
  | _, _, .one i l l' a b hl hs => .one i _ _ _ _ (sameL_symm' hl) (sameSubs_symm' hs)
  | _, _, .dup i pgid cs cs' a b hc hs => .dup i pgid _ _ _ _ (sameCopies_symm' hc) (sameSubs_symm' hs)
  | _, _, .swap x y a => .swap y x a
  | _, _, .trans a _ c s1 s2 => .trans _ _ _ (sameSubs_symm' s2) (sameSubs_symm' s1)
theorem sameCopies_symm' : ∀ {a b : List SL}, SameCopies a b → SameCopies b a
  | _, _, .nil => .nil
  | _, _, .cons c c' a b hl hs => .cons _ _ _ _ (sameL_symm' hl) (sameCopies_symm' hs)
  | _, _, .swap x y a => .swap y x a
  | _, _, .trans a _ c s1 s2 => .trans _ _ _ (sameCopies_symm' s2) (sameCopies_symm' s1)
end

/-- the relation is symmetric, so the two spellings are realised by exactly the same hierarchies -/
theorem SameL_symm (l l' : SL) (h : SameL l l') : SameL l' l := sameL_symm' h

theorem C14_spelling_iff (q : Taxon) (l l' : SL) (n : Node) (h : SameL l l') :
    Realises q l n ↔ Realises q l' n :=
  ⟨C14_spelling_independent q l l' n h, C14_spelling_independent q l' l n (SameL_symm l l' h)⟩

end Pyham
