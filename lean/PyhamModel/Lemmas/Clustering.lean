/-
  C16, last sentence: for every ancestral genome the ancestral clustering maps each of its HOGs to
  pairwise disjoint extant gene sets.
-/
import PyhamModel.Lemmas.Compose
import PyhamModel.Lemmas.NavLemmas
namespace Pyham

/-- the clustering has one entry per member HOG of the genome, holding its descendant genes -/
theorem aclust_entries (H : Ham) (t : Taxon) (e : Node × List String) :
    e ∈ ancestralClustering H t ↔ ∃ l ∈ H.nodesAt t, l.node.isGene = false ∧ e = (l.node, l.node.leaves) := by
  simp only [ancestralClustering, List.mem_filterMap]
  constructor
  · rintro ⟨l, hl, h⟩
    cases hg : l.node.isGene with
    | true => simp [hg] at h
    | false =>
      simp only [hg, Bool.false_eq_true, if_false, Option.some.injEq] at h
      exact ⟨l, hl, hg, h.symm⟩
  · rintro ⟨l, hl, hg, rfl⟩
    exact ⟨l, hl, by simp [hg]⟩

/-- every descendant gene id of a node is carried by a located gene node of its subtree -/
theorem leaves_locs : (n : Node) → (anc : List Node) → ∀ g ∈ n.leaves,
    ∃ l ∈ locs anc n, l.node.key = .g g
  | .gene i t d lo, anc => by
    intro g hg
    simp only [Node.leaves, List.mem_singleton] at hg
    subst hg
    exact ⟨⟨.gene g t d lo, anc⟩, by simp [locs], rfl⟩
  | .hog info t d ks ds, anc => by
    intro g hg
    simp only [Node.leaves] at hg
    obtain ⟨l, hl, hk⟩ := leavesL_locs ks (.hog info t d ks ds :: anc) g hg
    exact ⟨l, mem_locs_hog.mpr (Or.inr hl), hk⟩
where
  leavesL_locs : (ks : List Node) → (anc : List Node) → ∀ g ∈ Node.leavesL ks,
      ∃ l ∈ locsL anc ks, l.node.key = .g g
    | [], _ => by intro g hg; simp [Node.leavesL] at hg
    | k :: ks, anc => by
      intro g hg
      simp only [Node.leavesL, List.mem_append] at hg
      rcases hg with hg | hg
      · obtain ⟨l, hl, hk⟩ := leaves_locs k anc g hg
        exact ⟨l, by simp only [locsL, List.mem_append]; exact Or.inl hl, hk⟩
      · obtain ⟨l, hl, hk⟩ := leavesL_locs ks anc g hg
        exact ⟨l, by simp only [locsL, List.mem_append]; exact Or.inr hl, hk⟩

/-- the located nodes below a located node of a subtree are located nodes of the subtree -/
theorem locs_sub : (n : Node) → (anc : List Node) → ∀ l ∈ locs anc n,
    ∀ m ∈ locs l.anc l.node, m ∈ locs anc n
  | .gene i t d lo, anc => by
    intro l hl m hm
    simp [locs] at hl; subst hl; exact hm
  | .hog info t d ks ds, anc => by
    intro l hl m hm
    rcases mem_locs_hog.mp hl with rfl | hl'
    · exact hm
    · obtain ⟨k, hk, hlk⟩ := mem_locsL.mp hl'
      have := locs_sub k (.hog info t d ks ds :: anc) l hlk m hm
      exact mem_locs_hog.mpr (Or.inr (mem_locsL.mpr ⟨k, hk, this⟩))
termination_by n => sizeOf n
decreasing_by
  have := List.sizeOf_lt_of_mem hk
  simp +arith
  omega

theorem singletons_isGene {H : Ham} {n : Node} (h : n ∈ H.singletons) : n.isGene = true := by
  simp only [Ham.singletons, List.mem_map] at h
  obtain ⟨_, _, rfl⟩ := h
  rfl

/-- a descendant gene of a located HOG is a located gene having the HOG among its ancestors -/
theorem leaf_located {H : Ham} {l : Loc} (hl : l ∈ H.allLocs) (hng : l.node.isGene = false)
    {g : String} (hg : g ∈ l.node.leaves) :
    ∃ m ∈ H.allLocs, m.node.key = .g g ∧ l.node ∈ m.anc := by
  obtain ⟨m, hm, hk⟩ := leaves_locs l.node l.anc g hg
  rcases mem_allLocs.mp hl with ⟨p, hp, hlp⟩ | ⟨s, hs, rfl⟩
  · refine ⟨m, mem_allLocs.mpr (Or.inl ⟨p, hp, locs_sub p.2 [] l hlp m hm⟩), hk, ?_⟩
    rcases locs_anc_cases l.node l.anc m hm with rfl | hsuf
    · cases hn : l.node with
      | gene => simp [hn, Node.isGene] at hng
      | hog => simp [hn, Node.key] at hk
    · obtain ⟨q, hq⟩ := hsuf
      rw [← hq]; simp
  · rw [singletons_isGene hs] at hng; simp at hng

/-- **C16**: in a well-formed analysis two different HOGs of one ancestral genome have no extant gene
    in common -/
theorem C16_clustering_disjoint (H : Ham) (hw : H.WFc) (t : Taxon) (e1 e2 : Node × List String)
    (h1 : e1 ∈ ancestralClustering H t) (h2 : e2 ∈ ancestralClustering H t) (hne : e1.1.key ≠ e2.1.key)
    (g : String) (hg1 : g ∈ e1.2) : g ∉ e2.2 := by
  intro hg2
  obtain ⟨l1, hl1, hn1, rfl⟩ := (aclust_entries H t e1).mp h1
  obtain ⟨l2, hl2, hn2, rfl⟩ := (aclust_entries H t e2).mp h2
  simp only [Ham.nodesAt, List.mem_filter, beq_iff_eq] at hl1 hl2
  obtain ⟨m1, hm1, hk1, ha1⟩ := leaf_located hl1.1 hn1 hg1
  obtain ⟨m2, hm2, hk2, ha2⟩ := leaf_located hl2.1 hn2 hg2
  have := key_inj hw hm1 hm2 (hk1.trans hk2.symm)
  subst this
  have hc := allLocs_chain hw hm1
  have := chain_unique_at _ _ hc t l1.node l2.node ha1 ha2 hl1.2 hl2.2
  exact hne (by simp only; rw [this])

end Pyham
