/-
  The upward search `search_ancestor_hog_in_ancestral_genome`: what it returns (C06) and how it
  composes along a lineage (C07).
-/
import PyhamModel.Lemmas.Chain
namespace Pyham

def flagged (n : Node) : Bool := n.dup.isSome

/-- skipping a prefix without a node at `a` only accumulates flags -/
theorem searchUp_skip (a : Taxon) : (pre post : List Node) → (f : Bool) →
    (∀ x ∈ pre, x.tx ≠ a) →
    searchUp a f (pre ++ post) = searchUp a (f || pre.any flagged) post
  | [], post, f, _ => by simp
  | x :: pre, post, f, h => by
    have hx : x.tx ≠ a := h x (by simp)
    have hpre : ∀ y ∈ pre, y.tx ≠ a := fun y hy => h y (by simp [hy])
    simp only [List.cons_append, searchUp, beq_iff_eq, hx, if_false, List.any_cons]
    rw [searchUp_skip a pre post _ hpre]
    simp [flagged, Bool.or_assoc]

/-- hitting the first node at `a` -/
theorem searchUp_hit (a : Taxon) (pre post : List Node) (x : Node) (f : Bool)
    (hpre : ∀ y ∈ pre, y.tx ≠ a) (hx : x.tx = a) :
    searchUp a f (pre ++ x :: post) = (some x, f || pre.any flagged) := by
  rw [searchUp_skip a pre (x :: post) f hpre]
  simp [searchUp, hx]

theorem searchUp_none (a : Taxon) (L : List Node) (f : Bool) (h : ∀ y ∈ L, y.tx ≠ a) :
    searchUp a f L = (none, f || L.any flagged) := by
  have := searchUp_skip a L [] f h
  simpa [searchUp] using this

/-- complete description of the loop: the nearest ancestor at `a`, and whether the node itself or
    anything strictly between arose by duplication -/
theorem searchUp_spec (a : Taxon) : (L : List Node) → (f : Bool) →
    (∃ pre x post, L = pre ++ x :: post ∧ (∀ y ∈ pre, y.tx ≠ a) ∧ x.tx = a ∧
        searchUp a f L = (some x, f || pre.any flagged)) ∨
    ((∀ y ∈ L, y.tx ≠ a) ∧ searchUp a f L = (none, f || L.any flagged))
  | [], f => by right; simp [searchUp]
  | y :: L, f => by
    by_cases hy : y.tx = a
    · left
      exact ⟨[], y, L, by simp, by simp, hy, by simp [searchUp, hy]⟩
    · rcases searchUp_spec a L (f || flagged y) with ⟨pre, x, post, hL, hpre, hx, hs⟩ | ⟨hn, hs⟩
      · left
        refine ⟨y :: pre, x, post, by simp [hL], ?_, hx, ?_⟩
        · intro z hz
          simp at hz
          rcases hz with rfl | hz
          · exact hy
          · exact hpre z hz
        · simp only [searchUp, beq_iff_eq, hy, if_false]
          have : (f || y.dup.isSome) = (f || flagged y) := rfl
          rw [this, hs]; simp [Bool.or_assoc]
      · right
        refine ⟨?_, ?_⟩
        · intro z hz
          simp at hz
          rcases hz with rfl | hz
          · exact hy
          · exact hn z hz
        · simp only [searchUp, beq_iff_eq, hy, if_false]
          have : (f || y.dup.isSome) = (f || flagged y) := rfl
          rw [this, hs]; simp [Bool.or_assoc]

/-- C06, first clause: a descendant gene is gained iff none of its ancestors lives in the
    ancestral genome -/
theorem search_none_iff (a : Taxon) (l : Loc) :
    (search a l).1 = none ↔ ∀ y ∈ l.anc, y.tx ≠ a := by
  unfold search
  rcases searchUp_spec a l.anc l.node.dup.isSome with ⟨pre, x, post, hL, _, hx, hs⟩ | ⟨hn, hs⟩
  · rw [hs]
    constructor
    · intro h; simp at h
    · intro h; exact absurd hx (h x (by simp [hL]))
  · rw [hs]; exact ⟨fun _ => hn, fun _ => rfl⟩

/-- on a chain, the node at `a` is unique: elements at different positions have different taxa -/
theorem chain_tx_inj (t : Taxon) (L : List Node) (hc : Chain t L) (i j : Nat) (hi : i < L.length)
    (hj : j < L.length) (h : (L[i]).tx = (L[j]).tx) : i = j := by
  have hi' := chain_tx_drop t L hc i hi
  have hj' := chain_tx_drop t L hc j hj
  have hl := chain_length_le t L hc
  rw [hi', hj'] at h
  have := congrArg List.length h
  simp at this
  omega

/-- C07: comparisons compose along a lineage (list level).
    If the nearest ancestor of the walk at level `b` is `y` (after `pre`), and the chain above
    `y` is `post`, then searching level `a` from the start equals searching level `a` from `y`,
    with flags composing by `||` -- provided no node at or below `y` sits at level `a`. -/
theorem searchUp_compose (a : Taxon) (pre post : List Node) (y : Node) (f : Bool)
    (hpre : ∀ z ∈ pre, z.tx ≠ a) (hy : y.tx ≠ a) :
    searchUp a f (pre ++ y :: post) =
      ((searchUp a (flagged y) post).1, (f || pre.any flagged) || (searchUp a (flagged y) post).2) := by
  have h1 : ∀ z ∈ pre ++ [y], z.tx ≠ a := by
    intro z hz
    simp at hz
    rcases hz with hz | rfl
    · exact hpre z hz
    · exact hy
  have : pre ++ y :: post = (pre ++ [y]) ++ post := by simp
  rw [this, searchUp_skip a (pre ++ [y]) post f h1]
  rcases searchUp_spec a post (flagged y) with ⟨p2, x, q2, hL, hp2, hx, hs⟩ | ⟨hn, hs⟩
  · rw [hs, hL, searchUp_hit a p2 q2 x _ hp2 hx]
    simp [Bool.or_assoc]
  · rw [hs, searchUp_none a post _ hn]
    simp [Bool.or_assoc]

end Pyham
