/-
  How many genes are GAINED over an arbitrary branch `a → d` (not only a branch of length one): on the hierarchy, the
  members of `d` that belong to families rooted strictly below `a` (+ the singletons of `d`); on the histories of a consistent
  dataset, the lineages at `d` of the families the histories start strictly below `a`.
-/
import PyhamModel.Lemmas.Chaining
import PyhamModel.Lemmas.HistoryProfile
namespace Pyham

theorem length_filterMap_ite {α β} (xs : List α) (p : α → Bool) (g : α → β) :
    (xs.filterMap fun x => if p x then some (g x) else none).length = (xs.filter p).length := by
  induction xs with
  | nil => rfl
  | cons x xs ih =>
    simp only [List.filterMap_cons, List.filter_cons]
    cases hp : p x <;> simp [ih]

/-- GAIN, counted through the upward search -/
theorem gained_length_search (H : Ham) (a d : Taxon) :
    (hogsMap H a d).gain.length = ((H.nodesAt d).filter fun l => (search a l).1.isNone).length := by
  rw [(hogsMap_clusters H a d).1, clusters_gain]
  unfold upOf
  rw [List.filterMap_map]
  exact length_filterMap_ite (H.nodesAt d) (fun l => (search a l).1.isNone) (fun l => l.node)

/-- the root taxon of every located member of a family is the taxon of the family's top-level HOG -/
theorem rootTx_of_family (H : Ham) (hw : H.WFc) (p : Option String × Node) (hp : p ∈ H.tops) (l : Loc)
    (hl : l ∈ locs [] p.2) : l.rootTx = p.2.tx := by
  have hal : l ∈ H.allLocs := mem_allLocs.mpr (Or.inl ⟨p, hp, hl⟩)
  obtain ⟨h0, h1⟩ := rootTx_is_top H hw l hal
  by_cases he : l.anc = []
  · have := c10_root_of_anc_nil p.2 l hl he
    rw [h0 he, this]
  · obtain ⟨tl, hhead, htl⟩ := c10_locs_head p.2 []
    rw [hhead] at hl
    rcases List.mem_cons.mp hl with rfl | hm
    · exact absurd rfl he
    · obtain ⟨pre, hpre⟩ := htl l hm
      have hlast : l.anc.getLast? = some p.2 := by rw [← hpre]; simp
      exact (h1 p.2 hlast).symm

/-- **the number of gained genes over any branch, on the hierarchy**: members of `d` in families rooted strictly below `a`,
    plus the singletons of `d` -/
theorem C06_gained_count (H : Ham) (hw : H.WFc) (a d : Taxon) (had : a <:+ d) (hne : a ≠ d) :
    (hogsMap H a d).gain.length =
      famSum H (fun top => if top.tx.isSuffixOf a then 0 else ((locs [] top).filter fun l => l.node.tx == d).length) +
      (singletonsAt H d).length := by
  rw [gained_length_search, c10_split]
  congr 1
  · unfold famSum
    congr 1
    apply List.map_congr_left
    intro p hp
    have key : ∀ l ∈ (locs [] p.2).filter (fun l => l.node.tx == d),
        (search a l).1.isNone = !(p.2.tx.isSuffixOf a) := by
      intro l hl
      obtain ⟨hl1, hl2⟩ := List.mem_filter.mp hl
      have hlt : l.node.tx = d := by simpa using hl2
      have hal : l ∈ H.allLocs := mem_allLocs.mpr (Or.inl ⟨p, hp, hl1⟩)
      have hy := (gained_iff_young H hw a l hal (by rw [hlt]; exact had) (by rw [hlt]; exact hne)).2
      rw [rootTx_of_family H hw p hp l hl1] at hy
      cases hs : p.2.tx.isSuffixOf a with
      | true =>
        have : p.2.tx <:+ a := List.isSuffixOf_iff_suffix.mp hs
        have hnn : ¬ (search a l).1 = none := fun h => (hy.mp h) this
        cases hsr : (search a l).1 with
        | none => exact absurd hsr hnn
        | some _ => rfl
      | false =>
        have : ¬ p.2.tx <:+ a := fun h => by
          have := List.isSuffixOf_iff_suffix.mpr h
          rw [hs] at this
          cases this
        rw [hy.mpr this]
        rfl
    cases hs : p.2.tx.isSuffixOf a with
    | true =>
      simp only [hs, if_true]
      rw [List.length_eq_zero_iff, List.filter_eq_nil_iff]
      intro l hl
      rw [key l hl, hs]
      simp
    | false =>
      simp only [hs, Bool.false_eq_true, if_false]
      congr 1
      rw [List.filter_eq_self]
      intro l hl
      rw [key l hl, hs]
      rfl
  · congr 1
    rw [List.filter_eq_self]
    intro g _
    simp [search, searchUp]

/-! ### ... and on the histories -/

theorem nodes_filter_internal (n : Node) (d : Taxon) (h : ∀ x ∈ n.nodes, x.isGene = true → x.tx ≠ d) :
    (n.nodes.filter fun x => x.tx == d).length = (n.hogs.filter fun x => x.tx == d).length := by
  rw [hogs_eq_nodes_filter, List.filter_filter]
  congr 1
  apply List.filter_congr
  intro x hx
  cases hg : x.isGene with
  | false => simp
  | true =>
    have := h x hx hg
    simp [this]

/-- **the number of gained genes over any branch, on the histories**: for every consistent dataset and every ancestral node
    `d` below `a`, the comparison `a → d` reports as many gained genes as the histories of the families that start strictly
    below `a` have lineages crossing `d` -/
theorem C06_gained_count_is_the_history (D : Dataset) (hc : D.Consistent) :
    ∃ H, load D.T D.nm D.file = .ok H ∧ ∀ a d, a <:+ d → a ≠ d → D.T.isInternalAt d = true →
      (hogsMap H a d).gain.length =
        (D.fams.map fun f => if f.1.isSuffixOf a then 0 else lineagesAt d f.1 f.2).sum := by
  obtain ⟨H, hload, hlen, hreal, hwc, _, _⟩ := loaded_consistent D hc
  obtain ⟨H1, hload1, hwf, _, _⟩ := loaded_consistent_wf D hc
  have e1 : H1 = H := by rw [hload] at hload1; cases hload1; rfl
  rw [e1] at hwf
  have htree : H.tree = D.T := by
    have := hload
    simp only [load, buildHam, bind, Except.bind] at this
    split at this
    · cases this
    · split at this
      · cases this
      · split at this
        · cases this
        · cases this; rfl
  refine ⟨H, hload, ?_⟩
  intro a d had hne hint
  rw [C06_gained_count H hwc a d had hne]
  -- no singleton lives at an internal node
  have hsing : (singletonsAt H d).length = 0 := by
    have hwf' := hwf
    simp only [Ham.wf, Bool.and_eq_true, List.all_eq_true] at hwf'
    unfold singletonsAt
    rw [List.length_eq_zero_iff, List.filter_eq_nil_iff]
    intro g hg' hgt
    simp only [Ham.singletons, List.mem_map, List.mem_filter] at hg'
    obtain ⟨g0, ⟨hg0, _⟩, rfl⟩ := hg'
    have hleaf := hwf'.2 g0 hg0
    simp only [Node.tx, beq_iff_eq] at hgt
    rw [hgt, htree] at hleaf
    exact leaf_not_internal _ _ hleaf hint
  rw [hsing, Nat.add_zero]
  unfold famSum
  congr 1
  apply map_eq_of_index _ _ _ _ hlen
  intro i h1 h2
  obtain ⟨_, hr⟩ := hreal i h1 h2
  have hfam := hc.fams_ok (D.fams[i]) (List.getElem_mem h2)
  show (if ((H.tops[i]).2.tx.isSuffixOf a) = true then 0 else ((locs [] (H.tops[i]).2).filter fun l => l.node.tx == d).length) = _
  rw [realises_tx _ _ _ hr]
  cases hsf : (D.fams[i]).1.isSuffixOf a with
  | true => simp
  | false =>
    simp only [Bool.false_eq_true, if_false]
    have hshape := realises_shape D.T _ _ _ hfam.2.1 hr
    have hn := locs_nodes (H.tops[i]).2 []
    have : ((locs [] (H.tops[i]).2).filter fun l => l.node.tx == d).length =
        ((H.tops[i]).2.nodes.filter fun x => x.tx == d).length := by
      rw [← hn, List.filter_map, List.length_map]
      rfl
    rw [this, nodes_filter_internal _ d (fun x hx hg he => by
      have hl := (hshape x hx).1 hg
      rw [he] at hl
      exact leaf_not_internal _ _ hl hint)]
    exact realises_lineage_count d _ _ _ hr

end Pyham
