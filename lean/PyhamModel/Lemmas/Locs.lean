/-
  Structure of `locs`: located nodes of a subtree, their ancestor lists, decomposition at an
  ancestor, inheritance of the well-formedness predicates.
-/
import PyhamModel.Lemmas.Search
namespace Pyham

theorem mem_locs_hog {info : HogInfo} {t : Taxon} {d : Option Nat} {ks : List Node} {ds : List DupRec}
    {anc : List Node} {l : Loc} :
    l ∈ locs anc (.hog info t d ks ds) ↔
      l = ⟨.hog info t d ks ds, anc⟩ ∨ l ∈ locsL (.hog info t d ks ds :: anc) ks := by
  simp [locs]

theorem mem_locsL {anc : List Node} {l : Loc} : {ks : List Node} →
    (l ∈ locsL anc ks ↔ ∃ k ∈ ks, l ∈ locs anc k)
  | [] => by simp [locsL]
  | k :: ks => by
    simp only [locsL, List.mem_append, List.mem_cons, exists_eq_or_imp, mem_locsL (ks := ks)]

theorem self_mem_locs (anc : List Node) : (n : Node) → ⟨n, anc⟩ ∈ locs anc n
  | .gene .. => by simp [locs]
  | .hog .. => by simp [locs]

/-- the ancestor list of a located node ends with the ancestor list we started from -/
theorem locs_anc_suffix : (n : Node) → (anc : List Node) → ∀ l ∈ locs anc n, anc <:+ l.anc
  | .gene i t d lo, anc => by
    intro l hl
    simp [locs] at hl; subst hl; exact List.suffix_refl _
  | .hog info t d ks ds, anc => by
    intro l hl
    rcases mem_locs_hog.mp hl with rfl | hl
    · exact List.suffix_refl _
    · obtain ⟨k, hk, hl⟩ := mem_locsL.mp hl
      have := locs_anc_suffix k (.hog info t d ks ds :: anc) l hl
      exact (List.suffix_cons _ _).trans this
termination_by n => sizeOf n
decreasing_by
  have := List.sizeOf_lt_of_mem hk
  simp +arith
  omega

/-- proper descendants carry the node itself in their ancestor list -/
theorem locs_anc_cases : (n : Node) → (anc : List Node) → ∀ l ∈ locs anc n,
    l = ⟨n, anc⟩ ∨ (n :: anc) <:+ l.anc
  | .gene i t d lo, anc => by
    intro l hl
    simp [locs] at hl; left; exact hl
  | .hog info t d ks ds, anc => by
    intro l hl
    rcases mem_locs_hog.mp hl with rfl | hl
    · left; rfl
    · right
      obtain ⟨k, _, hl⟩ := mem_locsL.mp hl
      exact locs_anc_suffix k _ l hl

/-- decomposition at an ancestor: if `x` occurs in the ancestor list of `l` (above `post`), then `x`
    is itself located in the subtree with ancestors `post`, and `l` is located in the subtree of `x` -/
theorem locs_split : (n : Node) → (anc : List Node) → ∀ l ∈ locs anc n, ∀ pre x post,
    l.anc = pre ++ x :: post → anc.length ≤ post.length →
    (⟨x, post⟩ : Loc) ∈ locs anc n ∧ l ∈ locs post x
  | .gene i t d lo, anc => by
    intro l hl pre x post he hlen
    simp [locs] at hl; subst hl
    simp at he
    have := congrArg List.length he
    simp at this; omega
  | .hog info t d ks ds, anc => by
    intro l hl pre x post he hlen
    rcases mem_locs_hog.mp hl with rfl | hl'
    · simp at he
      have := congrArg List.length he
      simp at this; omega
    · obtain ⟨k, hk, hlk⟩ := mem_locsL.mp hl'
      by_cases hlen' : (Node.hog info t d ks ds :: anc).length ≤ post.length
      · have ih := locs_split k (.hog info t d ks ds :: anc) l hlk pre x post he hlen'
        refine ⟨?_, ih.2⟩
        exact mem_locs_hog.mpr (Or.inr (mem_locsL.mpr ⟨k, hk, ih.1⟩))
      · have hsuf := locs_anc_suffix k _ l hlk
        obtain ⟨q, hq⟩ := hsuf
        have hpl : post.length = anc.length := by simp at hlen'; omega
        -- l.anc = q ++ n :: anc = pre ++ x :: post with |post| = |anc|
        have h2 : q ++ Node.hog info t d ks ds :: anc = pre ++ x :: post := by rw [hq]; exact he
        have hl1 : q.length = pre.length := by
          have := congrArg List.length h2
          simp at this; omega
        have h3 := List.append_inj h2 hl1
        obtain ⟨_, h4⟩ := h3
        simp at h4
        obtain ⟨hx, hp⟩ := h4
        subst hx; subst hp
        exact ⟨self_mem_locs _ _, hl⟩
termination_by n => sizeOf n
decreasing_by
  have := List.sizeOf_lt_of_mem hk
  simp +arith
  omega

/-! ### sub-nodes inherit alignment and discipline -/

theorem alignedL_mem {t : Taxon} : {ks : List Node} → alignedL t ks = true → ∀ k ∈ ks, oneBelow t k = true ∧ k.aligned = true
  | [], _ => by simp
  | k :: ks, h => by
    simp only [alignedL, Bool.and_eq_true] at h
    intro k' hk'
    simp at hk'
    rcases hk' with rfl | hk'
    · exact ⟨h.1.1, h.1.2⟩
    · exact alignedL_mem h.2 k' hk'

theorem disciplinedL_mem : {ks : List Node} → disciplinedL ks = true → ∀ k ∈ ks, k.disciplined = true
  | [], _ => by simp
  | k :: ks, h => by
    simp only [disciplinedL, Bool.and_eq_true] at h
    intro k' hk'
    simp at hk'
    rcases hk' with rfl | hk'
    · exact h.1
    · exact disciplinedL_mem h.2 k' hk'

theorem locs_aligned : (n : Node) → (anc : List Node) → n.aligned = true → ∀ l ∈ locs anc n, l.node.aligned = true
  | .gene i t d lo, anc, _ => by
    intro l hl; simp [locs] at hl; subst hl; simp [Node.aligned]
  | .hog info t d ks ds, anc, ha => by
    intro l hl
    rcases mem_locs_hog.mp hl with rfl | hl
    · exact ha
    · obtain ⟨k, hk, hl⟩ := mem_locsL.mp hl
      have ha' : alignedL t ks = true := by simpa [Node.aligned] using ha
      exact locs_aligned k _ (alignedL_mem ha' k hk).2 l hl
termination_by n => sizeOf n
decreasing_by
  have := List.sizeOf_lt_of_mem hk
  simp +arith
  omega

theorem locs_disciplined : (n : Node) → (anc : List Node) → n.disciplined = true →
    ∀ l ∈ locs anc n, l.node.disciplined = true
  | .gene i t d lo, anc, _ => by
    intro l hl; simp [locs] at hl; subst hl; simp [Node.disciplined]
  | .hog info t d ks ds, anc, ha => by
    intro l hl
    rcases mem_locs_hog.mp hl with rfl | hl
    · exact ha
    · obtain ⟨k, hk, hl⟩ := mem_locsL.mp hl
      have ha' : disciplinedL ks = true := by
        simp only [Node.disciplined, Bool.and_eq_true] at ha; exact ha.2
      exact locs_disciplined k _ (disciplinedL_mem ha' k hk) l hl
termination_by n => sizeOf n
decreasing_by
  have := List.sizeOf_lt_of_mem hk
  simp +arith
  omega

/-- in an aligned subtree every located node lives at or below the root's taxon -/
theorem locs_tx_suffix : (n : Node) → (anc : List Node) → n.aligned = true →
    ∀ l ∈ locs anc n, n.tx <:+ l.node.tx
  | .gene i t d lo, anc, _ => by
    intro l hl; simp [locs] at hl; subst hl; exact List.suffix_refl _
  | .hog info t d ks ds, anc, ha => by
    intro l hl
    rcases mem_locs_hog.mp hl with rfl | hl
    · exact List.suffix_refl _
    · obtain ⟨k, hk, hl⟩ := mem_locsL.mp hl
      have ha' : alignedL t ks = true := by simpa [Node.aligned] using ha
      obtain ⟨hob, hka⟩ := alignedL_mem ha' k hk
      obtain ⟨i, hi⟩ := oneBelow_iff.mp hob
      have := locs_tx_suffix k _ hka l hl
      have h2 : t <:+ k.tx := by rw [hi]; exact List.suffix_cons _ _
      exact h2.trans this
termination_by n => sizeOf n
decreasing_by
  have := List.sizeOf_lt_of_mem hk
  simp +arith
  omega

end Pyham
