/-
  C17 "... repeated and interleaved, on one or on several analyses": two analyses alive at once, every call addressed to
  one of them, in any interleaving.
-/
import PyhamModel.Lemmas.SessionLemmas
namespace Pyham

/-- a session on two analyses: `(false, op)` calls the first, `(true, op)` the second -/
def run2 (s1 s2 : SState) : List (Bool × Op) → (SState × SState) × List Out
  | [] => ((s1, s2), [])
  | (false, op) :: r =>
    let q := step s1 op
    let rs := run2 q.1 s2 r
    (rs.1, q.2 :: rs.2)
  | (true, op) :: r =>
    let q := step s2 op
    let rs := run2 s1 q.1 r
    (rs.1, q.2 :: rs.2)

theorem run2_spec (H1 H2 : Ham) (ops : List (Bool × Op)) : ∀ (s1 s2 : SState), SInv H1 s1 → SInv H2 s2 →
    (run2 s1 s2 ops).2 = ops.map (fun p => answer (if p.1 then H2 else H1) p.2) ∧
    SInv H1 (run2 s1 s2 ops).1.1 ∧ SInv H2 (run2 s1 s2 ops).1.2 := by
  induction ops with
  | nil => intro s1 s2 i1 i2; exact ⟨rfl, i1, i2⟩
  | cons p ops ih =>
    intro s1 s2 i1 i2
    obtain ⟨b, op⟩ := p
    cases b with
    | false =>
      have h1 := step_spec H1 s1 i1 op
      have h2 := ih (step s1 op).1 s2 h1.2 i2
      simp only [run2, List.map_cons]
      exact ⟨by rw [h1.1, h2.1]; rfl, h2.2.1, h2.2.2⟩
    | true =>
      have h1 := step_spec H2 s2 i2 op
      have h2 := ih s1 (step s2 op).1 i1 h1.2
      simp only [run2, List.map_cons]
      exact ⟨by rw [h1.1, h2.1]; rfl, h2.2.1, h2.2.2⟩

/-- **C17, several analyses**: whatever the interleaving of calls on two analyses (built from the same inputs or not), both
    are unchanged at the end and every call returned what the same call returns on a freshly loaded copy of the analysis
    it was addressed to -/
theorem C17_interleaved (H1 H2 : Ham) (ops : List (Bool × Op)) :
    (run2 (SState.init H1) (SState.init H2) ops).2 = ops.map (fun p => answer (if p.1 then H2 else H1) p.2) ∧
    (run2 (SState.init H1) (SState.init H2) ops).1.1.H = H1 ∧
    (run2 (SState.init H1) (SState.init H2) ops).1.2.H = H2 := by
  have h := run2_spec H1 H2 ops _ _ (SInv_init H1) (SInv_init H2)
  exact ⟨h.1, h.2.1.same, h.2.2.same⟩

end Pyham
