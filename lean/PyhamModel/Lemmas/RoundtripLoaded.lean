/-
  Every top-level HOG of a well-formed analysis (hence, by `HogFacts.sub`, every sub-HOG) satisfies
  the hypotheses of the round-trip theorem.
-/
import PyhamModel.Lemmas.Roundtrip
import PyhamModel.Lemmas.CapstoneWF
namespace Pyham

theorem sublist_flatMap_mem {α β} (f : α → List β) : (l : List α) → (a : α) → a ∈ l → (f a).Sublist (l.flatMap f)
  | [], _, h => by simp at h
  | x :: l, a, h => by
    simp only [List.flatMap_cons]
    rcases List.mem_cons.mp h with rfl | h
    · exact List.sublist_append_left _ _
    · exact (sublist_flatMap_mem f l a h).trans (List.sublist_append_right _ _)

theorem exportWF_of_wf (H : Ham) (hw : H.wf = true) (p : Option String × Node) (hp : p ∈ H.tops) :
    ExportWF H.tree p.2 := by
  have hwc := Ham.wf_WFc H hw
  simp only [Ham.wf, Bool.and_eq_true, List.all_eq_true, decide_eq_true_eq] at hw
  obtain ⟨⟨⟨h1, _⟩, _⟩, _⟩ := hw
  have ht := h1 p hp
  refine ⟨ht.1.1.1.1, ht.1.1.1.2, ht.1.1.2, ?_⟩
  -- the keys of the nodes of one family are a sublist of all keys
  have hk := hwc.keys
  unfold Ham.keys at hk
  have hsub : ((locs [] p.2).map fun l => l.node.key).Sublist (H.allLocs.map fun l => l.node.key) := by
    apply List.Sublist.map
    unfold Ham.allLocs
    refine List.Sublist.trans ?_ (List.sublist_append_left _ _)
    exact sublist_flatMap_mem (fun p => locs [] p.2) H.tops p hp
  have := hk.sublist hsub
  have e : ((locs [] p.2).map fun l => l.node.key) = (p.2.nodes.map Node.key) := by
    rw [← locs_nodes p.2 [], List.map_map]; rfl
  rw [e] at this
  exact this

end Pyham
