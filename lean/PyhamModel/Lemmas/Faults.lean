/-
  C20: dangling references and empty groups are rejected wherever they occur.
  The loader is a chain of `Except` binds that visits every element in document order, so whatever
  precedes a fault either already failed or reaches it.
-/
import PyhamModel.Model.Parser
namespace Pyham

mutual
/-- the element contains, at any depth, a geneRef to an undeclared gene, an empty orthologGroup or
    an empty paralogGroup -/
def Elem.faulty (declared : String → Bool) : Elem → Bool
  | .ref id _ => !declared id
  | .score _ _ => false
  | .prop _ _ => false
  | .og _ _ its => its.isEmpty || faultyL declared its
  | .pg _ its => its.isEmpty || faultyL declared its
def faultyL (declared : String → Bool) : List Elem → Bool
  | [] => false
  | e :: es => e.faulty declared || faultyL declared es
end

def Env.declared (env : Env) (id : String) : Bool := (env.lookupGene id).isSome

theorem inferLevel_nil (env : Env) (hb : HogBuild) (h : hb.kids = []) :
    inferLevel env hb = .error .value := by
  simp [inferLevel, h, dedup]

theorem closeOg_nil (env : Env) (top : Bool) (hb : HogBuild) (ps : PS) (h : hb.kids = []) :
    ∃ err, closeOg env top hb ps = .error err := by
  refine ⟨.value, ?_⟩
  simp [closeOg, inferLevel_nil env hb h, bind, Except.bind]

theorem pgClose_aux (kids : List Node) (len did size : Nat) (ps : PS)
    (hs : ∀ b, ps.getDup did = some b → b.members.length = size) :
    ∃ err, pgClose kids { ps with pstack := { depth := len, did := did, size := size } :: ps.pstack, inPG := some len, cur := some did } = .error err := by
  cases h : ps.getDup did with
  | none =>
    refine ⟨.unmodelled, ?_⟩
    have h' : List.find? (fun x => x.did == did) ps.dstore = none := h
    simp [pgClose, PS.getDup, h']
  | some b =>
    refine ⟨.value, ?_⟩
    have h' : List.find? (fun x => x.did == did) ps.dstore = some b := h
    simp [pgClose, PS.getDup, h', hs b h, bind, Except.bind]

theorem pgClose_pgOpen (kids : List Node) (len : Nat) (pgid : Option String) (ps : PS) :
    ∃ err, pgClose kids (pgOpen len pgid ps) = .error err := by
  unfold pgOpen
  apply pgClose_aux
  intro b hb
  rw [hb]

theorem bind_err_left {α β} (x : Except Err α) (f : α → Except Err β) (h : ∃ e, x = .error e) :
    ∃ e, bind x f = .error e := by
  obtain ⟨e, he⟩ := h
  exact ⟨e, by rw [he]; rfl⟩

theorem bind_err_right {α β} (x : Except Err α) (f : α → Except Err β)
    (h : ∀ a, x = .ok a → ∃ e, f a = .error e) : ∃ e, bind x f = .error e := by
  cases hx : x with
  | error e => exact ⟨e, rfl⟩
  | ok a => exact h a hx

theorem elems_nil (env : Env) (len : Nat) (hb : HogBuild) (ps : PS) :
    elems env len [] hb ps = .ok (hb, ps) := by
  simp [elems]

mutual
theorem elem_ff (env : Env) : (len : Nat) → (e : Elem) → (hb : HogBuild) → (ps : PS) →
    e.faulty env.declared = true → ∃ err, elem env len e hb ps = .error err
  | len, .ref id loft, hb, ps, h => by
    simp only [Elem.faulty, Env.declared] at h
    cases hl : env.lookupGene id with
    | none => exact ⟨.key, by simp [elem, hl]⟩
    | some t => simp [hl] at h
  | len, .score _ _, hb, ps, h => by simp [Elem.faulty] at h
  | len, .prop _ _, hb, ps, h => by simp [Elem.faulty] at h
  | len, .pg pgid its, hb, ps, h => by
    simp only [Elem.faulty, Bool.or_eq_true] at h
    rcases h with h | h
    · have : its = [] := by simpa using h
      subst this
      obtain ⟨err, he⟩ := pgClose_pgOpen hb.kids len pgid ps
      exact ⟨err, by simp [elem, elems_nil, bind, Except.bind, he]⟩
    · obtain ⟨err, he⟩ := elems_ff env len its hb (pgOpen len pgid ps) h
      exact ⟨err, by simp [elem, bind, Except.bind, he]⟩
  | len, .og hid og its, hb, ps, h => by
    simp only [Elem.faulty, Bool.or_eq_true] at h
    simp only [elem]
    rcases h with h | h
    · have : its = [] := by simpa using h
      subst this
      simp only [elems_nil]
      apply bind_err_right
      intro a ha
      cases ha
      apply bind_err_left
      exact closeOg_nil env false _ _ rfl
    · apply bind_err_left
      exact elems_ff env (len+1) its _ _ h
theorem elems_ff (env : Env) : (len : Nat) → (es : List Elem) → (hb : HogBuild) → (ps : PS) →
    faultyL env.declared es = true → ∃ err, elems env len es hb ps = .error err
  | len, [], hb, ps, h => by simp [faultyL] at h
  | len, e :: es, hb, ps, h => by
    simp only [faultyL, Bool.or_eq_true] at h
    simp only [elems, bind, Except.bind]
    cases hr : elem env len e hb ps with
    | error err => exact ⟨err, rfl⟩
    | ok r =>
      rcases h with h | h
      · obtain ⟨err, he⟩ := elem_ff env len e hb ps h
        rw [he] at hr; cases hr
      · exact elems_ff env len es r.1 r.2 h
end

/-- a faulty element inside an open group makes the load fail -/
theorem elem_faulty_fails (env : Env) (len : Nat) (e : Elem) (hb : HogBuild) (ps : PS)
    (h : e.faulty env.declared = true) : ∃ err, elem env len e hb ps = .error err :=
  elem_ff env len e hb ps h

theorem elems_faulty_fails (env : Env) (len : Nat) (es : List Elem) (hb : HogBuild) (ps : PS)
    (h : faultyL env.declared es = true) : ∃ err, elems env len es hb ps = .error err :=
  elems_ff env len es hb ps h

theorem topElems_nil (env : Env) (flt : HogFilter) (tops : List Node) (ps : PS) :
    topElems env flt [] tops ps = .ok (tops, ps) := by
  simp [topElems]

mutual
theorem topElem_ff (env : Env) : (e : Elem) → (tops : List Node) → (ps : PS) →
    e.faulty env.declared = true → ∃ err, topElem env none e tops ps = .error err
  | .ref id loft, tops, ps, h => by
    simp only [topElem]
    split <;> exact ⟨_, rfl⟩
  | .score _ _, tops, ps, h => by simp [Elem.faulty] at h
  | .prop _ _, tops, ps, h => by simp [Elem.faulty] at h
  | .pg pgid its, tops, ps, h => by
    simp only [Elem.faulty, Bool.or_eq_true] at h
    simp only [topElem]
    rcases h with h | h
    · have : its = [] := by simpa using h
      subst this
      simp only [topElems_nil]
      apply bind_err_right
      intro a ha
      cases ha
      apply bind_err_left
      exact pgClose_pgOpen _ _ _ _
    · apply bind_err_left
      exact topElems_ff env its _ _ h
  | .og hid og its, tops, ps, h => by
    simp only [Elem.faulty, Bool.or_eq_true] at h
    simp only [topElem]
    apply bind_err_right
    intro a ha
    cases ha
    simp only [Bool.not_true, Bool.false_eq_true, if_false]
    rcases h with h | h
    · have : its = [] := by simpa using h
      subst this
      simp only [elems_nil]
      apply bind_err_right
      intro a ha
      cases ha
      apply bind_err_left
      exact closeOg_nil env true _ _ rfl
    · apply bind_err_left
      exact elems_ff env 1 its _ _ h
theorem topElems_ff (env : Env) : (es : List Elem) → (tops : List Node) → (ps : PS) →
    faultyL env.declared es = true → ∃ err, topElems env none es tops ps = .error err
  | [], tops, ps, h => by simp [faultyL] at h
  | e :: es, tops, ps, h => by
    simp only [faultyL, Bool.or_eq_true] at h
    simp only [topElems]
    rcases h with h | h
    · apply bind_err_left
      exact topElem_ff env e tops ps h
    · apply bind_err_right
      intro r _
      exact topElems_ff env es r.1 r.2 h
end

/-- the same at the top of <groups>, for an unfiltered load -/
theorem topElems_faulty_fails (env : Env) (es : List Elem) (tops : List Node) (ps : PS)
    (h : faultyL env.declared es = true) : ∃ err, topElems env none es tops ps = .error err :=
  topElems_ff env es tops ps h

/-- a species element that does not resolve to a leaf makes the load fail, wherever it stands -/
theorem declareSpecies_fails (T : STree) (nm : Naming) (keep : String → Bool) (sp : List Species)
    (acc : List GeneRec) (s : Species) (hs : s ∈ sp) (e : Err) (h : resolveSpecies T nm s.name = .error e) :
    ∃ err, declareSpecies T nm keep sp acc = .error err := by
  induction sp generalizing acc with
  | nil => simp at hs
  | cons s' ss ih =>
    simp only [declareSpecies]
    rcases List.mem_cons.mp hs with hs | hs
    · subst hs
      apply bind_err_left
      exact ⟨e, h⟩
    · apply bind_err_right
      intro a _
      exact ih _ hs

/-- unknown species: KeyError; internal node named as a species: TypeError -/
theorem resolveSpecies_unknown (T : STree) (nm : Naming) (s : String) (h : T.findByName nm s = []) :
    resolveSpecies T nm s = .error .key := by
  simp [resolveSpecies, h]
theorem resolveSpecies_internal (T : STree) (nm : Naming) (s : String) (p : Taxon)
    (h : T.findByName nm s = [p]) (hi : T.isLeafAt p = false) :
    resolveSpecies T nm s = .error .type := by
  simp [resolveSpecies, h, hi]

/-- C20 for the species faults -/
theorem C20_species_fault_rejected (T : STree) (nm : Naming) (inp : Input) (s : Species)
    (hs : s ∈ inp.species) (e : Err) (h : resolveSpecies T nm s.name = .error e) :
    ∃ err, load T nm inp = .error err := by
  simp only [load, buildHam]
  apply bind_err_left
  exact declareSpecies_fails T nm _ inp.species [] s hs e h

/-- the genes the loader knows are exactly the declared ones -/
theorem declareSpecies_ids (T : STree) (nm : Naming) (sp : List Species) (acc genes : List GeneRec)
    (h : declareSpecies T nm (fun _ => true) sp acc = .ok genes) :
    genes.map (·.id) = acc.map (·.id) ++ sp.flatMap (fun s => s.genes.map (·.id)) := by
  induction sp generalizing acc with
  | nil =>
    simp only [declareSpecies] at h
    cases h
    simp
  | cons s ss ih =>
    simp only [declareSpecies] at h
    cases hr : resolveSpecies T nm s.name with
    | error e => rw [hr] at h; cases h
    | ok p =>
      rw [hr] at h
      have := ih _ h
      rw [this]
      have hf : List.filter (fun _ : GeneDecl => true) s.genes = s.genes :=
        List.filter_eq_self.mpr (fun _ _ => rfl)
      simp [List.map_append, List.flatMap_cons, Function.comp_def, hf]

theorem lookup_isSome_eq (l : List GeneRec) (id : String) :
    ((l.map fun g => (g.id, g.tx)).lookup id).isSome = (l.map (·.id)).contains id := by
  induction l with
  | nil => simp
  | cons g gs ih =>
    simp only [List.map_cons, List.lookup_cons, List.contains_cons]
    cases hg : id == g.id with
    | true => simp
    | false => simpa using ih

/-- C20 for dangling gene references and empty groups: if any group of the file contains, at any
    depth, a reference to a gene that no species declares, an empty orthologGroup or an empty
    paralogGroup, the load raises -/
theorem C20_group_fault_rejected (T : STree) (nm : Naming) (inp : Input)
    (h : faultyL (fun id => (inp.species.flatMap (fun s => s.genes.map (·.id))).contains id) inp.groups = true) :
    ∃ err, load T nm inp = .error err := by
  simp only [load, buildHam]
  apply bind_err_right
  intro genes hg
  apply bind_err_left
  apply topElems_ff
  have hid := declareSpecies_ids T nm inp.species [] genes hg
  have : Env.declared { T := T, nm := nm, geneTx := genes.reverse.map fun g => (g.id, g.tx) } =
      (fun id => (inp.species.flatMap (fun s => s.genes.map (·.id))).contains id) := by
    funext id
    simp only [Env.declared, Env.lookupGene]
    rw [lookup_isSome_eq, Bool.eq_iff_iff]
    simp only [List.contains_iff_mem, List.map_reverse, List.mem_reverse, hid, List.map_nil, List.nil_append]
  rw [this]
  exact h

end Pyham
