/-
  C06 (what retained / duplicated / lost / gained mean) and C07 (comparisons compose along a
  lineage) for the members of a well-formed analysis.
-/
import PyhamModel.Lemmas.Partition
namespace Pyham

theorem allLocs_chain {H : Ham} (hw : H.WFc) {l : Loc} (hl : l ∈ H.allLocs) : Chain l.node.tx l.anc := by
  rcases mem_allLocs.mp hl with ⟨p, hp, hlp⟩ | ⟨g, _, rfl⟩
  · exact chain_locs p.2 [] (hw.aligned p hp) trivial l hlp
  · trivial

/-- on a chain at most one ancestor lives at a given taxon -/
theorem chain_unique_at (t : Taxon) (L : List Node) (hc : Chain t L) (a : Taxon) (x y : Node)
    (hx : x ∈ L) (hy : y ∈ L) (hxa : x.tx = a) (hya : y.tx = a) : x = y := by
  obtain ⟨i, hi, rfl⟩ := List.getElem_of_mem hx
  obtain ⟨j, hj, rfl⟩ := List.getElem_of_mem hy
  have := chain_tx_inj t L hc i j hi hj (hxa.trans hya.symm)
  subst this; rfl

/-- **C06**: a member `r` of the descendant genome is reported under ancestor `x` with flag `f` iff
    `x` is the (unique) ancestor of `r` living in the ancestral genome, and `f` says whether `r` or
    any HOG strictly between the two arose by duplication -/
theorem C06_reported_under (H : Ham) (hw : H.WFc) (a : Taxon) (r : Loc) (hr : r ∈ H.allLocs)
    (x : Node) (f : Bool) :
    search a r = (some x, f) ↔
      ∃ pre post, r.anc = pre ++ x :: post ∧ x.tx = a ∧
        (∀ y ∈ r.anc, y.tx = a → y = x) ∧ f = (flagged r.node || pre.any flagged) := by
  have hc := allLocs_chain hw hr
  constructor
  · intro hs
    unfold search at hs
    rcases searchUp_spec a r.anc r.node.dup.isSome with ⟨pre, x', post, hL, _, hx, hs'⟩ | ⟨_, hs'⟩
    · rw [hs'] at hs
      simp only [Prod.mk.injEq, Option.some.injEq] at hs
      obtain ⟨rfl, hf⟩ := hs
      refine ⟨pre, post, hL, hx, ?_, hf.symm⟩
      intro y hy hya
      exact chain_unique_at _ _ hc a y x' hy (by simp [hL]) hya hx
    · rw [hs'] at hs; simp at hs
  · rintro ⟨pre, post, hL, hx, huniq, hf⟩
    unfold search
    have hpre : ∀ y ∈ pre, y.tx ≠ a := by
      intro y hy hya
      have hyx := huniq y (by simp [hL, hy]) hya
      -- y = x would put x at two positions of the chain
      obtain ⟨i, hi, hiy⟩ := List.getElem_of_mem hy
      have h1 : i < r.anc.length := by simp [hL]; omega
      have h2 : pre.length < r.anc.length := by simp [hL]
      have e1 : r.anc[i] = y := by simp [hL, List.getElem_append_left hi, hiy]
      have e2 : r.anc[pre.length] = x := by simp [hL]
      have := chain_tx_inj _ _ hc i pre.length h1 h2 (by rw [e1, e2, hyx])
      omega
    rw [hL, searchUp_hit a pre post x _ hpre hx, hf]; rfl

/-- **C06**: gained iff none of its ancestors in its family lives in the ancestral genome -/
theorem C06_gained_iff (H : Ham) (a d : Taxon) (n : Node) :
    n ∈ (hogsMap H a d).gain ↔ ∃ r ∈ H.nodesAt d, r.node = n ∧ ∀ y ∈ r.anc, y.tx ≠ a := by
  rw [(hogsMap_clusters H a d).1, clusters_gain]
  simp only [List.mem_filterMap, upOf, List.mem_map]
  constructor
  · rintro ⟨e, ⟨r, hr, rfl⟩, he⟩
    simp only at he
    split at he
    · rename_i hnone
      simp only [Option.some.injEq] at he
      exact ⟨r, hr, he, (search_none_iff a r).mp (by simpa using hnone)⟩
    · simp at he
  · rintro ⟨r, hr, rfl, hn⟩
    refine ⟨_, ⟨r, hr, rfl⟩, ?_⟩
    have := (search_none_iff a r).mpr hn
    simp [this]

/-- **C06**: an ancestral gene is lost iff no member of the descendant genome descends from it -/
theorem C06_lost_iff (H : Ham) (hw : H.WFc) (a d : Taxon) (x : Loc) (hx : x ∈ H.nodesAt a) :
    x.node ∈ (hogsMap H a d).loss ↔ ∀ r ∈ H.nodesAt d, ∀ y ∈ r.anc, y.key ≠ x.node.key := by
  rw [(hogsMap_clusters H a d).2.2.2.1]
  simp only [List.mem_filter, List.mem_map, Bool.not_eq_true', List.contains_eq_mem, decide_eq_false_iff_not,
    clusters_seen, List.mem_filterMap, upOf, Option.map_eq_some_iff, not_exists, not_and]
  have hxa : x.node.tx = a := by
    simp only [Ham.nodesAt, List.mem_filter, beq_iff_eq] at hx; exact hx.2
  constructor
  · rintro ⟨_, hns⟩ r hr y hy hk
    -- y is an ancestor of r with the key of x, hence located, hence equal to x, hence at taxon a
    have hrl : r ∈ H.allLocs := by simp only [Ham.nodesAt, List.mem_filter] at hr; exact hr.1
    obtain ⟨pre, post, hL⟩ := List.append_of_mem hy
    have hyl : (⟨y, post⟩ : Loc) ∈ H.allLocs := by
      rcases mem_allLocs.mp hrl with ⟨p, hp, hlp⟩ | ⟨g, _, rfl⟩
      · exact mem_allLocs.mpr (Or.inl ⟨p, hp, (locs_split p.2 [] r hlp pre y post hL (by simp)).1⟩)
      · simp at hy
    have hxl : x ∈ H.allLocs := by simp only [Ham.nodesAt, List.mem_filter] at hx; exact hx.1
    have := key_inj hw hyl hxl hk
    have hya : y.tx = a := by rw [← hxa, ← this]
    -- so the search from r finds y
    have hc := allLocs_chain hw hrl
    have hs : search a r = (some y, flagged r.node || pre.any flagged) :=
      (C06_reported_under H hw a r hrl y _).mpr ⟨pre, post, hL, hya,
        fun z hz hza => chain_unique_at _ _ hc a z y hz hy hza hya, rfl⟩
    exact hns (r.node, (search a r).1, (search a r).2) ⟨r, hr, rfl⟩ y (by rw [hs]) hk
  · intro h
    refine ⟨⟨x, hx, rfl⟩, ?_⟩
    rintro e ⟨r, hr, rfl⟩ y hs hk
    simp only at hs
    have hrl : r ∈ H.allLocs := by simp only [Ham.nodesAt, List.mem_filter] at hr; exact hr.1
    obtain ⟨pre, post, hL, _⟩ := (C06_reported_under H hw a r hrl y (search a r).2).mp (Prod.ext hs rfl)
    exact h r hr y (by simp [hL]) hk

/-- **C06**: the number of duplication events equals the sum over duplicated ancestors of (copies - 1) -/
theorem C06_number_duplications (H : Ham) (a d : Taxon) :
    (hogsMap H a d).ndup = ((hogsMap H a d).dupl.map fun e => e.2.length - 1).sum := by
  simp [hogsMap, countDup]

/-- **C07**: comparisons compose along a lineage.  For genomes `a` above `b` above `c` and a member
    `r` of `c`: if `r` is reported under `y` of `b` (with flag `g`), then what `r` is reported under in
    `a` is what `y` is reported under in `a`, flags composing by "or"; if `r` has no ancestor in `b`
    it has none in `a` either. -/
theorem C07_compose (H : Ham) (hw : H.WFc) (a b : Taxon) (hab : a <:+ b) (hne : a ≠ b)
    (r : Loc) (hr : r ∈ H.allLocs) (hbr : b <:+ r.node.tx) (hbne : b ≠ r.node.tx) :
    (∀ y g, search b r = (some y, g) →
        ∃ post, (⟨y, post⟩ : Loc) ∈ H.nodesAt b ∧
          search a r = ((search a ⟨y, post⟩).1, g || (search a ⟨y, post⟩).2)) ∧
    (∀ g, search b r = (none, g) → (search a r).1 = none) := by
  have hc := allLocs_chain hw hr
  have hlen : a.length < b.length := by
    have := hab.length_le
    rcases Nat.lt_or_ge a.length b.length with h | h
    · exact h
    · exact absurd (List.IsSuffix.eq_of_length hab (by omega)) hne
  -- every ancestor at position i sits at r.tx.drop (i+1)
  have htx := chain_tx_drop _ _ hc
  constructor
  · intro y g hs
    obtain ⟨pre, post, hL, hyb, _, hg⟩ := (C06_reported_under H hw b r hr y g).mp hs
    have hyl : (⟨y, post⟩ : Loc) ∈ H.allLocs := by
      rcases mem_allLocs.mp hr with ⟨p, hp, hlp⟩ | ⟨g', _, rfl⟩
      · exact mem_allLocs.mpr (Or.inl ⟨p, hp, (locs_split p.2 [] r hlp pre y post hL (by simp)).1⟩)
      · simp at hL
    refine ⟨post, by simp [Ham.nodesAt, hyl, hyb], ?_⟩
    -- nothing at or below y sits at level a
    have low : ∀ z ∈ pre ++ [y], z.tx ≠ a := by
      intro z hz hza
      obtain ⟨i, hi, hiz⟩ := List.getElem_of_mem hz
      have hi' : i < r.anc.length := by simp [hL]; simp at hi; omega
      have e : r.anc[i] = z := by
        have : r.anc = (pre ++ [y]) ++ post := by simp [hL]
        simp only [this, List.getElem_append_left hi, hiz]
      have h1 := htx i hi'
      rw [e, hza] at h1
      have hp : pre.length < r.anc.length := by simp [hL]
      have h2 := htx pre.length hp
      have e2 : r.anc[pre.length] = y := by simp [hL]
      rw [e2, hyb] at h2
      have l1 := congrArg List.length h1
      have l2 := congrArg List.length h2
      simp at l1 l2 hi
      omega
    unfold search
    rw [hL, searchUp_compose a pre post y _ (fun z hz => low z (by simp [hz])) (low y (by simp)), hg]
    rfl
  · intro g hs
    rw [search_none_iff]
    have hnb := (search_none_iff b r).mp (by rw [hs])
    intro z hz hza
    -- an ancestor at level a would force one at level b below it
    obtain ⟨i, hi, hiz⟩ := List.getElem_of_mem hz
    have h1 := htx i hi
    rw [hiz, hza] at h1
    have l1 := congrArg List.length h1
    simp at l1
    have hbl : b.length < r.node.tx.length := by
      have := hbr.length_le
      rcases Nat.lt_or_ge b.length r.node.tx.length with h | h
      · exact h
      · exact absurd (List.IsSuffix.eq_of_length hbr (by omega)) hbne
    -- position of level b
    have hj : r.node.tx.length - b.length - 1 < r.anc.length := by omega
    have h2 := htx (r.node.tx.length - b.length - 1) hj
    have : r.node.tx.drop (r.node.tx.length - b.length - 1 + 1) = b := by
      obtain ⟨q, hq⟩ := hbr
      have : r.node.tx.length - b.length - 1 + 1 = q.length := by
        have := congrArg List.length hq; simp at this; omega
      rw [this, ← hq]; simp
    rw [this] at h2
    exact hnb _ (List.getElem_mem hj) h2

end Pyham
