/-
  C17: analyses are read-only; results do not depend on call history; caches are never observable.
-/
import PyhamModel.Model.Session
import PyhamModel.Lemmas.Lateral
namespace Pyham

/-- the invariant of a session: every cache entry holds what the pure function returns -/
structure SInv (H : Ham) (s : SState) : Prop where
  same : s.H = H
  cache : ∀ e ∈ s.cache, vertical H e.1.1 e.1.2 = .ok e.2
  vis : ∀ e ∈ s.vis, ∃ n, findNode H e.1 = some n ∧ e.2 = ihamExport H n
  clust : ∀ e ∈ s.clust, e.2 = ancestralClustering H e.1

theorem SInv_init (H : Ham) : SInv H (SState.init H) := by
  constructor
  · rfl
  · intro e he; simp [SState.init] at he
  · intro e he; simp [SState.init] at he
  · intro e he; simp [SState.init] at he

/-- a cached map is returned exactly when the pure comparison would return it -/
theorem getHogMap_spec (H : Ham) (s : SState) (inv : SInv H s) (g1 g2 : Taxon) :
    (getHogMap s g1 g2).2 = vertical H g1 g2 ∧ SInv H (getHogMap s g1 g2).1 := by
  unfold getHogMap
  cases hf : s.cache.find? (fun e => e.1 == (g1, g2) || e.1 == (g2, g1)) with
  | some e =>
    simp only
    refine ⟨?_, inv⟩
    have hp := List.find?_some hf
    have hm := List.mem_of_find?_eq_some hf
    have hc := inv.cache e hm
    simp only [Bool.or_eq_true, beq_iff_eq] at hp
    rcases hp with hp | hp
    · rw [hp] at hc; exact hc.symm
    · rw [hp] at hc; simp only at hc; rw [C08_vertical_symm]; exact hc.symm
  | none =>
    simp only
    rw [inv.same]
    cases hv : vertical H g1 g2 with
    | error e => exact ⟨rfl, inv⟩
    | ok m =>
      refine ⟨rfl, ?_⟩
      constructor
      · rfl
      · intro e he
        simp only [List.mem_append, List.mem_singleton] at he
        rcases he with he | he
        · exact inv.cache e he
        · subst he; exact hv
      · exact inv.vis
      · exact inv.clust

/-- the feature of one branch from the (pure) vertical comparison -/
def featOf (H : Ham) (t : Taxon) : Except Err HMap → Feat
  | .ok m =>
    { tx := t, nbr := H.genomeSize t, dupl := some (m.dupl.map (·.2.length)).sum, lost := some m.loss.length,
      gain := some m.gain.length, retained := some m.retained.length, duplication := some m.ndup,
      nbrEvents := some (m.ndup + m.loss.length + m.gain.length) }
  | .error _ => { tx := t, nbr := H.genomeSize t }

/-- the full tree profile computed from the pure comparisons only -/
def profileFullPure (H : Ham) : List Taxon → List Feat
  | [] => []
  | t :: ts =>
    match t.up with
    | none => { tx := t, nbr := H.genomeSize t } :: profileFullPure H ts
    | some u => featOf H t (vertical H t u) :: profileFullPure H ts

theorem profileFullS_spec (H : Ham) (ts : List Taxon) : ∀ (s : SState), SInv H s →
    (profileFullS s ts).2 = profileFullPure H ts ∧ SInv H (profileFullS s ts).1 := by
  induction ts with
  | nil => intro s inv; exact ⟨rfl, inv⟩
  | cons t ts ih =>
    intro s inv
    unfold profileFullS profileFullPure
    cases hu : t.up with
    | none =>
      simp only
      have := ih s inv
      rw [this.1, inv.same]
      exact ⟨rfl, this.2⟩
    | some u =>
      simp only
      have hg := getHogMap_spec H s inv t u
      have := ih (getHogMap s t u).1 hg.2
      rw [this.1, hg.1, inv.same]
      refine ⟨?_, this.2⟩
      congr 1

theorem SInv_touched (H : Ham) (s : SState) (inv : SInv H s) (l : List Taxon) :
    SInv H { s with touched := l } :=
  ⟨inv.same, inv.cache, inv.vis, inv.clust⟩

/-- one call: the analysis is unchanged, the invariant is kept, and the result is what the same call
    returns on a freshly loaded analysis -/
theorem step_spec (H : Ham) (s : SState) (inv : SInv H s) (op : Op) :
    (step s op).2 = answer H op ∧ SInv H (step s op).1 := by
  have hs := inv.same
  cases op with
  | vertical g1 g2 =>
    have h1 := getHogMap_spec H s inv g1 g2
    have h2 := getHogMap_spec H _ (SInv_init H) g1 g2
    simp only [answer, step]
    exact ⟨by rw [h1.1, h2.1], h1.2⟩
  | lateral g1 g2 =>
    simp only [answer, step, hs, SState.init]
    cases lateral H g1 g2 with
    | error e => exact ⟨rfl, inv⟩
    | ok m =>
      refine ⟨rfl, ?_⟩
      have := SInv_touched H s inv (s.touched ++ [m.anc])
      simpa only [hs] using this
  | profileFull =>
    have h1 := profileFullS_spec H s.H.tree.allTaxa s inv
    have h2 := profileFullS_spec H H.tree.allTaxa _ (SInv_init H)
    simp only [answer, step]
    refine ⟨?_, SInv_touched H _ h1.2 _⟩
    rw [h1.1, hs]
    show _ = Out.feats (.ok (profileFullS (SState.init H) H.tree.allTaxa).2)
    rw [h2.1]
  | profileHog k =>
    simp only [answer, step, hs, SState.init]
    cases findNode H k <;> exact ⟨rfl, inv⟩
  | iham k =>
    have ha : answer H (.iham k) = match findNode H k with
        | some n => Out.export (.ok (ihamExport H n))
        | none => Out.export (.error .key) := by
      simp only [answer, step, SState.init, List.find?_nil]
      cases findNode H k <;> rfl
    rw [ha]
    simp only [step]
    cases hf : s.vis.find? (·.1 == k) with
    | some e =>
      simp only
      have hp := List.find?_some hf
      have hm := List.mem_of_find?_eq_some hf
      simp only [beq_iff_eq] at hp
      obtain ⟨n, hn, he⟩ := inv.vis e hm
      rw [hp] at hn
      rw [hn, he]
      exact ⟨rfl, inv⟩
    | none =>
      simp only [hs]
      cases hn : findNode H k with
      | none => exact ⟨rfl, inv⟩
      | some n =>
        refine ⟨rfl, ?_⟩
        constructor
        · rfl
        · exact inv.cache
        · intro e he
          simp only [List.mem_append, List.mem_singleton] at he
          rcases he with he | he
          · exact inv.vis e he
          · subst he; exact ⟨n, hn, rfl⟩
        · exact inv.clust
  | clustering t =>
    have ha : answer H (.clustering t) = Out.clust (ancestralClustering H t) := by
      simp only [answer, step, SState.init, List.find?_nil]
    rw [ha]
    simp only [step]
    cases hf : s.clust.find? (·.1 == t) with
    | some e =>
      simp only
      have hp := List.find?_some hf
      have hm := List.mem_of_find?_eq_some hf
      simp only [beq_iff_eq] at hp
      have he := inv.clust e hm
      rw [hp] at he
      rw [he]
      exact ⟨rfl, inv⟩
    | none =>
      simp only [hs]
      refine ⟨trivial, ?_⟩
      constructor
      · rfl
      · exact inv.cache
      · exact inv.vis
      · intro e he
        simp only [List.mem_append, List.mem_singleton] at he
        rcases he with he | he
        · exact inv.clust e he
        · subst he; rfl
  | geneById id =>
    simp only [answer, step, hs, SState.init]
    exact ⟨trivial, inv⟩
  | descGenes k =>
    simp only [answer, step, hs, SState.init]
    cases findNode H k <;> exact ⟨rfl, inv⟩

/-- generalised form of C17 over any state satisfying the invariant -/
theorem run_spec (H : Ham) (ops : List Op) : ∀ (s : SState), SInv H s →
    (run s ops).2 = ops.map (answer H) ∧ SInv H (run s ops).1 := by
  induction ops with
  | nil => intro s inv; exact ⟨rfl, inv⟩
  | cons op ops ih =>
    intro s inv
    have h1 := step_spec H s inv op
    have h2 := ih (step s op).1 h1.2
    simp only [run, List.map_cons]
    exact ⟨by rw [h1.1, h2.1], h2.2⟩

/-- **C17**: for every finite sequence of calls, the analysis (families, levels, duplications, gene
    content of every genome: all of `Ham`) is unchanged at the end, and every call returned what the
    same call returns on a freshly loaded analysis -/
theorem C17_history_independent (H : Ham) (ops : List Op) :
    (run (SState.init H) ops).1.H = H ∧ (run (SState.init H) ops).2 = ops.map (answer H) := by
  have h := run_spec H ops _ (SInv_init H)
  exact ⟨h.2.same, h.1⟩

/-- two interleaved sessions on analyses built from the same input do not influence each other
    (each is a function of its own state only) -/
theorem C17_two_sessions (H : Ham) (ops1 ops2 : List Op) :
    (run (SState.init H) ops1).2 = ops1.map (answer H) ∧ (run (SState.init H) ops2).2 = ops2.map (answer H) :=
  ⟨(C17_history_independent H ops1).2, (C17_history_independent H ops2).2⟩

end Pyham
