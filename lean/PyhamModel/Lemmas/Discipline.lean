/-
  Paralog discipline: two different members of one genome that descend from the same ancestral
  gene are both separated from it by a duplication.  This is what makes the RETAINED dictionary
  free of overwrites and RETAINED / DUPLICATE keys disjoint (C05).
-/
import PyhamModel.Lemmas.Locs
namespace Pyham

theorem filter_two_le {α} (p : α → Bool) : (l : List α) → (a b : α) → a ∈ l → b ∈ l → a ≠ b →
    p a = true → p b = true → 2 ≤ (l.filter p).length
  | [], _, _, h, _, _, _, _ => by simp at h
  | x :: l, a, b, ha, hb, hab, pa, pb => by
    simp only [List.mem_cons] at ha hb
    by_cases hx : p x = true
    · simp only [List.filter_cons, hx, if_true, List.length_cons]
      rcases ha with rfl | ha
      · rcases hb with rfl | hb
        · exact absurd rfl hab
        · have : b ∈ l.filter p := List.mem_filter.mpr ⟨hb, pb⟩
          have := List.length_pos_of_mem this
          omega
      · rcases hb with rfl | hb
        · have : a ∈ l.filter p := List.mem_filter.mpr ⟨ha, pa⟩
          have := List.length_pos_of_mem this
          omega
        · have := filter_two_le p l a b ha hb hab pa pb
          omega
    · have hxa : a ≠ x := fun h => hx (h ▸ pa)
      have hxb : b ≠ x := fun h => hx (h ▸ pb)
      simp only [List.filter_cons, hx]
      rcases ha with rfl | ha
      · exact absurd rfl hxa
      · rcases hb with rfl | hb
        · exact absurd rfl hxb
        · simpa using filter_two_le p l a b ha hb hab pa pb

/-- the flags met on the way from a located node up to (not including) the root `n` of the subtree
    it was located in: the node's own flag and the flags of `l.anc` before `anc` starts -/
def flagsTo (anc : List Node) (l : Loc) : Bool :=
  flagged l.node || (l.anc.take (l.anc.length - anc.length - 1)).any flagged

/-- two different located nodes of one aligned, disciplined subtree that live at the same taxon are
    both separated from the root of the subtree by a duplication -/
theorem two_at_same_taxon_flagged : (n : Node) → (anc : List Node) →
    n.aligned = true → n.disciplined = true →
    ∀ l1 ∈ locs anc n, ∀ l2 ∈ locs anc n, l1 ≠ l2 → l1.node.tx = l2.node.tx →
      flagsTo anc l1 = true ∧ flagsTo anc l2 = true
  | .gene i t d lo, anc, _, _ => by
    intro l1 h1 l2 h2 hne _
    simp [locs] at h1 h2
    exact absurd (h1.trans h2.symm) hne
  | .hog info t d ks ds, anc, ha, hd => by
    intro l1 h1 l2 h2 hne htx
    have ha' : alignedL t ks = true := by simpa [Node.aligned] using ha
    have hd' : ks.all (aloneIfUnflagged ks) = true ∧ disciplinedL ks = true := by
      simpa [Node.disciplined] using hd
    -- a proper descendant lives strictly below the root
    have below : ∀ l, l ∈ locsL (.hog info t d ks ds :: anc) ks → t.length < l.node.tx.length := by
      intro l hl
      obtain ⟨k, hk, hl⟩ := mem_locsL.mp hl
      obtain ⟨hob, hka⟩ := alignedL_mem ha' k hk
      obtain ⟨i, hi⟩ := oneBelow_iff.mp hob
      have := (locs_tx_suffix k _ hka l hl).length_le
      rw [hi] at this; simp at this; omega
    rcases mem_locs_hog.mp h1 with rfl | h1'
    · rcases mem_locs_hog.mp h2 with rfl | h2'
      · exact absurd rfl hne
      · have := below l2 h2'
        change t = l2.node.tx at htx
        rw [← htx] at this; omega
    · rcases mem_locs_hog.mp h2 with rfl | h2'
      · have := below l1 h1'
        change l1.node.tx = t at htx
        rw [htx] at this; omega
      · obtain ⟨k1, hk1, hl1⟩ := mem_locsL.mp h1'
        obtain ⟨k2, hk2, hl2⟩ := mem_locsL.mp h2'
        obtain ⟨hob1, hka1⟩ := alignedL_mem ha' k1 hk1
        obtain ⟨hob2, hka2⟩ := alignedL_mem ha' k2 hk2
        -- shape of the ancestor lists
        have sh1 : ∀ (k : Node), flagsTo anc ⟨k, .hog info t d ks ds :: anc⟩ = flagged k := by
          intro k; simp [flagsTo]
        have sh2 : ∀ (k : Node) (l : Loc), (k :: .hog info t d ks ds :: anc) <:+ l.anc →
            flagsTo anc l = (flagsTo (.hog info t d ks ds :: anc) l || flagged k) := by
          intro k l hsuf
          obtain ⟨q, hq⟩ := hsuf
          simp only [flagsTo, ← hq, List.length_append, List.length_cons]
          have e1 : q.length + (anc.length + 1 + 1) - anc.length - 1 = q.length + 1 := by omega
          have e2 : q.length + (anc.length + 1 + 1) - (anc.length + 1) - 1 = q.length := by omega
          rw [e1, e2]
          have t1 : (q ++ k :: Node.hog info t d ks ds :: anc).take (q.length + 1) = q ++ [k] := by
            rw [show q ++ k :: Node.hog info t d ks ds :: anc = (q ++ [k]) ++ (Node.hog info t d ks ds :: anc) by simp]
            exact List.take_left' (by simp)
          have t2 : (q ++ k :: Node.hog info t d ks ds :: anc).take q.length = q :=
            List.take_left' rfl
          rw [t1, t2]
          simp [Bool.or_assoc]
        have g : ∀ (k : Node) (l : Loc), l ∈ locs (.hog info t d ks ds :: anc) k → flagged k = true →
            flagsTo anc l = true := by
          intro k l hl fk
          rcases locs_anc_cases k _ l hl with rfl | hsuf
          · rw [sh1, fk]
          · rw [sh2 k l hsuf, fk]; simp
        have g' : ∀ (k : Node) (l : Loc), l ∈ locs (.hog info t d ks ds :: anc) k →
            flagsTo (.hog info t d ks ds :: anc) l = true → flagsTo anc l = true := by
          intro k l hl fk
          rcases locs_anc_cases k _ l hl with rfl | hsuf
          · simpa [flagsTo] using fk
          · rw [sh2 k l hsuf, fk]; simp
        by_cases hk : k1 = k2
        · subst hk
          have ih := two_at_same_taxon_flagged k1 (.hog info t d ks ds :: anc) hka1
            (disciplinedL_mem hd'.2 k1 hk1) l1 hl1 l2 hl2 hne htx
          exact ⟨g' k1 l1 hl1 ih.1, g' k1 l2 hl2 ih.2⟩
        · -- two different children at the same child taxon: neither can be unflagged
          have hs1 := locs_tx_suffix k1 _ hka1 l1 hl1
          have hs2 := locs_tx_suffix k2 _ hka2 l2 hl2
          obtain ⟨i1, hi1⟩ := oneBelow_iff.mp hob1
          obtain ⟨i2, hi2⟩ := oneBelow_iff.mp hob2
          have hlen : k1.tx.length = k2.tx.length := by rw [hi1, hi2]; simp
          have hkt : k1.tx = k2.tx := by
            rw [htx] at hs1
            rcases List.suffix_or_suffix_of_suffix hs1 hs2 with h | h
            · exact List.IsSuffix.eq_of_length h hlen
            · exact (List.IsSuffix.eq_of_length h hlen.symm).symm
          have two : 2 ≤ (ks.filter fun k' => k'.tx == k1.tx).length :=
            filter_two_le _ ks k1 k2 hk1 hk2 hk (by simp) (by simp [hkt])
          have f1 : flagged k1 = true := by
            have := List.all_eq_true.mp hd'.1 k1 hk1
            simp only [aloneIfUnflagged, Bool.or_eq_true] at this
            rcases this with h | h
            · exact h
            · simp at h; omega
          have f2 : flagged k2 = true := by
            have := List.all_eq_true.mp hd'.1 k2 hk2
            simp only [aloneIfUnflagged, Bool.or_eq_true] at this
            rcases this with h | h
            · exact h
            · simp at h; rw [← hkt] at h; omega
          exact ⟨g k1 l1 hl1 f1, g k2 l2 hl2 f2⟩
termination_by n => sizeOf n
decreasing_by
  have := List.sizeOf_lt_of_mem hk1
  simp +arith
  omega

end Pyham
