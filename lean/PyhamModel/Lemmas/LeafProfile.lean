/-
  C09 / C14, the species nodes: the whole-dataset tree profile entry of a LEAF is a function of the species sections and
  the histories (C09_profile_from_histories covers the ancestral nodes).  At a leaf the number of genes is the number of
  genes the species section declares, "gained" counts the declared genes that no family references (plus families that
  start there), "duplicated" / duplication events are those of the histories, and retained / lost follow from the two
  balance equations.
-/
import PyhamModel.Lemmas.HistoryProfile
import PyhamModel.Lemmas.HistoryInvariance
import PyhamModel.Lemmas.Spelling
namespace Pyham

def Dataset.declaredAt (D : Dataset) (t : Taxon) : List String := declaredAtL D.T D.nm t D.species

/-- declared genes of the species at `t` that no family of the dataset references -/
def Dataset.unreferencedAt (D : Dataset) (t : Taxon) : List String := unreferencedAtL D.T D.nm t D.species D.fams

theorem declareSpecies_at (T : STree) (nm : Naming) (t : Taxon) : (sp : List Species) → (acc genes : List GeneRec) →
    declareSpecies T nm (fun _ => true) sp acc = .ok genes →
    (genes.filter (·.tx == t)).map (·.id) = (acc.filter (·.tx == t)).map (·.id) ++ declaredAtL T nm t sp
  | [], acc, genes, h => by
    simp only [declareSpecies, Except.ok.injEq] at h
    subst h; simp [declaredAtL]
  | s :: ss, acc, genes, h => by
    simp only [declareSpecies] at h
    cases hr : resolveSpecies T nm s.name with
    | error e => rw [hr] at h; simp [bind, Except.bind] at h
    | ok p =>
      rw [hr] at h
      simp only [bind, Except.bind] at h
      have hf : List.filter (fun _ : GeneDecl => true) s.genes = s.genes :=
        List.filter_eq_self.mpr (fun _ _ => rfl)
      rw [hf] at h
      have := declareSpecies_at T nm t ss _ genes h
      rw [this]
      simp only [declaredAtL, List.flatMap_cons, hr, List.filter_append, List.map_append, List.append_assoc]
      congr 1
      congr 1
      by_cases hpt : p == t
      · simp [hpt, List.filter_map, Function.comp_def, hf]
      · simp [hpt, List.filter_map, Function.comp_def]

theorem load_tree_genes (T : STree) (nm : Naming) (inp : Input) (H : Ham) (h : load T nm inp = .ok H) :
    H.tree = T ∧ declareSpecies T nm (fun _ => true) inp.species [] = .ok H.genes := by
  simp only [load, buildHam, bind, Except.bind] at h
  cases hd : declareSpecies T nm (fun _ => true) inp.species [] with
  | error e => rw [hd] at h; simp at h
  | ok genes =>
    rw [hd] at h
    dsimp only at h
    split at h
    · cases h
    · cases hm : List.mapM (fun s : Species => Except.map (fun p => (s.name, p)) (resolveSpecies T nm s.name))
          inp.species with
      | error e => rw [hm] at h; cases h
      | ok v => rw [hm] at h; cases h; exact ⟨rfl, rfl⟩

theorem load_genes_at (T : STree) (nm : Naming) (inp : Input) (H : Ham) (h : load T nm inp = .ok H) (t : Taxon) :
    (H.genes.filter (·.tx == t)).map (·.id) = declaredAtL T nm t inp.species := by
  have := declareSpecies_at T nm t inp.species [] H.genes (load_tree_genes T nm inp H h).2
  simpa using this

theorem contains_perm {a b : List String} (h : a.Perm b) (g : String) : a.contains g = b.contains g := by
  rw [Bool.eq_iff_iff]
  simp only [List.contains_iff_mem]
  exact h.mem_iff

/-- the singletons of the analysis at `t`, counted on the dataset -/
theorem singletons_count (H : Ham) (t : Taxon) (ref : List String)
    (hp : (H.tops.flatMap fun p => p.2.leaves).Perm ref) :
    (singletonsAt H t).length =
      (((H.genes.filter (·.tx == t)).map (·.id)).filter fun g => !ref.contains g).length := by
  unfold singletonsAt Ham.singletons
  simp only []
  rw [List.filter_map, List.length_map, List.filter_filter, List.filter_map, List.length_map, List.filter_filter]
  congr 1
  apply List.filter_congr
  intro g _
  simp only [Function.comp_def, Node.tx, contains_perm hp g.id]
  exact Bool.and_comm _ _

/-- **the profile entry of a species node is a function of the species sections and the histories** -/
theorem C09_leaf_profile_from_dataset (D : Dataset) (hc : D.Consistent) :
    ∃ H, load D.T D.nm D.file = .ok H ∧ ∀ i u, (i :: u) ∈ H.tree.allTaxa → D.T.isLeafAt (i :: u) = true →
      ∃ ret lost,
        profileFullAt H (i :: u) =
          { tx := i :: u, nbr := (D.declaredAt (i :: u)).length,
            dupl := some ((D.fams.map fun f => copiesInto (i :: u) f.1 f.2).sum),
            lost := some lost,
            gain := some ((D.fams.filter fun f => f.1 == i :: u).length + (D.unreferencedAt (i :: u)).length),
            retained := some ret,
            duplication := some ((D.fams.map fun f => copiesInto (i :: u) f.1 f.2 - eventsInto (i :: u) f.1 f.2).sum),
            nbrEvents := some ((D.fams.map fun f => copiesInto (i :: u) f.1 f.2 - eventsInto (i :: u) f.1 f.2).sum +
              lost + ((D.fams.filter fun f => f.1 == i :: u).length + (D.unreferencedAt (i :: u)).length)) } ∧
        (D.declaredAt (i :: u)).length =
          ret + (D.fams.map fun f => copiesInto (i :: u) f.1 f.2).sum +
            ((D.fams.filter fun f => f.1 == i :: u).length + (D.unreferencedAt (i :: u)).length) ∧
        (D.declaredAt (i :: u)).length + lost =
          (D.fams.map fun f => lineagesAt u f.1 f.2).sum +
            ((D.fams.filter fun f => f.1 == i :: u).length + (D.unreferencedAt (i :: u)).length) +
            (D.fams.map fun f => copiesInto (i :: u) f.1 f.2 - eventsInto (i :: u) f.1 f.2).sum := by
  obtain ⟨H, hload, hlen, hreal, hwc, hs, _⟩ := loaded_consistent D hc
  obtain ⟨H1, hload1, hwf, _, _⟩ := loaded_consistent_wf D hc
  obtain ⟨H2, hload2, hcount⟩ := C04_counts_are_lineages D hc
  obtain ⟨H3, hload3, hnum⟩ := C09_profile_numbers_are_the_history D hc
  have e1 : H1 = H := by rw [hload] at hload1; cases hload1; rfl
  have e2 : H2 = H := by rw [hload] at hload2; cases hload2; rfl
  have e3 : H3 = H := by rw [hload] at hload3; cases hload3; rfl
  rw [e1] at hwf
  rw [e2] at hcount
  rw [e3] at hnum
  have htree : H.tree = D.T := (load_tree_genes _ _ _ _ hload).1
  refine ⟨H, hload, ?_⟩
  intro i u ht hleaf
  have hu : u ∈ H.tree.allTaxa := up_mem_allTaxa _ i u ht
  have hui : D.T.isInternalAt u = true := by rw [← htree]; exact internal_of_child _ i u ht
  obtain ⟨nd, lost, gain, ret, dpl, hprof, hb1, hb2, _⟩ := C09_balance H hwc hs i u ht hu
  obtain ⟨hd, hdn⟩ := hnum i u ht
  obtain ⟨_, hg, _, _, _, _⟩ := C10_profiles_add_up H hwf hs i u ht
  rw [hprof] at hd hdn hg
  simp only [on, Option.getD_some] at hd hdn hg
  -- the genome of the species
  have hsize : H.genomeSize (i :: u) = (D.declaredAt (i :: u)).length := by
    unfold Ham.genomeSize
    rw [htree, hleaf]
    simp only [if_true]
    rw [← List.length_map (f := fun g : GeneRec => g.id), load_genes_at _ _ _ _ hload]
    rfl
  -- its singletons
  have hperm : (H.tops.flatMap fun p => p.2.leaves).Perm (D.fams.flatMap fun f => genesOf f.2) :=
    flatMap_perm_of_index _ _ _ _ hlen (fun j h1 h2 => realises_leaves _ _ _ (hreal j h1 h2).2)
  have hsing : (singletonsAt H (i :: u)).length = (D.unreferencedAt (i :: u)).length := by
    rw [singletons_count H (i :: u) _ hperm, load_genes_at _ _ _ _ hload]
    rfl
  -- families that start at the node
  have hroots : (H.tops.filter fun p => p.2.tx == i :: u).length = (D.fams.filter fun f => f.1 == i :: u).length := by
    rw [← List.countP_eq_length_filter, ← List.countP_eq_length_filter]
    have hm : H.tops.map (fun p => p.2.tx == i :: u) = D.fams.map (fun f => f.1 == i :: u) :=
      map_eq_of_index _ _ _ _ hlen (fun j h1 h2 => by rw [realises_tx _ _ _ (hreal j h1 h2).2])
    have c1 : List.countP (fun p => p.2.tx == i :: u) H.tops = List.countP id (H.tops.map fun p => p.2.tx == i :: u) := by
      rw [List.countP_map]; rfl
    have c2 : List.countP (fun f => f.1 == i :: u) D.fams = List.countP id (D.fams.map fun f => f.1 == i :: u) := by
      rw [List.countP_map]; rfl
    rw [c1, c2, hm]
  have hLu := hcount u hui
  rw [hsing, hroots] at hg
  subst hd hdn hg
  refine ⟨ret, lost, ?_, ?_, ?_⟩
  · rw [hprof, hsize]
  · rw [← hsize]; exact hb1
  · rw [← hsize, ← hLu]; exact hb2

/-- **C14 for the tree profile at the species nodes**: two consistent datasets over one species tree whose families spell
    the same histories and whose species sections declare the same genes for every species (in any order, under any
    naming mode) have the same profile entry at every leaf -/
theorem C14_leaf_profile_same_for_same_histories (D D' : Dataset) (hc : D.Consistent) (hc' : D'.Consistent)
    (hT : D.T = D'.T) (hlen : D.fams.length = D'.fams.length)
    (hs : ∀ i (h1 : i < D.fams.length) (h2 : i < D'.fams.length),
        (D.fams[i]).1 = (D'.fams[i]).1 ∧ SameL (D.fams[i]).2 (D'.fams[i]).2)
    (hdecl : ∀ t, (D.declaredAt t).Perm (D'.declaredAt t)) :
    ∃ H H', load D.T D.nm D.file = .ok H ∧ load D'.T D'.nm D'.file = .ok H' ∧
      ∀ i u, (i :: u) ∈ D.T.allTaxa → D.T.isLeafAt (i :: u) = true →
        profileFullAt H (i :: u) = profileFullAt H' (i :: u) := by
  obtain ⟨H, hl, hp⟩ := C09_leaf_profile_from_dataset D hc
  obtain ⟨H', hl', hp'⟩ := C09_leaf_profile_from_dataset D' hc'
  obtain ⟨K, hk, hklen, hreal, _⟩ := loaded_consistent D hc
  refine ⟨H, H', hl, hl', ?_⟩
  intro i u ht hleaf
  obtain ⟨ret, lost, e, b1, b2⟩ := hp i u (by rw [(load_tree_genes _ _ _ _ hl).1]; exact ht) hleaf
  obtain ⟨ret', lost', e', b1', b2'⟩ :=
    hp' i u (by rw [(load_tree_genes _ _ _ _ hl').1, ← hT]; exact ht) (by rw [← hT]; exact hleaf)
  have eL : ∀ t, (D.fams.map fun f => lineagesAt t f.1 f.2).sum = (D'.fams.map fun f => lineagesAt t f.1 f.2).sum := by
    intro t
    apply sum_map_congr_index _ _ _ _ hlen
    intro j h1 h2
    obtain ⟨hq, hsl⟩ := hs j h1 h2
    rw [hq]; exact sameL_lineages t hsl _
  have eC : (D.fams.map fun f => copiesInto (i :: u) f.1 f.2).sum = (D'.fams.map fun f => copiesInto (i :: u) f.1 f.2).sum := by
    apply sum_map_congr_index _ _ _ _ hlen
    intro j h1 h2
    obtain ⟨hq, hsl⟩ := hs j h1 h2
    unfold copiesInto
    rw [hq]; exact sameL_weight id (i :: u) hsl _
  have eE : (D.fams.map fun f => copiesInto (i :: u) f.1 f.2 - eventsInto (i :: u) f.1 f.2).sum =
      (D'.fams.map fun f => copiesInto (i :: u) f.1 f.2 - eventsInto (i :: u) f.1 f.2).sum := by
    apply sum_map_congr_index _ _ _ _ hlen
    intro j h1 h2
    obtain ⟨hq, hsl⟩ := hs j h1 h2
    unfold copiesInto eventsInto
    rw [hq, sameL_weight id (i :: u) hsl _, sameL_weight (fun _ => 1) (i :: u) hsl _]
  have eG : (D.fams.filter fun f => f.1 == i :: u).length = (D'.fams.filter fun f => f.1 == i :: u).length := by
    rw [← List.countP_eq_length_filter, ← List.countP_eq_length_filter]
    have hm : D.fams.map (fun f => f.1 == i :: u) = D'.fams.map (fun f => f.1 == i :: u) :=
      map_eq_of_index _ _ _ _ hlen (fun j h1 h2 => by rw [(hs j h1 h2).1])
    have c1 : List.countP (fun f => f.1 == i :: u) D.fams = List.countP id (D.fams.map fun f => f.1 == i :: u) := by
      rw [List.countP_map]; rfl
    have c2 : List.countP (fun f => f.1 == i :: u) D'.fams = List.countP id (D'.fams.map fun f => f.1 == i :: u) := by
      rw [List.countP_map]; rfl
    rw [c1, c2, hm]
  -- the same genes are referenced: one hierarchy realises both spellings of a family
  have hrefs : (D.fams.flatMap fun f => genesOf f.2).Perm (D'.fams.flatMap fun f => genesOf f.2) := by
    apply flatMap_perm_of_index _ _ _ _ hlen
    intro j h1 h2
    obtain ⟨hq, hsl⟩ := hs j h1 h2
    have hj : j < K.tops.length := by rw [hklen]; exact h1
    have r := (hreal j hj h1).2
    have r' := sameL_real hsl _ _ r
    exact (realises_leaves _ _ _ r).symm.trans (realises_leaves _ _ _ r')
  have eN : (D.declaredAt (i :: u)).length = (D'.declaredAt (i :: u)).length := (hdecl _).length_eq
  have eU : (D.unreferencedAt (i :: u)).length = (D'.unreferencedAt (i :: u)).length := by
    unfold Dataset.unreferencedAt unreferencedAtL
    show ((D.declaredAt (i :: u)).filter _).length = ((D'.declaredAt (i :: u)).filter _).length
    have : (fun g => !(D.fams.flatMap fun f => genesOf f.2).contains g) =
        (fun g => !(D'.fams.flatMap fun f => genesOf f.2).contains g) := by
      funext g; rw [contains_perm hrefs g]
    rw [this]
    exact ((hdecl _).filter _).length_eq
  rw [eN, eC, eG, eU] at b1
  rw [eN, eL u, eG, eU, eE] at b2
  have hret : ret = ret' := by omega
  have hlost : lost = lost' := by omega
  rw [e, e', eN, eC, eG, eU, eE, hret, hlost]

end Pyham
