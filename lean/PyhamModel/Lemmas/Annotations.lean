/-
  C19: annotations stay attached to the object they annotate.  The refinement theorem with the
  annotation clause: every written group becomes a HOG carrying exactly its id, scores and properties;
  synthesised HOGs carry none; genes keep their LOFT ids.
-/
import PyhamModel.Model.RealisesAnn
import PyhamModel.Lemmas.Refinement
namespace Pyham

/-- forgetting the annotation clause -/
theorem realisesA_realises (T : STree) (nm : Naming) (q : Taxon) (l : SL) (n : Node)
    (h : RealisesA T nm q l n) : Realises q l n := by
  exact realisesA_realises' T nm l q n h

/-- **C19, one family** -/
theorem C19_family (env : Env) (p : Taxon) (l : SL)
    (hg : isWrittenGrp l = true) (hw : wfh env.T p l = true) (hrec : recoverable p l = true)
    (hdecl : Declared env p l) (hnd : (genesOf l).Nodup) (hn : NamesInj env.T env.nm)
    (tops : List Node) (ps : PS) (hidle : Idle ps) :
    ∃ n ps', topElems env none (encode env.T env.nm p l) tops ps = .ok (tops ++ [n], ps') ∧
      RealisesA env.T env.nm p l n ∧ n.dup = none ∧ Idle ps' ∧ ps.next ≤ ps'.next := by
  exact C03A_family env p l hg hw hrec hdecl hnd hn tops ps hidle

/-- **C19, whole file** -/
theorem C19_load_annotations (env : Env) (fams : List (Taxon × SL))
    (hf : ∀ f ∈ fams, isWrittenGrp f.2 = true ∧ wfh env.T f.1 f.2 = true ∧ recoverable f.1 f.2 = true ∧
      Declared env f.1 f.2 ∧ (genesOf f.2).Nodup)
    (hn : NamesInj env.T env.nm) :
    ∃ tops ps, topElems env none (fams.flatMap fun f => encode env.T env.nm f.1 f.2) [] {} = .ok (tops, ps) ∧
      tops.length = fams.length ∧
      ∀ i (h1 : i < tops.length) (h2 : i < fams.length), RealisesA env.T env.nm (fams[i]).1 (fams[i]).2 tops[i] := by
  exact C03A_load env fams hf hn

end Pyham
