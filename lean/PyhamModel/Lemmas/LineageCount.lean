/-
  C04, last clause: "the number of ancestral genes at a taxon equals the number of family lineages crossing it".
  The lineages of a history that cross a taxon `t` are its groups (written or elided) at `t`; a hierarchy that
  realises the history has exactly one HOG per group there; and for a loaded consistent dataset the gene list of
  the ancestral genome at `t` has exactly that many entries.
-/
import PyhamModel.Lemmas.Capstone
import PyhamModel.Lemmas.CapstoneWF
namespace Pyham


/-- number of HOGs at `t` in a forest -/
def hogCountL (t : Taxon) (ks : List Node) : Nat := ((Node.hogsL ks).filter fun x => x.tx == t).length

theorem hogCountL_nil (t : Taxon) : hogCountL t [] = 0 := by simp [hogCountL, Node.hogsL]

theorem hogCountL_cons (t : Taxon) (k : Node) (ks : List Node) :
    hogCountL t (k :: ks) = (k.hogs.filter fun x => x.tx == t).length + hogCountL t ks := by
  simp [hogCountL, Node.hogsL]

theorem hogCountL_append (t : Taxon) (a b : List Node) :
    hogCountL t (a ++ b) = hogCountL t a + hogCountL t b := by
  simp [hogCountL, hogsL_eq_flatMap']

theorem hogCountL_perm (t : Taxon) {a b : List Node} (h : a.Perm b) : hogCountL t a = hogCountL t b := by
  simp only [hogCountL, hogsL_eq_flatMap']
  exact ((h.flatMap_right Node.hogs).filter _).length_eq

mutual
theorem realises_count (t q : Taxon) : (l : SL) → (n : Node) → Realises q l n →
    (n.hogs.filter fun x => x.tx == t).length = lineagesAt t q l
  | .gene id loft, n, h => by
    simp only [Realises] at h
    obtain ⟨d, rfl⟩ := h
    simp [Node.hogs, lineagesAt]
  | .grp w hid label subs, n, h => by
    simp only [Realises] at h
    obtain ⟨info, d, kids, dups, rfl, plain, evs, hk, _, _, hs⟩ := h
    have ih := realisesSubs_count t q subs plain evs hs
    have hp := hogCountL_perm t hk
    rw [hogCountL_append, ih] at hp
    have hq : (Node.hog info q d kids dups).tx = q := rfl
    rw [Node.hogs, lineagesAt, List.filter_cons, hq, ← hp]
    unfold hogCountL
    split <;> simp <;> omega
theorem realisesSubs_count (t q : Taxon) : (subs : List Sub) → (plain : List Node) →
    (evs : List (DupRec × List Node)) → RealisesSubs q subs plain evs →
    hogCountL t plain + hogCountL t (evs.flatMap (·.2)) = lineagesAtSubs t q subs
  | [], plain, evs, h => by
    simp only [RealisesSubs] at h
    obtain ⟨rfl, rfl⟩ := h
    simp [hogCountL_nil, lineagesAtSubs]
  | .one i l :: r, plain, evs, h => by
    simp only [RealisesSubs] at h
    obtain ⟨k, plain', rfl, _, hk, hr⟩ := h
    have ih := realisesSubs_count t q r plain' evs hr
    have ik := realises_count t (i :: q) l k hk
    rw [hogCountL_cons, lineagesAtSubs, ik, ← ih]
    omega
  | .dup i pgid cs :: r, plain, evs, h => by
    simp only [RealisesSubs] at h
    obtain ⟨rec, ks, evs', rfl, _, _, _, _, hc, hr⟩ := h
    have ih := realisesSubs_count t q r plain evs' hr
    have ic := realisesCopies_count t (i :: q) cs ks hc
    rw [List.flatMap_cons, hogCountL_append, lineagesAtSubs, ic, ← ih]
    omega
  | .ann e :: r, plain, evs, h => by
    simp only [RealisesSubs] at h
    rw [lineagesAtSubs]
    exact realisesSubs_count t q r plain evs h
theorem realisesCopies_count (t q : Taxon) : (cs : List SL) → (ks : List Node) → RealisesCopies q cs ks →
    hogCountL t ks = lineagesAtCopies t q cs
  | [], ks, h => by
    simp only [RealisesCopies] at h
    subst h
    simp [hogCountL_nil, lineagesAtCopies]
  | c :: cs, ks, h => by
    simp only [RealisesCopies] at h
    obtain ⟨k, ks', rfl, hk, hr⟩ := h
    rw [hogCountL_cons, lineagesAtCopies, realises_count t q c k hk, realisesCopies_count t q cs ks' hr]
end

/-- one HOG per lineage: a hierarchy that realises the history has as many HOGs at `t` as lineages cross `t` -/
theorem realises_lineage_count (t q : Taxon) (l : SL) (n : Node) (h : Realises q l n) :
    (n.hogs.filter fun x => x.tx == t).length = lineagesAt t q l :=
  realises_count t q l n h

theorem map_eq_of_index {α β γ} (f : α → γ) (g : β → γ) (A : List α) (B : List β)
    (hl : A.length = B.length) (h : ∀ i (h1 : i < A.length) (h2 : i < B.length), f A[i] = g B[i]) :
    A.map f = B.map g := by
  apply List.ext_getElem (by simpa using hl)
  intro i h1 h2
  simp only [List.getElem_map]
  exact h i (by simpa using h1) (by simpa using h2)

/-- **C04 (ancestral gene counts)**: for every consistent dataset the ancestral genome at an internal taxon `t`
    lists exactly as many HOGs as family lineages cross `t` -/
theorem C04_counts_are_lineages (D : Dataset) (hc : D.Consistent) :
    ∃ H, load D.T D.nm D.file = .ok H ∧
      ∀ t, D.T.isInternalAt t = true → H.genomeSize t = (D.fams.map fun f => lineagesAt t f.1 f.2).sum := by
  obtain ⟨H, hload, hlen, hreal, _, _, _⟩ := loaded_consistent D hc
  obtain ⟨H', hload', htree, ok, _⟩ := loaded_core D hc
  have : H' = H := by
    rw [hload] at hload'
    cases hload'
    rfl
  subst this
  refine ⟨H', hload, ?_⟩
  intro t ht
  have hnl : H'.tree.isLeafAt t = false := by
    cases hl : H'.tree.isLeafAt t with
    | false => rfl
    | true =>
      rw [htree] at hl
      exact (leaf_not_internal _ _ hl ht).elim
  have e1 : H'.genomeSize t = hogCountL t H'.forest := by
    simp only [Ham.genomeSize, hnl, Bool.false_eq_true, if_false, hogCountL]
    rw [(ok.reg.filter _).length_eq, regOfL_eq_hogsL, List.filter_map, List.length_map]
    rfl
  have e2 : hogCountL t H'.forest =
      (H'.tops.map fun p => (p.2.hogs.filter fun x => x.tx == t).length).sum := by
    simp only [hogCountL, Ham.forest, hogsL_eq_flatMap', List.filter_flatMap, List.length_flatMap,
      List.map_map]
    rfl
  rw [e1, e2]
  congr 1
  apply map_eq_of_index _ _ _ _ hlen
  intro i h1 h2
  exact realises_lineage_count t _ _ _ (hreal i h1 h2).2

end Pyham
