/-
  C08: lateral comparison = the vertical comparisons against the common ancestor; argument order is
  irrelevant; vertical comparison refuses genomes that are not on one lineage with TypeError.
-/
import PyhamModel.Model.Mapper
import PyhamModel.Lemmas.TreeLemmas
namespace Pyham

theorem oldest_of_suffix (a d : Taxon) (h : a <:+ d) : oldest a d = .ok (a, d) := by
  have hm : mrca2 a d = a := (mrca2_eq_left_iff a d).mpr h
  simp [oldest, hm]
theorem oldest_of_suffix' (a d : Taxon) (h : a <:+ d) (hne : a ≠ d) : oldest d a = .ok (a, d) := by
  have hm : mrca2 d a = a := by rw [mrca2_comm]; exact (mrca2_eq_left_iff a d).mpr h
  have hne' : ¬ d = a := fun e => hne e.symm
  simp [oldest, hm, hne']
theorem oldest_not_lineage (g1 g2 : Taxon) (h1 : ¬ g1 <:+ g2) (h2 : ¬ g2 <:+ g1) : oldest g1 g2 = .error .type := by
  have e1 : ¬ g1 = mrca2 g1 g2 := fun e => h1 ((mrca2_eq_left_iff g1 g2).mp e.symm)
  have e2 : ¬ g2 = mrca2 g1 g2 := fun e => h2 (by
    rw [mrca2_comm] at e; exact (mrca2_eq_left_iff g2 g1).mp e.symm)
  simp [oldest, e1, e2]

theorem vertical_of_suffix (H : Ham) (a d : Taxon) (h : a <:+ d) (hne : a ≠ d) :
    vertical H a d = .ok (hogsMap H a d) := by
  simp only [vertical, oldest_of_suffix a d h]
  simp [hne]
  rfl
theorem vertical_of_suffix' (H : Ham) (a d : Taxon) (h : a <:+ d) (hne : a ≠ d) :
    vertical H d a = .ok (hogsMap H a d) := by
  have hne' : ¬ d = a := fun e => hne e.symm
  simp only [vertical, oldest_of_suffix' a d h hne]
  simp [hne']
  rfl

/-- ... refuses genomes that are not on one lineage with TypeError -/
theorem C08_vertical_not_lineage (H : Ham) (g1 g2 : Taxon) (h1 : ¬ g1 <:+ g2) (h2 : ¬ g2 <:+ g1) :
    vertical H g1 g2 = .error .type := by
  have hne : ¬ g1 = g2 := fun e => h1 (e ▸ List.suffix_refl _)
  simp only [vertical, oldest_not_lineage g1 g2 h1 h2]
  simp [hne]
  rfl

/-- vertical comparison is independent of argument order -/
theorem C08_vertical_symm (H : Ham) (g1 g2 : Taxon) : vertical H g1 g2 = vertical H g2 g1 := by
  by_cases he : g1 = g2
  · subst he; rfl
  · have he' : g2 ≠ g1 := fun e => he e.symm
    by_cases h1 : g1 <:+ g2
    · rw [vertical_of_suffix H g1 g2 h1 he, vertical_of_suffix' H g1 g2 h1 he]
    · by_cases h2 : g2 <:+ g1
      · rw [vertical_of_suffix' H g2 g1 h2 he', vertical_of_suffix H g2 g1 h2 he']
      · rw [C08_vertical_not_lineage H g1 g2 h1 h2, C08_vertical_not_lineage H g2 g1 h2 h1]

/-- ... and on a lineage it is the map between ancestor and descendant, whichever way it is asked -/
theorem C08_vertical_lineage (H : Ham) (a d : Taxon) (h : a <:+ d) (hne : a ≠ d) :
    vertical H a d = .ok (hogsMap H a d) ∧ vertical H d a = .ok (hogsMap H a d) :=
  ⟨vertical_of_suffix H a d h hne, vertical_of_suffix' H a d h hne⟩

theorem lateral_eq (H : Ham) (g1 g2 : Taxon) (hne : g1 ≠ g2) :
    lateral H g1 g2 = .ok (LMap.mk (mrca2 g1 g2)
      (([g1, g2].filter (· != mrca2 g1 g2)).map fun g => (g, hogsMap H (mrca2 g1 g2) g))) := by
  simp [lateral, hne]

theorem lateral_ne (H : Ham) (g1 g2 : Taxon) (ml : LMap) (h : lateral H g1 g2 = .ok ml) : g1 ≠ g2 := by
  intro e
  subst e
  simp [lateral] at h

theorem lateral_total (H : Ham) (g1 g2 : Taxon) (hne : g1 ≠ g2) : ∃ ml, lateral H g1 g2 = .ok ml :=
  ⟨_, lateral_eq H g1 g2 hne⟩

/-- comparing two genomes laterally takes their most recent common ancestor as reference and
    reports, for each compared genome other than that ancestor, exactly the vertical comparison
    against the ancestor -/
theorem C08_lateral (H : Ham) (g1 g2 : Taxon) (ml : LMap) (h : lateral H g1 g2 = .ok ml) :
    ml.anc = mrca2 g1 g2 ∧ ml.anc <:+ g1 ∧ ml.anc <:+ g2 ∧
    (∀ e ∈ ml.maps, e.1 ≠ ml.anc ∧ (e.1 = g1 ∨ e.1 = g2) ∧ e.2 = hogsMap H ml.anc e.1 ∧
        vertical H ml.anc e.1 = .ok e.2) ∧
    (∀ g, (g = g1 ∨ g = g2) → g ≠ ml.anc → ∃ e ∈ ml.maps, e.1 = g) := by
  have hne := lateral_ne H g1 g2 ml h
  rw [lateral_eq H g1 g2 hne] at h
  have h' := Except.ok.inj h
  subst h'
  refine ⟨rfl, mrca2_suffix_left _ _, mrca2_suffix_right _ _, ?_, ?_⟩
  · intro e he
    simp only [List.mem_map, List.mem_filter, bne_iff_ne, List.mem_cons, List.not_mem_nil, or_false] at he
    obtain ⟨g, ⟨hg, hga⟩, rfl⟩ := he
    refine ⟨hga, hg, rfl, ?_⟩
    have hs : mrca2 g1 g2 <:+ g := by
      rcases hg with rfl | rfl
      · exact mrca2_suffix_left _ _
      · exact mrca2_suffix_right _ _
    exact vertical_of_suffix H _ _ hs (fun e => hga e.symm)
  · intro g hg hga
    refine ⟨(g, hogsMap H (mrca2 g1 g2) g), ?_, rfl⟩
    simp only [List.mem_map, List.mem_filter, bne_iff_ne, List.mem_cons, List.not_mem_nil, or_false]
    exact ⟨g, ⟨hg, hga⟩, rfl⟩

/-- the outcome does not depend on argument order -/
theorem C08_lateral_symm (H : Ham) (g1 g2 : Taxon) (m1 m2 : LMap)
    (h1 : lateral H g1 g2 = .ok m1) (h2 : lateral H g2 g1 = .ok m2) :
    m1.anc = m2.anc ∧ m1.maps.Perm m2.maps := by
  have hne := lateral_ne H g1 g2 m1 h1
  rw [lateral_eq H g1 g2 hne] at h1
  rw [lateral_eq H g2 g1 (fun e => hne e.symm), mrca2_comm g2 g1] at h2
  have e1 := Except.ok.inj h1
  have e2 := Except.ok.inj h2
  subst e1; subst e2
  exact ⟨rfl, ((List.Perm.swap g2 g1 []).filter _).map _⟩

end Pyham
