/-
  The capstone, full version: the analysis loaded from a consistent dataset satisfies the whole
  decidable well-formedness predicate `Ham.wf` and has exact genome registries.
-/
import PyhamModel.Lemmas.Capstone
import PyhamModel.Lemmas.LookupLemmas
namespace Pyham

/-! ### 1. the families are loaded unflagged -/

theorem C03_load_aux_dup (env : Env) (hn : NamesInj env.T env.nm) : (fams : List (Taxon × SL)) →
    (∀ f ∈ fams, isWrittenGrp f.2 = true ∧ wfh env.T f.1 f.2 = true ∧ recoverable f.1 f.2 = true ∧
      Declared env f.1 f.2 ∧ (genesOf f.2).Nodup) → (tops : List Node) → (ps : PS) → Idle ps →
    ∃ new ps', topElems env none (fams.flatMap fun f => encode env.T env.nm f.1 f.2) tops ps =
        .ok (tops ++ new, ps') ∧ new.length = fams.length ∧
      (∀ i (h1 : i < new.length) (h2 : i < fams.length), Realises (fams[i]).1 (fams[i]).2 new[i]) ∧
      ∀ n ∈ new, n.dup = none
  | [], _, tops, ps, _ => ⟨[], ps, by simp [topElems], rfl, fun i h1 => by simp at h1, by simp⟩
  | f :: fs, hf, tops, ps, hidle => by
    obtain ⟨hg, hw, hrec, hdecl, hnd⟩ := hf f (by simp)
    obtain ⟨n, ps1, h1, hR, hdn, hidle1, _⟩ :=
      C03_family env f.1 f.2 hg hw hrec hdecl hnd hn tops ps hidle
    obtain ⟨new, ps', h2, hl, hi, hd⟩ := C03_load_aux_dup env hn fs (fun g hg => hf g (by simp [hg]))
      (tops ++ [n]) ps1 hidle1
    refine ⟨n :: new, ps', ?_, by simp [hl], ?_, ?_⟩
    · simp only [List.flatMap_cons]
      rw [topElems_append_ok _ h1, h2]
      simp
    · intro i h1' h2'
      cases i with
      | zero => exact hR
      | succ i =>
        simp only [List.getElem_cons_succ]
        exact hi i (by simpa using h1') (by simpa using h2')
    · intro x hx
      rcases List.mem_cons.mp hx with rfl | hx
      · exact hdn
      · exact hd x hx

/-! ### 2. the loaded analysis, with everything the capstone knows about it -/

theorem loaded_core (D : Dataset) (hc : D.Consistent) :
    ∃ H, load D.T D.nm D.file = .ok H ∧ H.tree = D.T ∧ ForestOK H ∧
      ∀ p ∈ H.tops, p.2.dup = none ∧ ∃ f ∈ D.fams, Realises f.1 f.2 p.2 := by
  obtain ⟨genes, hdecl, hg2, hg3⟩ := declareSpecies_ok D.T D.nm D.species [] hc.species_ok
  simp only [List.nil_append] at hdecl
  have hids : genes.map (·.id) = D.species.flatMap (fun s => s.genes.map (·.id)) := by
    simpa using declareSpecies_ids D.T D.nm D.species [] genes hdecl
  have hidsN : (genes.map (·.id)).Nodup := by rw [hids]; exact hc.genes_nodup
  obtain ⟨env, henv⟩ : ∃ env : Env,
      env = { T := D.T, nm := D.nm, geneTx := genes.reverse.map fun g => (g.id, g.tx) } := ⟨_, rfl⟩
  have hlook : ∀ g ∈ genes, env.lookupGene g.id = some g.tx := by
    intro g hg
    rw [henv]
    apply lookup_of_nodup
    · rw [List.map_map]
      show ((genes.reverse).map (·.id)).Nodup
      rw [List.map_reverse]
      exact ((List.reverse_perm _).nodup_iff).mpr hidsN
    · exact List.mem_map.mpr ⟨g, List.mem_reverse.mpr hg, rfl⟩
  have hD : ∀ f ∈ D.fams, Declared env f.1 f.2 := by
    intro f hf e he
    obtain ⟨s, hs, hr, hi⟩ := hc.declared f hf e he
    obtain ⟨g, hg, hgi, hgt⟩ := hg3 s hs e.2 hr e.1 hi
    rw [← hgi, ← hgt]
    exact hlook g hg
  have hnd : ∀ f ∈ D.fams, (genesOf f.2).Nodup := fun f hf =>
    hc.refs_nodup.sublist (sublist_flatMap_of_mem (fun f : Taxon × SL => genesOf f.2) _ f hf)
  have hT : env.T = D.T := by rw [henv]
  have hN : env.nm = D.nm := by rw [henv]
  obtain ⟨tops, ps, htop, hlen, hreal, hdup⟩ := C03_load_aux_dup env (by rw [hT, hN]; exact hc.names) D.fams
    (fun f hf => ⟨(hc.fams_ok f hf).1, by rw [hT]; exact (hc.fams_ok f hf).2.1, (hc.fams_ok f hf).2.2,
      hD f hf, hnd f hf⟩) [] {} ⟨rfl, rfl, rfl, fun b hb => absurd hb List.not_mem_nil⟩
  simp only [List.nil_append] at htop
  obtain ⟨new, hnew, hhid⟩ := tops_hids env D.fams (fun f hf => (hc.fams_ok f hf).1) [] {} tops ps htop
  simp only [List.nil_append] at hnew
  subst hnew
  obtain ⟨sp, hsp⟩ := speciesMapM_ok D.T D.nm D.species hc.species_ok
  have hfold : tops.foldl (fun d n => dictPut d (hidOf n) n) [] = tops.map fun n => (hidOf n, n) := by
    rw [dictPut_foldl_distinct hidOf tops [] (by simpa [hhid] using hc.top_ids)]
    simp
  have hmem : ∀ n ∈ tops, ∃ f ∈ D.fams, Realises f.1 f.2 n := by
    intro n hn
    obtain ⟨i, hi, rfl⟩ := List.mem_iff_getElem.mp hn
    exact ⟨D.fams[i]'(by omega), List.getElem_mem _, hreal i hi (by omega)⟩
  have hreg := C04_registration_exact env none _ tops ps htop
  have hregk := reg_keys_nodup env _ tops ps htop
  rw [hT, hN] at htop
  subst henv
  have hforest : Ham.forest
      { tree := D.T, naming := D.nm, tops := (tops.map fun n => (hidOf n, n)), genes := genes, species := sp, reg := ps.reg } = tops := by
    simp [Ham.forest, List.map_map, Function.comp_def]
  have hnodes : ∀ x ∈ Node.nodesL tops, ∃ n ∈ tops, x ∈ n.nodes := by
    intro x hx
    rw [nodesL_eq_flatMap', List.mem_flatMap] at hx
    exact hx
  refine ⟨{ tree := D.T, naming := D.nm, tops := (tops.map fun n => (hidOf n, n)), genes := genes,
            species := sp, reg := ps.reg }, ?_, rfl, ?_, ?_⟩
  · simp only [load, buildHam, Dataset.file, bind, Except.bind, hdecl, htop, hsp, hfold]
  · refine ⟨?_, ?_, hidsN, ?_, ?_, ?_, hregk⟩
    · rw [hforest]
      intro x hx
      obtain ⟨n, hn, hxn⟩ := hnodes x hx
      obtain ⟨f, hf, hr⟩ := hmem n hn
      have := realises_shape D.T f.1 f.2 n (hc.fams_ok f hf).2.1 hr x hxn
      exact ⟨this.1, fun h => (this.2 h).1⟩
    · rw [hforest]
      intro i t d lo hx
      obtain ⟨n, hn, hxn⟩ := hnodes _ hx
      obtain ⟨f, hf, hr⟩ := hmem n hn
      have he := realises_geneTaxa f.1 f.2 n hr i t d lo hxn
      obtain ⟨s, hs, hrs, hi⟩ := hc.declared f hf (i, t) he
      exact hg3 s hs t hrs i hi
    · intro g hg
      obtain ⟨s, _, hrs, _⟩ := hg2 g hg
      exact resolveSpecies_leaf D.T D.nm s.name g.tx hrs
    · rw [hforest, leavesL_eq_flatMap']
      refine ((flatMap_perm_of_index Node.leaves (fun f => genesOf f.2) tops D.fams hlen ?_).nodup_iff).mpr
        hc.refs_nodup
      intro i h1 h2
      exact realises_leaves _ _ _ (hreal i h1 h2)
    · rw [hforest]
      exact hreg
  · intro p hp
    obtain ⟨n, hn, rfl⟩ := List.mem_map.mp hp
    exact ⟨hdup n hn, hmem n hn⟩

/-! ### 3. events and flags of a realising hierarchy with distinct identities -/

theorem eventsOkL_iff (T : STree) (ks : List Node) :
    eventsOkL T ks = true ↔ ∀ k ∈ ks, k.eventsOk T = true := by
  induction ks with
  | nil => simp [eventsOkL]
  | cons k ks ih => simp [eventsOkL, ih]

theorem kids_sublist_nodesL : (ks : List Node) → ks.Sublist (Node.nodesL ks)
  | [] => by simp [Node.nodesL]
  | k :: ks => by
    simp only [Node.nodesL]
    cases k with
    | gene i t d l =>
      simp only [Node.nodes, List.singleton_append]
      exact (kids_sublist_nodesL ks).cons_cons _
    | hog info t d ks' ds =>
      simp only [Node.nodes, List.cons_append]
      exact ((kids_sublist_nodesL ks).trans (List.sublist_append_right _ _)).cons_cons _

theorem filter_length_one {α β} (f : α → β) (p : α → Bool) : (l : List α) → (l.map f).Nodup →
    ∀ a ∈ l, p a = true → (∀ b ∈ l, p b = true → f b = f a) → (l.filter p).length = 1
  | [], _, a, ha, _, _ => by simp at ha
  | x :: xs, hn, a, ha, hpa, hall => by
    simp only [List.map_cons, List.nodup_cons, List.mem_map, not_exists, not_and] at hn
    rcases List.mem_cons.mp ha with rfl | ha'
    · have : xs.filter p = [] := by
        rw [List.filter_eq_nil_iff]
        intro b hb hpb
        exact hn.1 b hb (hall b (List.mem_cons_of_mem _ hb) hpb)
      simp [hpa, this]
    · have hpx : p x = false := by
        rw [Bool.eq_false_iff]
        intro hpx
        exact hn.1 a ha' (hall x (List.mem_cons_self ..) hpx).symm
      simp only [List.filter_cons, hpx, Bool.false_eq_true, if_false]
      exact filter_length_one f p xs hn.2 a ha' hpa (fun b hb => hall b (List.mem_cons_of_mem _ hb))

theorem filterMap_const {α β} (f : α → Option β) (c : β) : (l : List α) → (∀ m ∈ l, f m = some c) →
    l.filterMap f = l.map fun _ => c
  | [], _ => rfl
  | x :: xs, h => by
    rw [List.filterMap_cons_some (h x (List.mem_cons_self ..)), filterMap_const f c xs
      (fun m hm => h m (List.mem_cons_of_mem _ hm))]
    rfl

/-- with pairwise distinct branch indices, every child at the taxon of a copy of an event is a copy
    of that event -/
theorem realisesSubs_event_alone (q : Taxon) (subs : List Sub) (plain : List Node)
    (evs : List (DupRec × List Node)) (h : RealisesSubs q subs plain evs)
    (hn : (subs.filterMap subIndex).Nodup) :
    ∀ e ∈ evs, ∀ k ∈ e.2, ∀ k' ∈ plain ++ evs.flatMap (·.2), k'.tx = k.tx → k' ∈ e.2 := by
  induction subs generalizing plain evs with
  | nil =>
    simp only [RealisesSubs] at h
    obtain ⟨rfl, rfl⟩ := h; simp
  | cons s subs ih =>
    cases s with
    | one i l =>
      simp only [RealisesSubs] at h
      obtain ⟨k0, plain', rfl, _, hk0, hr⟩ := h
      simp only [List.filterMap_cons, subIndex, List.nodup_cons] at hn
      have htx0 := realises_tx _ _ _ hk0
      have hidx := realisesSubs_index q subs plain' evs hr
      intro e he k hk k' hk' htx
      simp only [List.cons_append, List.mem_cons] at hk'
      rcases hk' with rfl | hk'
      · obtain ⟨j, hj, hkt⟩ := hidx k (List.mem_append_right _ (List.mem_flatMap.mpr ⟨e, he, hk⟩))
        rw [htx0, hkt] at htx
        have : i = j := by simpa using htx
        exact absurd (this ▸ hj) hn.1
      · exact ih plain' evs hr hn.2 e he k hk k' hk' htx
    | dup i pg cs =>
      simp only [RealisesSubs] at h
      obtain ⟨rec, ks, evs', rfl, _, _, _, _, hc, hr⟩ := h
      simp only [List.filterMap_cons, subIndex, List.nodup_cons] at hn
      have hidx := realisesSubs_index q subs plain evs' hr
      have hks := (realisesCopies_mem _ _ _ hc).2
      intro e he k hk k' hk' htx
      simp only [List.flatMap_cons, List.mem_append] at hk'
      have hk'' : k' ∈ ks ∨ k' ∈ plain ++ evs'.flatMap (·.2) := by
        rcases hk' with h1 | h1 | h1
        · exact Or.inr (List.mem_append_left _ h1)
        · exact Or.inl h1
        · exact Or.inr (List.mem_append_right _ h1)
      rcases List.mem_cons.mp he with rfl | he
      · rcases hk'' with h1 | h1
        · exact h1
        · obtain ⟨j, hj, hkt⟩ := hidx k' h1
          rw [hks k hk, hkt] at htx
          have : j = i := by simpa using htx
          exact absurd (this ▸ hj) hn.1
      · rcases hk'' with h1 | h1
        · obtain ⟨j, hj, hkt⟩ := hidx k (List.mem_append_right _ (List.mem_flatMap.mpr ⟨e, he, hk⟩))
          rw [hks k' h1, hkt] at htx
          have : i = j := by simpa using htx
          exact absurd (this ▸ hj) hn.1
        · exact ih plain evs' hr hn.2 e he k hk k' h1 htx
    | ann e =>
      simp only [RealisesSubs] at h
      simp only [List.filterMap_cons, subIndex] at hn
      exact ih plain evs h hn

def r_members_taxa (kids : List Node) (r : DupRec) : List Taxon :=
  r.members.filterMap (fun m => (findKey m kids).map Node.tx)

theorem self_mem_nodes (n : Node) : n ∈ n.nodes := by
  cases n <;> simp [Node.nodes]

theorem self_mem_hogs (info : HogInfo) (t : Taxon) (d : Option Nat) (ks : List Node) (ds : List DupRec) :
    Node.hog info t d ks ds ∈ (Node.hog info t d ks ds).hogs := by
  simp [Node.hogs]

theorem findKey_of_nodup (kids : List Node) (hK : (kids.map Node.key).Nodup) (k : Node) (hk : k ∈ kids) :
    findKey k.key kids = some k :=
  find_nodup_key Node.key kids hK k hk

/-- C02, events and flags: in a hierarchy that realises a well-formed history and whose nodes have
    pairwise distinct identities every clause of `eventsOk` holds -/
theorem realises_eventsOk (T : STree) (q : Taxon) (l : SL) (n : Node) (h : Realises q l n) :
    wfh T q l = true → (n.nodes.map Node.key).Nodup → n.eventsOk T = true := by
  refine realises_ind (M := fun q l n => wfh T q l = true → (n.nodes.map Node.key).Nodup →
    n.eventsOk T = true) ⟨?_, ?_⟩ q l n h
  · intro q id loft d hw _
    simp only [wfh] at hw
    simp [Node.eventsOk, hw]
  · intro q w hid label subs info d kids dups h0 hk hw hN
    have hshape := realises_shape T q _ _ hw h0 _ (self_mem_nodes _)
    have hev : ∀ r ∈ dups, r.mrca = q ∧ 2 ≤ r.members.length ∧
        (∀ m ∈ r.members, ∃ k ∈ kids, k.key = m ∧ k.dup = some r.did) ∧
        (∃ i, ∀ m ∈ r.members, ∀ k ∈ kids, k.key = m → k.dup = some r.did → k.tx = i :: q) :=
      realises_events T q _ _ hw h0 _ (self_mem_hogs _ _ _ _ _)
    have hshape : T.isInternalAt q = true ∧ kids ≠ [] := hshape.2 rfl
    obtain ⟨hint, hne⟩ := hshape
    simp only [Realises] at h0
    obtain ⟨info', d', kids', dups', heq, plain, evs, hp, hdp, hnd, hs⟩ := h0
    cases heq
    have hw' := hw
    simp only [wfh, Bool.and_eq_true, decide_eq_true_eq] at hw'
    obtain ⟨⟨⟨⟨_, _⟩, hidxN⟩, _⟩, hws⟩ := hw'
    -- identities of the children
    have hNL : ((Node.nodesL kids).map Node.key).Nodup := by
      simp only [Node.nodes, List.map_cons, List.nodup_cons] at hN
      exact hN.2
    have hK : (kids.map Node.key).Nodup := hNL.sublist ((kids_sublist_nodesL kids).map _)
    have hinj : ∀ a ∈ kids, ∀ b ∈ kids, a.key = b.key → a = b :=
      fun a ha b hb e => inj_of_nodup_map Node.key hK ha hb e
    have hKP : ((plain ++ evs.flatMap (·.2)).map Node.key).Nodup := ((hp.map Node.key).nodup_iff).mp hK
    have hevs := realisesSubs_evs q subs plain evs hs
    have hmemK : ∀ e ∈ evs, ∀ k ∈ e.2, k ∈ kids := fun e he k hk' =>
      hp.mem_iff.2 (List.mem_append_right _ (List.mem_flatMap.2 ⟨e, he, hk'⟩))
    simp only [Node.eventsOk, Bool.and_eq_true, Bool.not_eq_true', List.all_eq_true, decide_eq_true_eq,
      eventsOkL_iff]
    refine ⟨⟨⟨⟨⟨hint, ?_⟩, ?_⟩, ?_⟩, ?_⟩, ?_⟩
    · cases kids with
      | nil => exact absurd rfl hne
      | cons _ _ => rfl
    · -- every record
      intro r hr
      obtain ⟨hm, hlen, hmem, i, htx⟩ := hev r hr
      obtain ⟨e, he, rfl⟩ := List.mem_map.1 (hdp.mem_iff.1 hr)
      obtain ⟨_, hperm, hdupe, _⟩ := hevs e he
      have hfm : r_members_taxa kids e.1 = e.1.members.map fun _ => i :: q := by
        apply filterMap_const
        intro m hm'
        obtain ⟨k, hk1, hk2, hk3⟩ := hmem m hm'
        rw [← hk2, findKey_of_nodup kids hK k hk1]
        simp [htx m hm' k hk1 hk2 hk3]
      simp only [dupOk, Bool.and_eq_true, beq_iff_eq, decide_eq_true_eq, List.all_eq_true, List.any_eq_true]
      refine ⟨⟨⟨⟨hm, hlen⟩, ?_⟩, ?_⟩, ?_⟩
      · refine (hperm.nodup_iff).mpr ?_
        have : (e.2.map Node.key).Sublist ((plain ++ evs.flatMap (·.2)).map Node.key) :=
          ((sublist_flatMap_of_mem (fun e : DupRec × List Node => e.2) evs e he).trans
            (List.sublist_append_right _ _)).map _
        exact hKP.sublist this
      · intro m hm'
        obtain ⟨k, hk1, hk2, hk3⟩ := hmem m hm'
        exact ⟨k, hk1, hk2, hk3⟩
      · change (match r_members_taxa kids e.1 with | [] => false | x :: xs => xs.all (· == x)) = true
        rw [hfm]
        cases hmm : e.1.members with
        | nil => rw [hmm] at hlen; simp at hlen
        | cons m ms => simp
    · -- every child
      intro k hkk
      have hkk' := hp.mem_iff.1 hkk
      cases hd : k.dup with
      | none =>
        simp only [flagOk, hd, List.all_eq_true, Bool.not_eq_true', List.contains_eq_mem,
          decide_eq_false_iff_not]
        intro r hr hin
        obtain ⟨_, _, hmem, _⟩ := hev r hr
        obtain ⟨k', hk1, hk2, hk3⟩ := hmem _ hin
        have := hinj k' hk1 k hkk hk2
        subst this
        rw [hd] at hk3
        cases hk3
      | some dd =>
        rcases List.mem_append.1 hkk' with hpl | hfl
        · rw [realisesSubs_plain q subs plain evs hs k hpl] at hd
          cases hd
        · obtain ⟨e, he, hke⟩ := List.mem_flatMap.1 hfl
          obtain ⟨_, hperm, hdupe, _⟩ := hevs e he
          have hdd : dd = e.1.did := by
            have := hdupe k hke
            rw [hd] at this
            exact Option.some.inj this
          subst hdd
          have hedups : e.1 ∈ dups := hdp.mem_iff.2 (List.mem_map.2 ⟨e, he, rfl⟩)
          have hkin : k.key ∈ e.1.members := hperm.mem_iff.2 (List.mem_map.2 ⟨k, hke, rfl⟩)
          have hdidN : (dups.map (·.did)).Nodup := by
            refine ((hdp.map (·.did)).nodup_iff).mpr ?_
            rw [List.map_map]
            exact hnd
          have hother : ∀ r ∈ dups, k.key ∈ r.members → r.did = e.1.did := by
            intro r hr hin
            obtain ⟨_, _, hmem, _⟩ := hev r hr
            obtain ⟨k', hk1, hk2, hk3⟩ := hmem _ hin
            have := hinj k' hk1 k hkk hk2
            subst this
            rw [hd] at hk3
            exact (Option.some.inj hk3).symm
          simp only [flagOk, hd, Bool.and_eq_true, beq_iff_eq, List.all_eq_true, Bool.or_eq_true, bne_iff_ne,
            ne_eq]
          refine ⟨⟨?_, ?_⟩, ?_⟩
          · exact filter_length_one (·.did) _ dups hdidN e.1 hedups (by simpa using hkin)
              (fun r hr hpr => hother r hr (by simpa using hpr))
          · exact filter_length_one (·.did) _ dups hdidN e.1 hedups (by simpa using hkin)
              (fun r hr hpr => by
                simp only [Bool.and_eq_true, beq_iff_eq] at hpr
                exact hpr.1)
          · intro k' hk'
            by_cases htx : k'.tx = k.tx
            · right
              have := realisesSubs_event_alone q subs plain evs hs hidxN e he k hke k' (hp.mem_iff.1 hk') htx
              exact hdupe k' this
            · exact Or.inl htx
    · refine ((hdp.map (·.did)).nodup_iff).mpr ?_
      rw [List.map_map]
      exact hnd
    · intro k hkk
      obtain ⟨i, l', hso, _, hm⟩ := hk k hkk
      refine hm (wfhSubs_subOf T q subs hws i l' hso) ?_
      have : k.nodes.Sublist (Node.nodesL kids) := by
        rw [nodesL_eq_flatMap']
        exact sublist_flatMap_of_mem Node.nodes kids k hkk
      exact hNL.sublist (this.map _)

/-! ### 4. exact registries -/

theorem mem_allNodes (H : Ham) (x : Node) :
    x ∈ Node.nodesL H.forest ++ H.singletons ↔ ∃ l ∈ H.allLocs, l.node = x := by
  rw [← allLocs_nodes, List.mem_map]

theorem regExact_of {H : Ham} (ok : ForestOK H) : H.regExact = true := by
  simp only [Ham.regExact, List.all_eq_true, Bool.and_eq_true, decide_eq_true_eq, List.contains_eq_mem]
  intro t ht
  have hint : H.tree.isInternalAt t = true := (List.mem_filter.mp ht).2
  refine ⟨⟨?_, ?_⟩, ?_⟩
  · exact ok.regk.sublist ((List.filter_sublist).map _)
  · intro k hk
    obtain ⟨e, he, rfl⟩ := List.mem_map.mp hk
    obtain ⟨her, het⟩ := List.mem_filter.mp he
    have het' : e.1 = t := by simpa using het
    have h1 := ok.reg.mem_iff.mp her
    rw [regOfL_eq_hogsL, List.mem_map] at h1
    obtain ⟨x, hx, rfl⟩ := h1
    rw [hogs_eq_nodes_filter.hogsL_eq] at hx
    obtain ⟨l, hl, rfl⟩ := (mem_allNodes H x).mp (List.mem_append_left _ (List.mem_filter.mp hx).1)
    exact List.mem_map.mpr ⟨l, List.mem_filter.mpr ⟨hl, by simpa using het'⟩, rfl⟩
  · intro k hk
    obtain ⟨l, hl, rfl⟩ := List.mem_map.mp hk
    obtain ⟨hla, hlt⟩ := List.mem_filter.mp hl
    have hlt' : l.node.tx = t := by simpa using hlt
    have hx := (mem_allNodes H l.node).mpr ⟨l, hla, rfl⟩
    have hnotleaf : H.tree.isLeafAt t = true → False := fun h => leaf_not_internal _ _ h hint
    rcases List.mem_append.mp hx with hx | hx
    · have hng : l.node.isGene = false := by
        cases hg : l.node.isGene with
        | false => rfl
        | true =>
          have := (ok.shape _ hx).1 hg
          rw [hlt'] at this
          exact (hnotleaf this).elim
      have hh : l.node ∈ Node.hogsL H.forest := by
        rw [hogs_eq_nodes_filter.hogsL_eq]
        exact List.mem_filter.mpr ⟨hx, by simp [hng]⟩
      have hr : (l.node.tx, l.node.key) ∈ H.reg := by
        apply ok.reg.mem_iff.mpr
        rw [regOfL_eq_hogsL]
        exact List.mem_map.mpr ⟨_, hh, rfl⟩
      exact List.mem_map.mpr ⟨_, List.mem_filter.mpr ⟨hr, by simpa using hlt'⟩, rfl⟩
    · rw [singletons_eq] at hx
      obtain ⟨g, hg, hge⟩ := List.mem_map.mp hx
      have := ok.gleaf g (List.mem_filter.mp hg).1
      have htx : l.node.tx = g.tx := by rw [← hge]; rfl
      rw [← htx, hlt'] at this
      exact (hnotleaf this).elim

/-! ### 5. the capstone, full predicate -/

/-- **every consistent dataset loads into an analysis satisfying the whole predicate `Ham.wf`**,
    with exact genome registries and exact genome sizes -/
theorem loaded_consistent_wf (D : Dataset) (hc : D.Consistent) :
    ∃ H, load D.T D.nm D.file = .ok H ∧ H.wf = true ∧ H.regExact = true ∧ H.sizesExact = true := by
  obtain ⟨H, hload, htree, ok, htops⟩ := loaded_core D hc
  refine ⟨H, hload, ?_, regExact_of ok, sizes_of ok⟩
  have hkeys := keys_nodup_of ok
  simp only [Ham.wf, Bool.and_eq_true, List.all_eq_true, decide_eq_true_eq, Bool.not_eq_true',
    Option.isNone_iff_eq_none]
  refine ⟨⟨⟨?_, hkeys⟩, ok.gids⟩, ok.gleaf⟩
  intro p hp
  obtain ⟨hdup, f, hf, hr⟩ := htops p hp
  obtain ⟨hwg, hw, _⟩ := hc.fams_ok f hf
  have hN : (p.2.nodes.map Node.key).Nodup := by
    rw [keys_eq] at hkeys
    have h1 : p.2.nodes.Sublist (Node.nodesL H.forest) := by
      rw [nodesL_eq_flatMap']
      exact sublist_flatMap_of_mem Node.nodes H.forest p.2 (List.mem_map.mpr ⟨p, hp, rfl⟩)
    exact hkeys.sublist ((h1.trans (List.sublist_append_left _ _)).map _)
  refine ⟨⟨⟨⟨realises_aligned f.1 f.2 p.2 hr, realises_disciplined D.T f.1 f.2 p.2 hw hr⟩, ?_⟩, hdup⟩, ?_⟩
  · rw [htree]
    exact realises_eventsOk D.T f.1 f.2 p.2 hr hw hN
  · cases hl : f.2 with
    | gene _ _ => rw [hl] at hwg; simp [isWrittenGrp] at hwg
    | grp w hid label subs =>
      rw [hl] at hr
      simp only [Realises] at hr
      obtain ⟨info, d, kids, dups, hn, _⟩ := hr
      rw [hn]
      rfl

end Pyham
