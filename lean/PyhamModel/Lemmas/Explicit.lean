/-
  C03 for fully explicit encodings: when every group of the history is written out, loading the
  encoding of a history yields a HOG that realises the history.
-/
import PyhamModel.Model.Realises
import PyhamModel.Lemmas.TreeLemmas
import PyhamModel.Lemmas.Leaves
namespace Pyham

mutual
/-- every group of the history is written (no elided single-member levels) -/
def explicit : SL → Bool
  | .gene _ _ => true
  | .grp w _ _ subs => w && explicitSubs subs
def explicitSubs : List Sub → Bool
  | [] => true
  | .one _ l :: r => explicit l && explicitSubs r
  | .dup _ _ cs :: r => explicitCopies cs && explicitSubs r
  | .ann _ :: r => explicitSubs r
def explicitCopies : List SL → Bool
  | [] => true
  | c :: cs => explicit c && explicitCopies cs
end

mutual
/-- the genes of a history with the leaf each lives at -/
def geneTaxaSL (q : Taxon) : SL → List (String × Taxon)
  | .gene id _ => [(id, q)]
  | .grp _ _ _ subs => geneTaxaSubs q subs
def geneTaxaSubs (q : Taxon) : List Sub → List (String × Taxon)
  | [] => []
  | .one i l :: r => geneTaxaSL (i :: q) l ++ geneTaxaSubs q r
  | .dup i _ cs :: r => geneTaxaCopies (i :: q) cs ++ geneTaxaSubs q r
  | .ann _ :: r => geneTaxaSubs q r
def geneTaxaCopies (q : Taxon) : List SL → List (String × Taxon)
  | [] => []
  | c :: cs => geneTaxaSL q c ++ geneTaxaCopies q cs
end

/-- every gene of the history is declared in the species of its leaf -/
def Declared (env : Env) (q : Taxon) (l : SL) : Prop := ∀ e ∈ geneTaxaSL q l, env.lookupGene e.1 = some e.2

/-- node names are unambiguous (what an accepted taxonomy plus resolvable species names give) -/
def NamesInj (T : STree) (nm : Naming) : Prop :=
  ∀ t t' s, T.nameAt nm t = some s → T.nameAt nm t' = some s → t = t'

/-- parser state between two top-level families: no paralogGroup open, duplication ids fresh -/
def Idle (ps : PS) : Prop :=
  ps.pstack = [] ∧ ps.inPG = none ∧ ps.cur = none ∧ ∀ b ∈ ps.dstore, b.did < ps.next

def isGrp : SL → Bool
  | .grp .. => true
  | _ => false

/-! ### list helpers -/

theorem mem_dedup {α} [BEq α] [LawfulBEq α] (x : α) : (l : List α) → (x ∈ dedup l ↔ x ∈ l)
  | [] => by simp [dedup]
  | y :: ys => by
    simp only [dedup, List.mem_cons, List.mem_filter, mem_dedup x ys, bne_iff_ne, ne_eq]
    by_cases h : x = y <;> simp [h]

theorem dedup_nodup {α} [BEq α] [LawfulBEq α] : (l : List α) → (dedup l).Nodup
  | [] => by simp [dedup]
  | y :: ys => by
    simp only [dedup, List.nodup_cons]
    exact ⟨by simp, (dedup_nodup ys).sublist List.filter_sublist⟩

theorem dedup_filter_ne {α} [BEq α] [LawfulBEq α] (x : α) : (l : List α) →
    (dedup l).filter (· != x) = dedup (l.filter (· != x))
  | [] => by simp [dedup]
  | y :: ys => by
    by_cases h : y = x
    · subst h
      simp only [dedup, List.filter_cons, bne_self_eq_false, Bool.false_eq_true, if_false, List.filter_filter,
        Bool.and_self]
      exact dedup_filter_ne y ys
    · have h' : (y != x) = true := by simpa using h
      simp only [dedup, List.filter_cons, h', if_true, List.filter_filter, ← dedup_filter_ne x ys]
      congr 1
      apply List.filter_congr
      intro a _
      exact Bool.and_comm _ _

/-! ### taxa one level below `p` -/

theorem mrca2_parent_child (i : Nat) (p : Taxon) : mrca2 p (i :: p) = p :=
  (mrca2_eq_left_iff _ _).mpr (List.suffix_cons _ _)

theorem mrca2_siblings (i j : Nat) (p : Taxon) (h : i ≠ j) : mrca2 (i :: p) (j :: p) = p := by
  have h1 : p <:+ mrca2 (i :: p) (j :: p) :=
    mrca2_greatest _ _ _ (List.suffix_cons _ _) (List.suffix_cons _ _)
  have h2 := mrca2_suffix_left (i :: p) (j :: p)
  have h3 := mrca2_suffix_right (i :: p) (j :: p)
  rcases List.suffix_cons_iff.mp h2 with h2 | h2
  · rw [h2] at h3
    rcases List.suffix_cons_iff.mp h3 with h3 | h3
    · simp only [List.cons.injEq] at h3; exact absurd h3.1 h
    · have := h3.length_le; simp at this; omega
  · exact suffix_antisymm h2 h1

theorem foldl_mrca2_parent (p : Taxon) : (ts : List Taxon) → (∀ t ∈ ts, ∃ i, t = i :: p) →
    ts.foldl mrca2 p = p
  | [], _ => rfl
  | t :: ts, h => by
    obtain ⟨i, rfl⟩ := h t (by simp)
    simp only [List.foldl_cons, mrca2_parent_child]
    exact foldl_mrca2_parent p ts (fun t ht => h t (by simp [ht]))

theorem mrca_children (p : Taxon) (a b : Taxon) (rest : List Taxon) (hab : a ≠ b)
    (h : ∀ t ∈ a :: b :: rest, ∃ i, t = i :: p) : mrca (a :: b :: rest) = p := by
  obtain ⟨i, rfl⟩ := h a (by simp)
  obtain ⟨j, rfl⟩ := h b (by simp)
  have hij : i ≠ j := fun e => hab (by rw [e])
  simp only [mrca, List.foldl_cons, mrca2_siblings i j p hij]
  exact foldl_mrca2_parent p rest (fun t ht => h t (by simp [ht]))

theorem nameAt_isSome_of_internal (T : STree) (nm : Naming) (p : Taxon) (h : T.isInternalAt p = true) :
    ∃ s, T.nameAt nm p = some s := by
  unfold STree.isInternalAt at h
  unfold STree.nameAt
  cases hs : T.sub p with
  | none => simp [hs] at h
  | some t => exact ⟨_, rfl⟩

theorem inferLevel_explicit (env : Env) (hn : NamesInj env.T env.nm) (hb : HogBuild) (p : Taxon)
    (hp : ∃ s, env.T.nameAt env.nm p = some s)
    (hprops : hb.info.props.lookup "TaxRange" = none ∨
      hb.info.props.lookup "TaxRange" = some (nameOrEmpty env.T env.nm p))
    (hne : hb.kids ≠ []) (htx : ∀ k ∈ hb.kids, ∃ i, k.tx = i :: p) :
    inferLevel env hb = .ok (.at p) := by
  have hmem : ∀ t ∈ dedup (hb.kids.map Node.tx), ∃ i, t = i :: p := by
    intro t ht
    rw [mem_dedup, List.mem_map] at ht
    obtain ⟨k, hk, rfl⟩ := ht
    exact htx k hk
  unfold inferLevel
  cases hd : dedup (hb.kids.map Node.tx) with
  | nil =>
    exfalso
    cases hk : hb.kids with
    | nil => exact hne hk
    | cons k ks =>
      have : k.tx ∈ dedup (hb.kids.map Node.tx) := by
        rw [mem_dedup, hk]; simp
      rw [hd] at this; cases this
  | cons a r =>
    cases r with
    | nil =>
      obtain ⟨i, rfl⟩ := hmem a (by rw [hd]; simp)
      simp only [Taxon.up]
      split
      · rename_i v n hv hg
        have hvn : (v == n) = false := by
          simp only [beq_eq_false_iff_ne, ne_eq]
          intro he
          subst he
          rcases hprops with h1 | h1
          · rw [h1] at hv; cases hv
          · rw [h1] at hv
            obtain ⟨s, hs⟩ := hp
            have h2 : nameOrEmpty env.T env.nm p = s := by simp [nameOrEmpty, hs]
            rw [h2] at hv
            cases hv
            have := hn _ _ _ hg hs
            have := congrArg List.length this
            simp at this
        simp [hvn]
      · simp
    | cons b r' =>
      have hab : a ≠ b := by
        have : b ∈ (dedup (hb.kids.map Node.tx)) := by rw [hd]; simp
        intro e
        subst e
        have hnd := dedup_nodup (hb.kids.map Node.tx)
        rw [hd] at hnd
        simp at hnd
      simp only
      rw [mrca_children p a b r' hab (fun t ht => hmem t (by rw [hd]; exact ht))]

theorem liftLevel_explicit (ps : PS) (p : Taxon) : (kids : List Node) →
    (∀ k ∈ kids, ∀ d, k.dup = some d → ∃ b, ps.getDup d = some b ∧ b.mrca = some p) →
    liftLevel ps kids p = .ok p
  | [], _ => rfl
  | k :: ks, h => by
    have ih := liftLevel_explicit ps p ks (fun k hk => h k (by simp [hk]))
    unfold liftLevel
    cases hd : k.dup with
    | none => simpa using ih
    | some d =>
      obtain ⟨b, hb, hm⟩ := h k (by simp) d hd
      have hpa : isProperAncestor p p = false := by
        cases hh : isProperAncestor p p with
        | false => rfl
        | true => exact absurd rfl ((isProperAncestor_iff p p).mp hh).2
      simp only [hb, hm, hpa, Bool.false_eq_true, if_false]
      exact ih

/-! ### the duplication store -/

def addMems (ks : List Key) (b : DupBuild) : DupBuild := { b with members := b.members ++ ks }

theorem addMems_did (ks : List Key) (b : DupBuild) : (addMems ks b).did = b.did := rfl

theorem addMems_addMems (a c : List Key) (b : DupBuild) : addMems c (addMems a b) = addMems (a ++ c) b := by
  simp [addMems, List.append_assoc]

theorem addMems_nil (b : DupBuild) : addMems [] b = b := by simp [addMems]

theorem find_modDup (d d0 : Nat) (f : DupBuild → DupBuild) (hf : ∀ b, (f b).did = b.did) :
    (l : List DupBuild) →
    (l.map fun b => if b.did == d then f b else b).find? (·.did == d0) =
      if d0 = d then (l.find? (·.did == d0)).map f else l.find? (·.did == d0)
  | [] => by simp
  | b :: bs => by
    have ih := find_modDup d d0 f hf bs
    simp only [List.map_cons, List.find?_cons]
    by_cases h1 : b.did = d
    · subst h1
      simp only [beq_self_eq_true, if_true, hf]
      by_cases h2 : b.did = d0
      · subst h2; simp
      · have h2' : (b.did == d0) = false := by simpa using h2
        simp only [h2']
        exact ih
    · have h1' : (b.did == d) = false := by simpa using h1
      simp only [h1', Bool.false_eq_true, if_false]
      by_cases h2 : b.did = d0
      · subst h2
        simp [h1]
      · have h2' : (b.did == d0) = false := by simpa using h2
        simp only [h2']
        exact ih

theorem getDup_modDup (ps : PS) (d d0 : Nat) (f : DupBuild → DupBuild) (hf : ∀ b, (f b).did = b.did) :
    (ps.modDup d f).getDup d0 = if d0 = d then (ps.getDup d0).map f else ps.getDup d0 :=
  find_modDup d d0 f hf ps.dstore

theorem modDup_dids (ps : PS) (d : Nat) (f : DupBuild → DupBuild) (hf : ∀ b, (f b).did = b.did) :
    (ps.modDup d f).dstore.map (·.did) = ps.dstore.map (·.did) := by
  simp only [PS.modDup, List.map_map]
  apply List.map_congr_left
  intro b _
  simp only [Function.comp]
  split
  · exact hf b
  · rfl

/-- every stored duplication was created before the counter reached its present value -/
def DidsBelow (ps : PS) : Prop := ∀ d ∈ ps.dstore.map (·.did), d < ps.next

theorem getDup_none_of_didsBelow (ps : PS) (h : DidsBelow ps) (d : Nat) (hd : ps.next ≤ d) :
    ps.getDup d = none := by
  unfold PS.getDup
  rw [List.find?_eq_none]
  intro b hb
  have := h b.did (List.mem_map.mpr ⟨b, hb, rfl⟩)
  simp only [beq_iff_eq]
  omega

theorem getDup_newDup (ps : PS) (pgid : Option String) (h : DidsBelow ps) (d0 : Nat) :
    (newDup ps pgid).2.getDup d0 =
      if d0 = ps.next then some { did := ps.next, pgid := pgid, members := [], mrca := none }
      else ps.getDup d0 := by
  simp only [newDup, PS.getDup, List.find?_append]
  by_cases h0 : d0 = ps.next
  · subst h0
    have := getDup_none_of_didsBelow ps h ps.next (Nat.le_refl _)
    unfold PS.getDup at this
    simp [this]
  · have : (ps.next == d0) = false := by simpa using (Ne.symm h0)
    simp [h0, this]

theorem didsBelow_newDup (ps : PS) (pgid : Option String) (h : DidsBelow ps) : DidsBelow (newDup ps pgid).2 := by
  intro d hd
  simp only [newDup, List.map_append, List.mem_append, List.map_cons, List.map_nil, List.mem_singleton] at hd
  rcases hd with hd | hd
  · have := h d hd; show d < ps.next + 1; omega
  · show d < ps.next + 1; omega

/-! ### the parser-state invariant -/

def flagAt (len : Nat) (ps : PS) : Option Nat := if ps.inPG == some len then ps.cur else none

structure PInv (len : Nat) (ps : PS) : Prop where
  depth : ∀ f ∈ ps.pstack, f.depth ≤ len
  inpg : ps.inPG = ps.pstack.head?.map (·.depth)
  cur : ps.cur = ps.pstack.head?.map (·.did)
  dids : DidsBelow ps

/-- what every step leaves alone: the paralog frames; the counter only grows -/
structure Fr (ps ps' : PS) : Prop where
  pstack : ps'.pstack = ps.pstack
  inpg : ps'.inPG = ps.inPG
  cur : ps'.cur = ps.cur
  next : ps.next ≤ ps'.next
  dids : DidsBelow ps'

theorem Fr.trans {a b c : PS} (h1 : Fr a b) (h2 : Fr b c) : Fr a c :=
  ⟨h2.pstack.trans h1.pstack, h2.inpg.trans h1.inpg, h2.cur.trans h1.cur,
    Nat.le_trans h1.next h2.next, h2.dids⟩

theorem PInv.of_fr {len : Nat} {ps ps' : PS} (h : PInv len ps) (f : Fr ps ps') : PInv len ps' :=
  ⟨by rw [f.pstack]; exact h.depth, by rw [f.pstack, f.inpg]; exact h.inpg,
    by rw [f.pstack, f.cur]; exact h.cur, f.dids⟩

theorem PInv.mono {len : Nat} {ps : PS} (h : PInv len ps) : PInv (len + 1) ps :=
  ⟨fun f hf => Nat.le_succ_of_le (h.depth f hf), h.inpg, h.cur, h.dids⟩

theorem flagAt_fr {len : Nat} {ps ps' : PS} (f : Fr ps ps') : flagAt len ps' = flagAt len ps := by
  simp [flagAt, f.inpg, f.cur]

theorem flagAt_succ_of_pinv {len : Nat} {ps : PS} (h : PInv len ps) : flagAt (len + 1) ps = none := by
  unfold flagAt
  rw [h.inpg]
  cases hp : ps.pstack with
  | nil => simp
  | cons f fs =>
    have := h.depth f (by rw [hp]; simp)
    have hne : f.depth ≠ len + 1 := by omega
    simp [hne]

/-! ### closing a group whose children all sit one level below -/

theorem setDup_setDup (a b : Option Nat) (n : Node) : (n.setDup a).setDup b = n.setDup b := by
  cases n <;> rfl

theorem setDup_self (n : Node) (d : Option Nat) (h : n.dup = d) : n.setDup d = n := by
  cases n <;> simp_all [Node.setDup, Node.dup]

theorem eraseKey_perm : (K : List Node) → (c : Node) → (K.map Node.key).Nodup → c ∈ K →
    (eraseKey c.key K ++ [c]).Perm K
  | [], c, _, hc => by cases hc
  | n :: ns, c, hnd, hc => by
    simp only [List.map_cons, List.nodup_cons] at hnd
    simp only [eraseKey]
    by_cases hk : n.key = c.key
    · have hnc : c = n := by
        rcases List.mem_cons.mp hc with h | h
        · exact h
        · exfalso; apply hnd.1; rw [hk]; exact List.mem_map.mpr ⟨c, h, rfl⟩
      subst hnc
      simp only [beq_self_eq_true, if_true]
      exact List.perm_append_singleton _ _
    · have hk' : (n.key == c.key) = false := by simpa using hk
      simp only [hk', Bool.false_eq_true, if_false, List.cons_append]
      have hcn : c ∈ ns := by
        rcases List.mem_cons.mp hc with h | h
        · subst h; exact absurd rfl hk
        · exact h
      exact (eraseKey_perm ns c hnd.2 hcn).cons n

theorem rehomeDirect_explicit (hid : Option String) (p : Taxon) (d : Nat) :
    (cs K : List Node) → (mem : List Key) → (ps : PS) → (K.map Node.key).Nodup →
    (∀ c ∈ cs, c ∈ K ∧ c.dup = some d ∧ pathUp c.tx p = [] ∧ c.key ∈ mem) →
    ∃ K' mem', rehomeDirect hid p d cs K mem ps = .ok (K', mem', ps) ∧ K'.Perm K ∧ mem'.Perm mem
  | [], K, mem, ps, _, _ => ⟨K, mem, rfl, .refl _, .refl _⟩
  | c :: cs, K, mem, ps, hnd, h => by
    obtain ⟨hcK, hcd, hpath, hcm⟩ := h c (by simp)
    have hK' : (eraseKey c.key K ++ [c]).Perm K := eraseKey_perm K c hnd hcK
    have hmem' : (mem.erase c.key ++ [c.key]).Perm mem :=
      (List.perm_append_singleton _ _).trans (List.perm_cons_erase hcm).symm
    obtain ⟨K', mem', he, hp1, hp2⟩ := rehomeDirect_explicit hid p d cs (eraseKey c.key K ++ [c])
      (mem.erase c.key ++ [c.key]) ps ((hK'.map Node.key).nodup_iff.mpr hnd) (by
        intro c' hc'
        obtain ⟨h1, h2, h3, h4⟩ := h c' (by simp [hc'])
        exact ⟨hK'.mem_iff.mpr h1, h2, h3, hmem'.mem_iff.mpr h4⟩)
    refine ⟨K', mem', ?_, hp1.trans hK', hp2.trans hmem'⟩
    have hcm' : mem.contains c.key = true := by simpa using hcm
    simp only [rehomeDirect, bind, Except.bind, hpath, addMissing, setDup_setDup, setDup_key,
      setDup_self c (some d) hcd, hcm', Bool.not_true, Bool.false_eq_true, if_false]
    exact he

theorem sameKeys_of_perm {a b : List Key} (h : a.Perm b) : sameKeys a b = true := by
  simp only [sameKeys, Bool.and_eq_true, List.all_eq_true, List.contains_iff_mem]
  exact ⟨fun x hx => h.mem_iff.mp hx, fun x hx => h.mem_iff.mpr hx⟩

theorem dupStep_explicit (hid : Option String) (p : Taxon) (st : CloseSt) (d : Nat) (b : DupBuild)
    (hg : st.ps.getDup d = some b) (hm : b.mrca = some p)
    (hnd : (st.kids.map Node.key).Nodup) (htx : ∀ k ∈ st.kids, ∃ i, k.tx = i :: p)
    (hmem : b.members.Perm ((st.kids.filter (fun k => k.dup == some d)).map Node.key)) :
    ∃ st' mem', dupStep hid p st d = .ok st' ∧ st'.kids.Perm st.kids ∧ mem'.Perm b.members ∧
      st'.dups = st.dups ++ [{ did := d, pgid := b.pgid, mrca := p, members := mem' }] ∧
      st'.ps = st.ps.modDup d (fun b => { b with members := mem' }) := by
  obtain ⟨K', mem', he, hp1, hp2⟩ := rehomeDirect_explicit hid p d (st.kids.filter (fun k => k.dup == some d))
    st.kids b.members st.ps hnd (by
      intro c hc
      rw [List.mem_filter] at hc
      obtain ⟨hc1, hc2⟩ := hc
      obtain ⟨i, hi⟩ := htx c hc1
      refine ⟨hc1, by simpa using hc2, by rw [hi]; exact pathUp_adjacent i p, ?_⟩
      apply hmem.mem_iff.mpr
      exact List.mem_map.mpr ⟨c, List.mem_filter.mpr ⟨hc1, hc2⟩, rfl⟩)
  refine ⟨{ kids := K', dups := st.dups ++ [{ did := d, pgid := b.pgid, mrca := p, members := mem' }],
            ps := st.ps.modDup d (fun b => { b with members := mem' }) }, mem', ?_, hp1, hp2, rfl, rfl⟩
  simp only [dupStep, bind, Except.bind, hg, hm, sameKeys_of_perm hmem, Bool.not_true, Bool.false_eq_true,
    if_false, bne_self_eq_false, he]

/-- relation between an event as recorded while reading (`e`) and as recorded at the close (`e'`) -/
def EvRel (p : Taxon) (e e' : DupRec × List Node) : Prop :=
  e'.2 = e.2 ∧ e'.1.did = e.1.did ∧ e'.1.pgid = e.1.pgid ∧ e'.1.mrca = p ∧ e'.1.members.Perm e.1.members

inductive EvRelL (p : Taxon) : List (DupRec × List Node) → List (DupRec × List Node) → Prop
  | nil : EvRelL p [] []
  | cons {e e' es es'} : EvRel p e e' → EvRelL p es es' → EvRelL p (e :: es) (e' :: es')

/-- the store holds the event: its members are the keys of its copies, its level is `p` -/
def EvOK (p : Taxon) (ps : PS) (e : DupRec × List Node) : Prop :=
  e.1.members = e.2.map Node.key ∧
    ps.getDup e.1.did = some { did := e.1.did, pgid := e.1.pgid, members := e.1.members, mrca := some p }

/-- only the contents of stored duplications changed -/
structure FrD (ps ps' : PS) : Prop where
  pstack : ps'.pstack = ps.pstack
  inpg : ps'.inPG = ps.inPG
  cur : ps'.cur = ps.cur
  next : ps'.next = ps.next
  dids : ps'.dstore.map (·.did) = ps.dstore.map (·.did)

theorem FrD.refl (ps : PS) : FrD ps ps := ⟨rfl, rfl, rfl, rfl, rfl⟩

theorem FrD.trans {a b c : PS} (h1 : FrD a b) (h2 : FrD b c) : FrD a c :=
  ⟨h2.pstack.trans h1.pstack, h2.inpg.trans h1.inpg, h2.cur.trans h1.cur, h2.next.trans h1.next,
    h2.dids.trans h1.dids⟩

theorem FrD.modDup (ps : PS) (d : Nat) (f : DupBuild → DupBuild) (hf : ∀ b, (f b).did = b.did) :
    FrD ps (ps.modDup d f) := ⟨rfl, rfl, rfl, rfl, modDup_dids ps d f hf⟩

theorem FrD.register (ps : PS) (t : Taxon) (k : Key) : FrD ps (ps.register t k) := ⟨rfl, rfl, rfl, rfl, rfl⟩

theorem getDup_register (ps : PS) (t : Taxon) (k : Key) (d : Nat) : (ps.register t k).getDup d = ps.getDup d := rfl

theorem FrD.toFr {ps ps' : PS} (h : FrD ps ps') (hd : DidsBelow ps) : Fr ps ps' :=
  ⟨h.pstack, h.inpg, h.cur, by rw [h.next]; exact Nat.le_refl _, by
    intro d hd'; rw [h.dids] at hd'; rw [h.next]; exact hd d hd'⟩

theorem dupSteps_explicit (hid : Option String) (p : Taxon) :
    (evs : List (DupRec × List Node)) → (st : CloseSt) →
    (st.kids.map Node.key).Nodup → (∀ k ∈ st.kids, ∃ i, k.tx = i :: p) → (evs.map (·.1.did)).Nodup →
    (∀ e ∈ evs, (st.kids.filter (fun k => k.dup == some e.1.did)).Perm e.2 ∧ EvOK p st.ps e) →
    ∃ st' evs', dupSteps hid p (evs.map (·.1.did)) st = .ok st' ∧ st'.kids.Perm st.kids ∧
      st'.dups = st.dups ++ evs'.map (·.1) ∧ EvRelL p evs evs' ∧ FrD st.ps st'.ps ∧
      ∀ d0, d0 ∉ evs.map (·.1.did) → st'.ps.getDup d0 = st.ps.getDup d0
  | [], st, _, _, _, _ => ⟨st, [], rfl, .refl _, by simp, .nil, FrD.refl _, fun _ _ => rfl⟩
  | e :: evs, st, hnd, htx, hdn, hev => by
    obtain ⟨hfil, hmemk, hget⟩ := hev e (by simp)
    simp only [List.map_cons, List.nodup_cons] at hdn
    obtain ⟨st1, mem', hstep, hk1, hm1, hd1, hps1⟩ := dupStep_explicit hid p st e.1.did _ hget rfl hnd htx
      (by simp only; rw [hmemk]; exact (hfil.map Node.key).symm)
    have hf : ∀ b : DupBuild, ({ b with members := mem' } : DupBuild).did = b.did := fun _ => rfl
    obtain ⟨st', evs', hsteps, hk2, hd2, hrel, hfr, hgd⟩ := dupSteps_explicit hid p evs st1
      ((hk1.map Node.key).nodup_iff.mpr hnd) (fun k hk => htx k (hk1.mem_iff.mp hk)) hdn.2 (by
        intro e2 he2
        obtain ⟨h1, h2, h3⟩ := hev e2 (by simp [he2])
        refine ⟨(hk1.filter _).trans h1, h2, ?_⟩
        rw [hps1, getDup_modDup _ _ _ _ hf]
        have hne : e2.1.did ≠ e.1.did := by
          intro heq
          apply hdn.1
          rw [← heq]
          exact List.mem_map.mpr ⟨e2, he2, rfl⟩
        rw [if_neg hne]
        exact h3)
    refine ⟨st', ({ did := e.1.did, pgid := e.1.pgid, mrca := p, members := mem' }, e.2) :: evs', ?_,
      hk2.trans hk1, ?_, .cons ⟨rfl, rfl, rfl, rfl, hm1⟩ hrel, ?_, ?_⟩
    · simp only [List.map_cons, dupSteps, bind, Except.bind, hstep]
      exact hsteps
    · rw [hd2, hd1]; simp
    · rw [hps1] at hfr
      exact (FrD.modDup _ _ _ hf).trans hfr
    · intro d0 hd0
      simp only [List.map_cons, List.mem_cons, not_or] at hd0
      rw [hgd d0 hd0.2, hps1, getDup_modDup _ _ _ _ hf, if_neg hd0.1]

theorem filter_change_nil (K : List Node) (p : Taxon) (h : ∀ k ∈ K, ∃ i, k.tx = i :: p) :
    K.filter (fun c => c.tx.length != p.length + 1) = [] := by
  rw [List.filter_eq_nil_iff]
  intro k hk
  obtain ⟨i, hi⟩ := h k hk
  simp [hi]

theorem closeOg_explicit (env : Env) (hn : NamesInj env.T env.nm) (top : Bool) (hb : HogBuild) (ps : PS)
    (p : Taxon) (evs : List (DupRec × List Node))
    (hp : ∃ s, env.T.nameAt env.nm p = some s)
    (hprops : hb.info.props.lookup "TaxRange" = none ∨
      hb.info.props.lookup "TaxRange" = some (nameOrEmpty env.T env.nm p))
    (hne : hb.kids ≠ []) (htx : ∀ k ∈ hb.kids, ∃ i, k.tx = i :: p)
    (hnd : (hb.kids.map Node.key).Nodup)
    (hdg : dupGroups hb.kids = evs.map (·.1.did))
    (hev : ∀ e ∈ evs, (hb.kids.filter (fun k => k.dup == some e.1.did)).Perm e.2 ∧ EvOK p ps e) :
    ∃ K' evs' ps', closeOg env top hb ps = .ok ([Node.hog hb.info p hb.dup K' (evs'.map (·.1))], ps') ∧
      K'.Perm hb.kids ∧ EvRelL p evs evs' ∧ FrD ps ps' ∧
      ∀ d0, d0 ∉ evs.map (·.1.did) → ps'.getDup d0 = ps.getDup d0 := by
  have hinf := inferLevel_explicit env hn hb p hp hprops hne htx
  have hlift : liftLevel ps hb.kids p = .ok p := by
    apply liftLevel_explicit
    intro k hk d hd
    have : d ∈ dupGroups hb.kids := by
      unfold dupGroups
      rw [mem_dedup, List.mem_filterMap]
      exact ⟨k, hk, hd⟩
    rw [hdg, List.mem_map] at this
    obtain ⟨e, he, rfl⟩ := this
    exact ⟨_, (hev e he).2.2, rfl⟩
  have hdn : (evs.map (·.1.did)).Nodup := by rw [← hdg]; exact dedup_nodup _
  obtain ⟨st', evs', hsteps, hk, hd, hrel, hfr, hgd⟩ := dupSteps_explicit hb.info.hid p evs
    { kids := hb.kids, dups := [], ps := ps.register p (.h hb.info.uid) } hnd htx hdn hev
  refine ⟨st'.kids, evs', st'.ps, ?_, hk, hrel, (FrD.register _ _ _).trans hfr, hgd⟩
  have hch := filter_change_nil st'.kids p (fun k hk' => htx k (hk.mem_iff.mp hk'))
  simp only [closeOg, bind, Except.bind, hinf, hlift, hdg, hsteps, hch, genericPass, hd, List.nil_append]

theorem EvRelL.flat {p : Taxon} : {evs evs' : List (DupRec × List Node)} → EvRelL p evs evs' →
    evs'.flatMap (·.2) = evs.flatMap (·.2)
  | _, _, .nil => rfl
  | _, _, .cons h hr => by
    simp only [List.flatMap_cons, h.1, hr.flat]

theorem EvRelL.dids {p : Taxon} : {evs evs' : List (DupRec × List Node)} → EvRelL p evs evs' →
    evs'.map (·.1.did) = evs.map (·.1.did)
  | _, _, .nil => rfl
  | _, _, .cons h hr => by
    simp only [List.map_cons, h.2.1, hr.dids]

/-- `RealisesSubs` only looks at the id, label and level of a record, and at its members as a set -/
theorem realisesSubs_transfer (p : Taxon) : (subs : List Sub) → (plain : List Node) →
    (evs evs' : List (DupRec × List Node)) → RealisesSubs p subs plain evs → EvRelL p evs evs' →
    RealisesSubs p subs plain evs'
  | [], plain, evs, evs', h, hr => by
    simp only [RealisesSubs] at h ⊢
    obtain ⟨rfl, rfl⟩ := h
    cases hr
    exact ⟨rfl, rfl⟩
  | .one i l :: r, plain, evs, evs', h, hr => by
    simp only [RealisesSubs] at h ⊢
    obtain ⟨k, plain', rfl, hk, hR, hrest⟩ := h
    exact ⟨k, plain', rfl, hk, hR, realisesSubs_transfer p r plain' evs evs' hrest hr⟩
  | .dup i pgid cs :: r, plain, evs, evs', h, hr => by
    simp only [RealisesSubs] at h ⊢
    obtain ⟨rec, ks, evs0, rfl, hm, hpg, hperm, hdup, hcop, hrest⟩ := h
    cases hr with
    | cons he hr' =>
      rename_i e' es'
      obtain ⟨h1, h2, h3, h4, h5⟩ := he
      simp only at h1 h2 h3 h4 h5
      refine ⟨e'.1, e'.2, es', rfl, h4, h3.trans hpg, ?_, ?_, ?_, realisesSubs_transfer p r plain evs0 es' hrest hr'⟩
      · rw [h1]; exact h5.trans hperm
      · rw [h1, h2]; exact hdup
      · rw [h1]; exact hcop
  | .ann _ :: r, plain, evs, evs', h, hr => by
    simp only [RealisesSubs] at h ⊢
    exact realisesSubs_transfer p r plain evs evs' h hr

/-! ### distinct identities among the children read so far -/

/-- keys are distinct, HOG ids were handed out before `N`, gene ids are not among the genes `G`
    still to be read -/
def KInv (kids : List Node) (N : Nat) (G : List String) : Prop :=
  (kids.map Node.key).Nodup ∧ (∀ k ∈ kids, ∀ u, k.key = Key.h u → u < N) ∧
    (∀ k ∈ kids, ∀ id, k.key = Key.g id → id ∉ G)

/-- the identity of the node a lineage is read into -/
def KeySpec (l : SL) (n : Node) (N N' : Nat) : Prop :=
  (∃ id ∈ genesOf l, n.key = .g id) ∨ (∃ u, n.key = .h u ∧ N ≤ u ∧ u < N')

theorem KInv.nil (N : Nat) (G : List String) : KInv [] N G :=
  ⟨by simp, by simp, by simp⟩

theorem KInv.step {kids : List Node} {N N' : Nat} {G1 G2 : List String} {n : Node}
    (h : KInv kids N (G1 ++ G2)) (hG : (G1 ++ G2).Nodup)
    (hk : (∃ id ∈ G1, n.key = .g id) ∨ (∃ u, n.key = .h u ∧ N ≤ u ∧ u < N')) (hN : N ≤ N') :
    KInv (kids ++ [n]) N' G2 := by
  obtain ⟨h1, h2, h3⟩ := h
  refine ⟨?_, ?_, ?_⟩
  · rw [List.map_append, List.nodup_append]
    refine ⟨h1, by simp, ?_⟩
    intro a ha b hb hab
    simp only [List.map_cons, List.map_nil, List.mem_singleton] at hb
    subst hb
    subst hab
    obtain ⟨k, hk1, hk2⟩ := List.mem_map.mp ha
    rcases hk with ⟨id, hid, hkey⟩ | ⟨u, hkey, hu1, hu2⟩
    · exact h3 k hk1 id (hk2.trans hkey) (List.mem_append_left _ hid)
    · have := h2 k hk1 u (hk2.trans hkey); omega
  · intro k hk' u hu
    rcases List.mem_append.mp hk' with hk' | hk'
    · have := h2 k hk' u hu; omega
    · simp only [List.mem_singleton] at hk'
      subst hk'
      rcases hk with ⟨id, _, hkey⟩ | ⟨u', hkey, _, hu2⟩
      · rw [hkey] at hu; cases hu
      · rw [hkey] at hu; cases hu; exact hu2
  · intro k hk' id hid
    rcases List.mem_append.mp hk' with hk' | hk'
    · intro hc; exact h3 k hk' id hid (List.mem_append_right _ hc)
    · simp only [List.mem_singleton] at hk'
      subst hk'
      rcases hk with ⟨id', hid', hkey⟩ | ⟨u', hkey, _, _⟩
      · rw [hkey] at hid; cases hid
        intro hc
        exact (List.nodup_append.mp hG).2.2 id hid' id hc rfl
      · rw [hkey] at hid; cases hid

theorem KInv.weaken {kids : List Node} {N N' : Nat} {G G' : List String}
    (h : KInv kids N G) (hN : N ≤ N') (hG : ∀ x ∈ G', x ∈ G) : KInv kids N' G' :=
  ⟨h.1, fun k hk u hu => Nat.lt_of_lt_of_le (h.2.1 k hk u hu) hN,
    fun k hk id hid hc => h.2.2 k hk id hid (hG id hc)⟩

/-! ### sequencing -/

theorem elems_cons_ok {env : Env} {len : Nat} {e : Elem} {es : List Elem} {hb hb1 : HogBuild} {ps ps1 : PS}
    (h : elem env len e hb ps = .ok (hb1, ps1)) :
    elems env len (e :: es) hb ps = elems env len es hb1 ps1 := by
  simp only [elems, bind, Except.bind, h]

theorem elems_append_ok {env : Env} {len : Nat} : (a : List Elem) → {b : List Elem} → {hb hb1 : HogBuild} →
    {ps ps1 : PS} → elems env len a hb ps = .ok (hb1, ps1) →
    elems env len (a ++ b) hb ps = elems env len b hb1 ps1
  | [], b, hb, hb1, ps, ps1, h => by
    simp only [elems, Except.ok.injEq, Prod.mk.injEq] at h
    obtain ⟨rfl, rfl⟩ := h
    rfl
  | e :: es, b, hb, hb1, ps, ps1, h => by
    simp only [elems, bind, Except.bind] at h
    split at h
    · cases h
    · rename_i v hv
      obtain ⟨hb2, ps2⟩ := v
      simp only [List.cons_append]
      rw [elems_cons_ok hv]
      exact elems_append_ok es h

theorem topElems_append_ok {env : Env} {flt : HogFilter} : (a : List Elem) → {b : List Elem} →
    {tops tops1 : List Node} → {ps ps1 : PS} → topElems env flt a tops ps = .ok (tops1, ps1) →
    topElems env flt (a ++ b) tops ps = topElems env flt b tops1 ps1
  | [], b, tops, tops1, ps, ps1, h => by
    simp only [topElems, Except.ok.injEq, Prod.mk.injEq] at h
    obtain ⟨rfl, rfl⟩ := h
    rfl
  | e :: es, b, tops, tops1, ps, ps1, h => by
    simp only [topElems, bind, Except.bind] at h
    split at h
    · cases h
    · rename_i v hv
      obtain ⟨t2, ps2⟩ := v
      simp only [List.cons_append, topElems, bind, Except.bind, hv]
      exact topElems_append_ok es h

/-! ### opening and closing a paralogGroup -/

theorem pgOpen_spec (len : Nat) (pgid : Option String) (ps : PS) (h : PInv len ps) :
    (pgOpen (len + 1) pgid ps).pstack = { depth := len + 1, did := ps.next, size := 0 } :: ps.pstack ∧
    (pgOpen (len + 1) pgid ps).inPG = some (len + 1) ∧
    (pgOpen (len + 1) pgid ps).cur = some ps.next ∧
    (pgOpen (len + 1) pgid ps).next = ps.next + 1 ∧
    DidsBelow (pgOpen (len + 1) pgid ps) ∧
    ∀ d0, (pgOpen (len + 1) pgid ps).getDup d0 =
      if d0 = ps.next then some { did := ps.next, pgid := pgid, members := [], mrca := none }
      else ps.getDup d0 := by
  have hg := getDup_newDup ps pgid h.dids
  have key : pgOpen (len + 1) pgid ps =
      { (newDup ps pgid).2 with
        pstack := { depth := len + 1, did := ps.next, size := 0 } :: ps.pstack,
        inPG := some (len + 1), cur := some ps.next } := by
    unfold pgOpen
    split
    rename_i did ps1 hp
    have hnd : did = ps.next ∧ ps1 = (newDup ps pgid).2 := by
      have : (did, ps1) = newDup ps pgid := by
        rw [← hp]
        split
        · rename_i f fs hst
          have := h.depth f (by simp [hst])
          have hne : (f.depth == len + 1) = false := by simp; omega
          simp [hne]
        · rfl
      exact ⟨congrArg Prod.fst this, congrArg Prod.snd this⟩
    obtain ⟨rfl, rfl⟩ := hnd
    rw [hg]
    simp only [if_true]
    rfl
  rw [key]
  refine ⟨rfl, rfl, rfl, rfl, didsBelow_newDup ps pgid h.dids, hg⟩

theorem findKey_of_mem : (kids : List Node) → (k : Node) → (kids.map Node.key).Nodup → k ∈ kids →
    findKey k.key kids = some k
  | [], k, _, hk => by cases hk
  | n :: ns, k, hnd, hk => by
    simp only [List.map_cons, List.nodup_cons] at hnd
    simp only [findKey, List.find?_cons]
    by_cases hkey : n.key = k.key
    · have : k = n := by
        rcases List.mem_cons.mp hk with h | h
        · exact h
        · exfalso; apply hnd.1; rw [hkey]; exact List.mem_map.mpr ⟨k, h, rfl⟩
      subst this
      simp
    · have hkey' : (n.key == k.key) = false := by simpa using hkey
      simp only [hkey']
      have hkn : k ∈ ns := by
        rcases List.mem_cons.mp hk with h | h
        · subst h; exact absurd rfl hkey
        · exact h
      exact findKey_of_mem ns k hnd.2 hkn

theorem mapM_findKey (kids : List Node) (hnd : (kids.map Node.key).Nodup) : (ks : List Node) →
    (∀ k ∈ ks, k ∈ kids) →
    (ks.map Node.key).mapM (fun k => (findKey k kids).map Node.tx) = some (ks.map Node.tx)
  | [], _ => rfl
  | k :: ks, h => by
    have ih := mapM_findKey kids hnd ks (fun k hk => h k (by simp [hk]))
    simp only [List.map_cons, List.mapM_cons, findKey_of_mem kids k hnd (h k (by simp)), ih]
    rfl

theorem dedup_const {α} [BEq α] [LawfulBEq α] (t : α) : (l : List α) → l ≠ [] → (∀ x ∈ l, x = t) →
    dedup l = [t]
  | [], h, _ => absurd rfl h
  | x :: xs, _, h => by
    have hx := h x (by simp)
    subst hx
    simp only [dedup, List.cons.injEq, true_and, List.filter_eq_nil_iff, mem_dedup]
    intro a ha
    simp [h a (by simp [ha])]

theorem setMRCA_explicit (kids : List Node) (ps : PS) (d : Nat) (b : DupBuild) (ks : List Node)
    (i : Nat) (p : Taxon)
    (hg : ps.getDup d = some b) (hm : b.members = ks.map Node.key) (hne : ks ≠ [])
    (hks : ∀ k ∈ ks, k ∈ kids ∧ k.tx = i :: p) (hnd : (kids.map Node.key).Nodup) :
    setMRCA kids ps d = .ok (ps.modDup d fun b => { b with mrca := some p }) := by
  have h1 := mapM_findKey kids hnd ks (fun k hk => (hks k hk).1)
  have h2 : dedup (ks.map Node.tx) = [i :: p] := by
    apply dedup_const
    · simpa using hne
    · intro x hx
      obtain ⟨k, hk, rfl⟩ := List.mem_map.mp hx
      exact (hks k hk).2
  simp only [setMRCA, hg, hm, h1, h2, Taxon.up]

theorem pgClose_explicit (kids : List Node) (ps : PS) (f : PFrame) (fs : List PFrame) (b : DupBuild)
    (ks : List Node) (i : Nat) (p : Taxon)
    (hst : ps.pstack = f :: fs) (hsz : f.size = 0)
    (hg : ps.getDup f.did = some b) (hm : b.members = ks.map Node.key) (hne : ks ≠ [])
    (hks : ∀ k ∈ ks, k ∈ kids ∧ k.tx = i :: p) (hnd : (kids.map Node.key).Nodup) :
    ∃ ps', pgClose kids ps = .ok ps' ∧ ps'.pstack = fs ∧ ps'.inPG = fs.head?.map (·.depth) ∧
      ps'.cur = fs.head?.map (·.did) ∧ ps'.next = ps.next ∧
      ps'.dstore.map (·.did) = ps.dstore.map (·.did) ∧
      ∀ d0, ps'.getDup d0 = if d0 = f.did then some { b with mrca := some p } else ps.getDup d0 := by
  have hf : ∀ b : DupBuild, ({ b with mrca := some p } : DupBuild).did = b.did := fun _ => rfl
  have hset := setMRCA_explicit kids { ps with pstack := fs } f.did b ks i p hg hm hne hks hnd
  have hlen : (b.members.length == f.size) = false := by
    rw [hm, hsz]
    cases ks with
    | nil => exact absurd rfl hne
    | cons k ks => simp
  have hgd : ∀ d0, (({ ps with pstack := fs } : PS).modDup f.did fun b => { b with mrca := some p }).getDup d0 =
      if d0 = f.did then some { b with mrca := some p } else ps.getDup d0 := by
    intro d0
    rw [getDup_modDup _ _ _ _ hf]
    by_cases h0 : d0 = f.did
    · subst h0
      simp only [if_true]
      show Option.map _ (ps.getDup f.did) = _
      rw [hg]; rfl
    · simp only [if_neg h0]; rfl
  have hdd : (({ ps with pstack := fs } : PS).modDup f.did fun b => { b with mrca := some p }).dstore.map (·.did) =
      ps.dstore.map (·.did) := modDup_dids _ _ _ hf
  cases fs with
  | nil =>
    refine ⟨{ (({ ps with pstack := [] } : PS).modDup f.did fun b => { b with mrca := some p }) with
      inPG := none, cur := none }, ?_, rfl, rfl, rfl, rfl, hdd, hgd⟩
    simp only [pgClose, hst, bind, Except.bind, hg, hlen, hset]
    rfl
  | cons g gs =>
    refine ⟨{ (({ ps with pstack := g :: gs } : PS).modDup f.did fun b => { b with mrca := some p }) with
      inPG := some g.depth, cur := some g.did }, ?_, rfl, rfl, rfl, rfl, hdd, hgd⟩
    simp only [pgClose, hst, bind, Except.bind, hg, hlen, hset]
    rfl

/-! ### single elements, in success form -/

/-- the optional `add_member` call when an element is read inside a paralogGroup -/
def bump (ps : PS) (flag : Option Nat) (k : Key) : PS :=
  match flag with
  | some d => ps.addMember d k
  | none => ps

theorem bump_frd (ps : PS) (flag : Option Nat) (k : Key) : FrD ps (bump ps flag k) := by
  cases flag with
  | none => exact FrD.refl _
  | some d => exact FrD.modDup ps d _ (fun _ => rfl)

theorem bump_getDup (ps : PS) (flag : Option Nat) (k : Key) (d0 : Nat) :
    (bump ps flag k).getDup d0 = if flag = some d0 then (ps.getDup d0).map (addMems [k]) else ps.getDup d0 := by
  cases flag with
  | none => simp [bump]
  | some d =>
    show (ps.modDup d (addMems [k])).getDup d0 = _
    rw [getDup_modDup ps d d0 (addMems [k]) (fun _ => rfl)]
    by_cases h : d0 = d
    · subst h; simp
    · have : ¬ (some d = some d0) := by simp; exact fun e => h e.symm
      simp [h, this]

theorem elem_ref_ok {env : Env} {len : Nat} {id : String} {loft : Option String} {hb : HogBuild} {ps : PS}
    {t : Taxon} (h : env.lookupGene id = some t) :
    elem env len (.ref id loft) hb ps =
      .ok ({ hb with kids := hb.kids ++ [Node.gene id t (flagAt len ps) loft] }, bump ps (flagAt len ps) (.g id)) := by
  simp only [elem, h]
  rfl

theorem elem_pg_ok {env : Env} {len : Nat} {pgid : Option String} {its : List Elem} {hb hb1 : HogBuild}
    {ps ps1 ps2 : PS} (h1 : elems env len its hb (pgOpen len pgid ps) = .ok (hb1, ps1))
    (h2 : pgClose hb1.kids ps1 = .ok ps2) :
    elem env len (.pg pgid its) hb ps = .ok (hb1, ps2) := by
  simp only [elem, bind, Except.bind, h1, h2]

theorem elem_og_ok {env : Env} {len : Nat} {hid og : Option String} {its : List Elem} {hb nb : HogBuild}
    {ps ps2 ps3 : PS} {res : List Node}
    (h1 : elems env (len + 1) its { info := newInfo ps.next hid og, dup := flagAt len ps, kids := [] }
      (bump { ps with next := ps.next + 1 } (flagAt len ps) (.h ps.next)) = .ok (nb, ps2))
    (h2 : closeOg env false nb ps2 = .ok (res, ps3)) :
    elem env len (.og hid og its) hb ps = .ok ({ hb with kids := hb.kids ++ res }, ps3) := by
  simp only [elem, bind, Except.bind]
  split
  · rename_i e he
    have := he.symm.trans h1
    cases this
  · rename_i v hv
    have := hv.symm.trans h1
    cases this
    simp only [h2]

theorem topElem_og_ok {env : Env} {hid og : Option String} {its : List Elem} {tops : List Node} {nb : HogBuild}
    {ps ps2 ps3 : PS} {res : List Node}
    (h1 : elems env 1 its { info := newInfo ps.next hid og, dup := flagAt 0 ps, kids := [] }
      (bump { ps with next := ps.next + 1 } (flagAt 0 ps) (.h ps.next)) = .ok (nb, ps2))
    (h2 : closeOg env true nb ps2 = .ok (res, ps3)) :
    topElem env none (.og hid og its) tops ps = .ok (tops ++ res, ps3) := by
  simp only [topElem, bind, Except.bind, pure, Except.pure, Bool.not_true, Bool.false_eq_true, if_false]
  split
  · rename_i e he
    have := he.symm.trans h1
    cases this
  · rename_i v hv
    have := hv.symm.trans h1
    cases this
    simp only [h2]

theorem lookup_dictSet_ne (k n v : String) (h : k ≠ n) (d : List (String × String)) :
    (dictSet d n v).lookup k = d.lookup k := by
  have h' : (k == n) = false := by simpa using h
  have h1 : ∀ d : List (String × String),
      (d.map fun e => if e.1 == n then (n, v) else e).lookup k = d.lookup k := by
    intro d
    induction d with
    | nil => rfl
    | cons e es ih =>
      obtain ⟨a, b⟩ := e
      simp only [List.map_cons]
      by_cases hk : a = n
      · subst hk
        simp only [beq_self_eq_true, if_true, List.lookup_cons, h']
        exact ih
      · have hk' : (a == n) = false := by simpa using hk
        simp only [hk', Bool.false_eq_true, if_false, List.lookup_cons]
        cases k == a
        · exact ih
        · rfl
  have h2 : ∀ d : List (String × String), (d ++ [(n, v)]).lookup k = d.lookup k := by
    intro d
    induction d with
    | nil => simp [List.lookup, h']
    | cons e es ih =>
      obtain ⟨a, b⟩ := e
      simp only [List.cons_append, List.lookup_cons]
      cases k == a
      · exact ih
      · rfl
  unfold dictSet
  split
  · exact h1 d
  · exact h2 d

theorem dupGroups_flagged (d : Nat) (ks new : List Node) (hne : ks ≠ []) (hks : ∀ k ∈ ks, k.dup = some d)
    (hnew : ∀ k ∈ new, k.dup ≠ some d) : dupGroups (ks ++ new) = d :: dupGroups new := by
  cases ks with
  | nil => exact absurd rfl hne
  | cons k ks' =>
    have hk := hks k (by simp)
    unfold dupGroups
    simp only [List.cons_append, List.filterMap_cons, hk, dedup, dedup_filter_ne, List.filterMap_append,
      List.filter_append]
    congr 2
    have h1 : (ks'.filterMap Node.dup).filter (· != d) = [] := by
      rw [List.filter_eq_nil_iff]
      intro a ha
      obtain ⟨x, hx, hxa⟩ := List.mem_filterMap.mp ha
      rw [hks x (by simp [hx])] at hxa
      cases hxa
      simp
    have h2 : (new.filterMap Node.dup).filter (· != d) = new.filterMap Node.dup := by
      rw [List.filter_eq_self]
      intro a ha
      obtain ⟨x, hx, hxa⟩ := List.mem_filterMap.mp ha
      simp only [bne_iff_ne, ne_eq]
      intro e
      subst e
      exact hnew x hx hxa
    rw [h1, h2, List.nil_append]

/-! ### what reading a lineage / the sub-branches of a group / the copies of a duplication yields -/

def LinRes (env : Env) (q : Taxon) (len : Nat) (l : SL) (hb : HogBuild) (ps : PS) : Prop :=
  ∃ n ps', elems env len (encode env.T env.nm q l) hb ps = .ok ({ hb with kids := hb.kids ++ [n] }, ps') ∧
    n.tx = q ∧ n.dup = flagAt len ps ∧ Realises q l n ∧ KeySpec l n ps.next ps'.next ∧ Fr ps ps' ∧
    ∀ d0, d0 < ps.next → ps'.getDup d0 =
      if flagAt len ps = some d0 then (ps.getDup d0).map (addMems [n.key]) else ps.getDup d0

def CopRes (env : Env) (q : Taxon) (len : Nat) (cs : List SL) (G2 : List String) (hb : HogBuild) (ps : PS) :
    Prop :=
  ∃ ks ps', elems env len (encodeCopies env.T env.nm q cs) hb ps = .ok ({ hb with kids := hb.kids ++ ks }, ps') ∧
    RealisesCopies q cs ks ∧ (∀ k ∈ ks, k.tx = q ∧ k.dup = flagAt len ps) ∧ ks.length = cs.length ∧
    KInv (hb.kids ++ ks) ps'.next G2 ∧ Fr ps ps' ∧
    ∀ d0, d0 < ps.next → ps'.getDup d0 =
      if flagAt len ps = some d0 then (ps.getDup d0).map (addMems (ks.map Node.key)) else ps.getDup d0

def SubsRes (env : Env) (p : Taxon) (len : Nat) (subs : List Sub) (hb : HogBuild) (ps : PS) : Prop :=
  ∃ hb' ps' new plain evs,
    elems env (len + 1) (encodeSubs env.T env.nm p subs) hb ps = .ok (hb', ps') ∧
    hb'.kids = hb.kids ++ new ∧ hb'.dup = hb.dup ∧ hb'.info.uid = hb.info.uid ∧
    hb'.info.props.lookup "TaxRange" = hb.info.props.lookup "TaxRange" ∧
    RealisesSubs p subs plain evs ∧ new.Perm (plain ++ evs.flatMap (·.2)) ∧
    dupGroups new = evs.map (·.1.did) ∧
    (∀ e ∈ evs, new.filter (fun k => k.dup == some e.1.did) = e.2 ∧ EvOK p ps' e ∧
      ps.next ≤ e.1.did ∧ e.1.did < ps'.next) ∧
    (∀ k ∈ new, ∃ i, k.tx = i :: p) ∧
    (∀ k ∈ new, ∀ d, k.dup = some d → ps.next ≤ d ∧ d < ps'.next) ∧
    realSubs subs ≤ new.length ∧
    KInv hb'.kids ps'.next [] ∧ Fr ps ps' ∧ ∀ d0, d0 < ps.next → ps'.getDup d0 = ps.getDup d0

theorem Fr.refl_of {ps : PS} (h : DidsBelow ps) : Fr ps ps := ⟨rfl, rfl, rfl, Nat.le_refl _, h⟩

/-- a written group: reading its items (given what reading its sub-branches yields) and closing it -/
theorem ogClose (env : Env) (hn : NamesInj env.T env.nm) (q : Taxon) (len : Nat) (top : Bool)
    (hid : Option String) (label : Bool) (subs : List Sub) (ps : PS)
    (hw : wfh env.T q (.grp true hid label subs) = true) (hinv : PInv len ps)
    (hB : ∀ hb ps, PInv len ps → KInv hb.kids ps.next (genesOfSubs subs) → SubsRes env q len subs hb ps) :
    ∃ nb ps2 n ps3,
      elems env (len + 1)
        ((if label then [Elem.prop "TaxRange" (nameOrEmpty env.T env.nm q)] else []) ++
          encodeSubs env.T env.nm q subs)
        { info := newInfo ps.next hid none, dup := flagAt len ps, kids := [] }
        (bump { ps with next := ps.next + 1 } (flagAt len ps) (.h ps.next)) = .ok (nb, ps2) ∧
      closeOg env top nb ps2 = .ok ([n], ps3) ∧
      n.tx = q ∧ n.dup = flagAt len ps ∧ n.key = .h ps.next ∧
      Realises q (.grp true hid label subs) n ∧ Fr ps ps3 ∧ ps.next < ps3.next ∧
      ∀ d0, d0 < ps.next → ps3.getDup d0 =
        if flagAt len ps = some d0 then (ps.getDup d0).map (addMems [.h ps.next]) else ps.getDup d0 := by
  simp only [wfh, Bool.and_eq_true, decide_eq_true_eq] at hw
  obtain ⟨⟨⟨⟨hint, hreal⟩, _⟩, _⟩, _⟩ := hw
  -- the state after the optional add_member
  generalize hps1 : bump { ps with next := ps.next + 1 } (flagAt len ps) (.h ps.next) = ps1
  have hfrd : FrD { ps with next := ps.next + 1 } ps1 := by rw [← hps1]; exact bump_frd _ _ _
  have hg1 : ∀ d0, ps1.getDup d0 =
      if flagAt len ps = some d0 then (ps.getDup d0).map (addMems [.h ps.next]) else ps.getDup d0 := by
    intro d0; rw [← hps1, bump_getDup]; rfl
  have hn1 : ps1.next = ps.next + 1 := hfrd.next
  have hdb1 : DidsBelow ps1 := by
    intro d hd
    rw [hfrd.dids] at hd
    have := hinv.dids d hd
    omega
  have hfr1 : Fr ps ps1 := ⟨hfrd.pstack, hfrd.inpg, hfrd.cur, by omega, hdb1⟩
  have hinv1 : PInv len ps1 := hinv.of_fr hfr1
  -- the label
  obtain ⟨hb0, hlbl, hk0, hd0, hu0, hp0⟩ : ∃ hb0 : HogBuild,
      (∀ es, elems env (len + 1)
        ((if label then [Elem.prop "TaxRange" (nameOrEmpty env.T env.nm q)] else []) ++ es)
        { info := newInfo ps.next hid none, dup := flagAt len ps, kids := [] } ps1 =
        elems env (len + 1) es hb0 ps1) ∧ hb0.kids = [] ∧ hb0.dup = flagAt len ps ∧
      hb0.info.uid = ps.next ∧
      (hb0.info.props.lookup "TaxRange" = none ∨
        hb0.info.props.lookup "TaxRange" = some (nameOrEmpty env.T env.nm q)) := by
    cases label with
    | false => exact ⟨_, fun es => rfl, rfl, rfl, rfl, Or.inl rfl⟩
    | true =>
      refine ⟨{ info := { newInfo ps.next hid none with
                  props := dictSet (newInfo ps.next hid none).props "TaxRange" (nameOrEmpty env.T env.nm q) },
                dup := flagAt len ps, kids := [] }, fun es => ?_, rfl, rfl, rfl, Or.inr ?_⟩
      · simp only [if_true, List.cons_append, List.nil_append, elems, elem, bind, Except.bind]
      · simp [newInfo, dictSet]
  obtain ⟨hb', ps2, new, plain, evs, hel, hkids, hdup, huid, hprops, hreal', hperm, hdg, hev, htx, hfl, hlen,
    hkinv, hfr2, hg2⟩ := hB hb0 ps1 hinv1 (by rw [hk0]; exact KInv.nil _ _)
  rw [hk0, List.nil_append] at hkids
  have hp : ∃ s, env.T.nameAt env.nm q = some s := nameAt_isSome_of_internal _ _ _ hint
  obtain ⟨K', evs', ps3, hclose, hK', hrel, hfrd3, hg3⟩ := closeOg_explicit env hn top hb' ps2 q evs hp
    (by rw [hprops]; exact hp0)
    (by rw [hkids]; intro h; rw [h] at hlen; simp at hlen; omega)
    (by rw [hkids]; exact htx) hkinv.1 (by rw [hkids]; exact hdg)
    (by intro e he; rw [hkids, (hev e he).1]; exact ⟨.refl _, (hev e he).2.1⟩)
  have hfr3 : Fr ps2 ps3 := hfrd3.toFr hfr2.dids
  refine ⟨hb', ps2, _, ps3, ?_, hclose, rfl, hdup.trans hd0, by simp [Node.key, huid, hu0], ?_,
    (hfr1.trans hfr2).trans hfr3, ?_, ?_⟩
  · rw [hlbl]; exact hel
  · simp only [Realises]
    refine ⟨_, _, _, _, rfl, plain, evs', ?_, .refl _, ?_, realisesSubs_transfer q subs plain evs evs' hreal' hrel⟩
    · rw [hrel.flat]
      exact (hK'.trans (by rw [hkids])).trans hperm
    · have : (evs'.map (·.1.did)) = evs.map (·.1.did) := hrel.dids
      rw [this, ← hdg]
      exact dedup_nodup _
  · have := hfr2.next; have := hfr3.next; omega
  · intro d0 hd0'
    rw [hg3 d0, hg2 d0 (by omega), hg1 d0]
    intro hmem
    obtain ⟨e, he, hed⟩ := List.mem_map.mp hmem
    have := (hev e he).2.2.1
    omega

/-! ### the main induction over the history -/

mutual
theorem lin_main (env : Env) (hn : NamesInj env.T env.nm) : (l : SL) → (q : Taxon) → (len : Nat) →
    (hb : HogBuild) → (ps : PS) → wfh env.T q l = true → explicit l = true →
    (∀ e ∈ geneTaxaSL q l, env.lookupGene e.1 = some e.2) → (genesOf l).Nodup → PInv len ps →
    LinRes env q len l hb ps
  | .gene id loft, q, len, hb, ps, _, _, hdecl, _, hinv => by
    have hlook : env.lookupGene id = some q := hdecl (id, q) (by simp [geneTaxaSL])
    have hfrd := bump_frd ps (flagAt len ps) (.g id)
    refine ⟨Node.gene id q (flagAt len ps) loft, bump ps (flagAt len ps) (.g id), ?_, rfl, rfl, ?_,
      Or.inl ⟨id, by simp [genesOf], rfl⟩, hfrd.toFr hinv.dids, fun d0 _ => bump_getDup _ _ _ _⟩
    · simp only [encode]
      rw [elems_cons_ok (elem_ref_ok hlook)]
      rfl
    · simp only [Realises]
      exact ⟨_, rfl⟩
  | .grp w hid label subs, q, len, hb, ps, hw, hex, hdecl, hnd, hinv => by
    simp only [explicit, Bool.and_eq_true] at hex
    obtain ⟨rfl, hexs⟩ := hex
    have hw' := hw
    simp only [wfh, Bool.and_eq_true, decide_eq_true_eq] at hw'
    obtain ⟨_, hws⟩ := hw'
    simp only [genesOf] at hnd
    obtain ⟨nb, ps2, n, ps3, h1, h2, htx, hdup, hkey, hR, hfr, hlt, hg⟩ :=
      ogClose env hn q len false hid label subs ps hw hinv
        (fun hb' ps' hi hk => subs_main env hn subs q len hb' ps' hws hexs
          (by simpa [geneTaxaSL] using hdecl) hnd hi hk)
    refine ⟨n, ps3, ?_, htx, hdup, hR, Or.inr ⟨ps.next, hkey, Nat.le_refl _, hlt⟩, hfr, ?_⟩
    · simp only [encode]
      rw [elems_cons_ok (elem_og_ok h1 h2)]
      rfl
    · intro d0 hd0
      rw [hkey]
      exact hg d0 hd0

theorem subs_main (env : Env) (hn : NamesInj env.T env.nm) : (subs : List Sub) → (p : Taxon) → (len : Nat) →
    (hb : HogBuild) → (ps : PS) → wfhSubs env.T p subs = true → explicitSubs subs = true →
    (∀ e ∈ geneTaxaSubs p subs, env.lookupGene e.1 = some e.2) → (genesOfSubs subs).Nodup → PInv len ps →
    KInv hb.kids ps.next (genesOfSubs subs) → SubsRes env p len subs hb ps
  | [], p, len, hb, ps, _, _, _, _, hinv, hk => by
    refine ⟨hb, ps, [], [], [], rfl, by simp, rfl, rfl, rfl, ?_, by simp, rfl, by simp, by simp, by simp,
      by simp [realSubs], ?_, Fr.refl_of hinv.dids, fun _ _ => rfl⟩
    · simp [RealisesSubs]
    · simpa [genesOfSubs] using hk
  | .one i l :: r, p, len, hb, ps, hw, hex, hdecl, hnd, hinv, hk => by
    simp only [wfhSubs, Bool.and_eq_true] at hw
    simp only [explicitSubs, Bool.and_eq_true] at hex
    simp only [genesOfSubs] at hnd hk
    have hdecl1 : ∀ e ∈ geneTaxaSL (i :: p) l, env.lookupGene e.1 = some e.2 :=
      fun e he => hdecl e (by simp [geneTaxaSubs, he])
    have hdecl2 : ∀ e ∈ geneTaxaSubs p r, env.lookupGene e.1 = some e.2 :=
      fun e he => hdecl e (by simp [geneTaxaSubs, he])
    obtain ⟨n, ps1, hel, htx, hdup, hR, hkey, hfr1, hg1⟩ := lin_main env hn l (i :: p) (len + 1) hb ps
      hw.1 hex.1 hdecl1 (List.nodup_append.mp hnd).1 hinv.mono
    rw [flagAt_succ_of_pinv hinv] at hdup hg1
    have hinv1 : PInv len ps1 := hinv.of_fr hfr1
    have hk1 : KInv (hb.kids ++ [n]) ps1.next (genesOfSubs r) := hk.step hnd hkey hfr1.next
    obtain ⟨hb', ps', new, plain, evs, hel', hkids, hdup', huid, hprops, hreal, hperm, hdg, hev, htx', hfl,
      hlen, hkinv, hfr2, hg2⟩ := subs_main env hn r p len { hb with kids := hb.kids ++ [n] } ps1 hw.2 hex.2
        hdecl2 (List.nodup_append.mp hnd).2.1 hinv1 hk1
    have hn1 := hfr1.next
    refine ⟨hb', ps', n :: new, n :: plain, evs, ?_, ?_, hdup', huid, hprops, ?_, ?_, ?_, ?_, ?_, ?_, ?_, hkinv,
      hfr1.trans hfr2, ?_⟩
    · simp only [encodeSubs]
      rw [elems_append_ok _ hel]
      exact hel'
    · rw [hkids]; simp
    · simp only [RealisesSubs]
      exact ⟨n, plain, rfl, hdup, hR, hreal⟩
    · exact hperm.cons n
    · rw [← hdg]
      simp [dupGroups, hdup]
    · intro e he
      obtain ⟨h1, h2, h3, h4⟩ := hev e he
      refine ⟨?_, h2, by omega, h4⟩
      rw [← h1]
      simp [hdup]
    · intro k hk'
      rcases List.mem_cons.mp hk' with rfl | h
      · exact ⟨i, htx⟩
      · exact htx' k h
    · intro k hk' d hd
      rcases List.mem_cons.mp hk' with rfl | h
      · rw [hdup] at hd; cases hd
      · have := hfl k h d hd; omega
    · simp [realSubs]; omega
    · intro d0 hd0
      rw [hg2 d0 (by omega), hg1 d0 hd0]
      simp
  | .dup i pgid cs :: r, p, len, hb, ps, hw, hex, hdecl, hnd, hinv, hk => by
    simp only [wfhSubs, Bool.and_eq_true, decide_eq_true_eq] at hw
    obtain ⟨⟨hlen2, hwc⟩, hwr⟩ := hw
    simp only [explicitSubs, Bool.and_eq_true] at hex
    simp only [genesOfSubs] at hnd hk
    have hdecl1 : ∀ e ∈ geneTaxaCopies (i :: p) cs, env.lookupGene e.1 = some e.2 :=
      fun e he => hdecl e (by simp [geneTaxaSubs, he])
    have hdecl2 : ∀ e ∈ geneTaxaSubs p r, env.lookupGene e.1 = some e.2 :=
      fun e he => hdecl e (by simp [geneTaxaSubs, he])
    obtain ⟨o1, o2, o3, o4, o5, o6⟩ := pgOpen_spec len pgid ps hinv
    generalize hps0 : pgOpen (len + 1) pgid ps = ps0 at o1 o2 o3 o4 o5 o6
    have hinv0 : PInv (len + 1) ps0 := by
      refine ⟨?_, by rw [o1, o2]; rfl, by rw [o1, o3]; rfl, o5⟩
      rw [o1]
      intro f hf
      rcases List.mem_cons.mp hf with rfl | h
      · exact Nat.le_refl _
      · exact Nat.le_succ_of_le (hinv.depth f h)
    have hflag : flagAt (len + 1) ps0 = some ps.next := by simp [flagAt, o2, o3]
    have hk0 : KInv hb.kids ps0.next (genesOfCopies cs ++ genesOfSubs r) :=
      hk.weaken (by omega) (fun _ h => h)
    obtain ⟨ks, ps1, hel, hRc, hks, hkl, hkinv1, hfr1, hg1⟩ := cop_main env hn cs (i :: p) (len + 1)
      (genesOfSubs r) hb ps0 hwc hex.1 hdecl1 hnd hinv0 hk0
    rw [hflag] at hks hg1
    have hn1 := hfr1.next
    have hne : ks ≠ [] := by
      intro h; rw [h] at hkl; simp at hkl; omega
    have hgd : ps1.getDup ps.next = some (addMems (ks.map Node.key)
        { did := ps.next, pgid := pgid, members := [], mrca := none }) := by
      rw [hg1 ps.next (by omega), if_pos rfl, o6, if_pos rfl]; rfl
    obtain ⟨ps2, hcl, c1, c2, c3, c4, c5, c6⟩ := pgClose_explicit (hb.kids ++ ks) ps1
      { depth := len + 1, did := ps.next, size := 0 } ps.pstack _ ks i p (by rw [hfr1.pstack, o1]) rfl hgd
      (by simp [addMems]) hne (fun k hk' => ⟨by simp [hk'], (hks k hk').1⟩) hkinv1.1
    have hel1 : elem env (len + 1) (.pg pgid (encodeCopies env.T env.nm (i :: p) cs)) hb ps =
        .ok ({ hb with kids := hb.kids ++ ks }, ps2) := elem_pg_ok (by rw [hps0]; exact hel) hcl
    have hfr2 : Fr ps ps2 := ⟨c1, by rw [c2, hinv.inpg], by rw [c3, hinv.cur], by omega, by
      intro d hd; rw [c5] at hd; rw [c4]; exact hfr1.dids d hd⟩
    have hinv2 : PInv len ps2 := hinv.of_fr hfr2
    have hk2 : KInv (hb.kids ++ ks) ps2.next (genesOfSubs r) := by rw [c4]; exact hkinv1
    obtain ⟨hb', ps', new, plain, evs, hel', hkids, hdup', huid, hprops, hreal, hperm, hdg, hev, htx', hfl,
      hlen, hkinv, hfr3, hg3⟩ := subs_main env hn r p len { hb with kids := hb.kids ++ ks } ps2 hwr hex.2
        hdecl2 (List.nodup_append.mp hnd).2.1 hinv2 hk2
    have hn3 := hfr3.next
    have hd_lt : ps.next < ps2.next := by omega
    have hnew_ne : ∀ k ∈ new, k.dup ≠ some ps.next := by
      intro k hk' hd
      have := (hfl k hk' _ hd).1
      omega
    refine ⟨hb', ps', ks ++ new, plain,
      ({ did := ps.next, pgid := pgid, mrca := p, members := ks.map Node.key }, ks) :: evs, ?_, ?_, hdup', huid,
      hprops, ?_, ?_, ?_, ?_, ?_, ?_, ?_, hkinv, hfr2.trans hfr3, ?_⟩
    · simp only [encodeSubs]
      rw [elems_cons_ok hel1]
      exact hel'
    · rw [hkids]; simp
    · simp only [RealisesSubs]
      exact ⟨_, ks, evs, rfl, rfl, rfl, .refl _, fun k hk' => (hks k hk').2, hRc, hreal⟩
    · simp only [List.flatMap_cons]
      exact (hperm.append_left ks).trans (List.perm_append_comm_assoc _ _ _)
    · rw [dupGroups_flagged ps.next ks new hne (fun k hk' => (hks k hk').2) hnew_ne, hdg]
      rfl
    · intro e he
      rcases List.mem_cons.mp he with rfl | he
      · refine ⟨?_, ⟨rfl, ?_⟩, Nat.le_refl _, by show ps.next < ps'.next; omega⟩
        · simp only [List.filter_append]
          rw [List.filter_eq_self.mpr (fun k hk' => by simp [(hks k hk').2]),
            List.filter_eq_nil_iff.mpr (fun k hk' => by simpa using hnew_ne k hk'), List.append_nil]
        · rw [hg3 _ hd_lt, c6, if_pos rfl]
          simp [addMems]
      · obtain ⟨h1, h2, h3, h4⟩ := hev e he
        refine ⟨?_, h2, by omega, h4⟩
        simp only [List.filter_append]
        rw [List.filter_eq_nil_iff.mpr (fun k hk' => by rw [(hks k hk').2]; simp; omega), List.nil_append, h1]
    · intro k hk'
      rcases List.mem_append.mp hk' with h | h
      · exact ⟨i, (hks k h).1⟩
      · exact htx' k h
    · intro k hk' d hd
      rcases List.mem_append.mp hk' with h | h
      · rw [(hks k h).2] at hd; cases hd; omega
      · have := hfl k h d hd; omega
    · simp [realSubs]; omega
    · intro d0 hd0
      rw [hg3 d0 (by omega), c6, if_neg (by show ¬ d0 = ps.next; omega), hg1 d0 (by omega),
        if_neg (by simp; omega), o6, if_neg (by omega)]
  | .ann e :: r, p, len, hb, ps, hw, hex, hdecl, hnd, hinv, hk => by
    simp only [wfhSubs, Bool.and_eq_true] at hw
    simp only [explicitSubs] at hex
    simp only [genesOfSubs] at hnd hk
    obtain ⟨hb1, hel1, hk1, hd1, hu1, hp1⟩ : ∃ hb1, elem env (len + 1) e hb ps = .ok (hb1, ps) ∧
        hb1.kids = hb.kids ∧ hb1.dup = hb.dup ∧ hb1.info.uid = hb.info.uid ∧
        hb1.info.props.lookup "TaxRange" = hb.info.props.lookup "TaxRange" := by
      cases e with
      | score id v =>
        exact ⟨{ hb with info := { hb.info with scores := dictSet hb.info.scores id v } },
          by simp only [elem], rfl, rfl, rfl, rfl⟩
      | prop n v =>
        have hne : n ≠ "TaxRange" := by simpa [isAnnElem] using hw.1
        exact ⟨{ hb with info := { hb.info with props := dictSet hb.info.props n v } },
          by simp only [elem], rfl, rfl, rfl, lookup_dictSet_ne _ _ _ (Ne.symm hne) _⟩
      | ref _ _ => simp [isAnnElem] at hw
      | og _ _ _ => simp [isAnnElem] at hw
      | pg _ _ => simp [isAnnElem] at hw
    obtain ⟨hb', ps', new, plain, evs, hel', hkids, hdup', huid, hprops, hreal, hperm, hdg, hev, htx', hfl,
      hlen, hkinv, hfr, hg⟩ := subs_main env hn r p len hb1 ps hw.2 hex
        (by simpa [geneTaxaSubs] using hdecl) hnd hinv (by rw [hk1]; exact hk)
    refine ⟨hb', ps', new, plain, evs, ?_, by rw [hkids, hk1], hdup'.trans hd1, huid.trans hu1,
      hprops.trans hp1, by simpa only [RealisesSubs] using hreal, hperm, hdg, hev, htx', hfl,
      by simpa [realSubs] using hlen, hkinv, hfr, hg⟩
    simp only [encodeSubs]
    rw [elems_cons_ok hel1]
    exact hel'

theorem cop_main (env : Env) (hn : NamesInj env.T env.nm) : (cs : List SL) → (q : Taxon) → (len : Nat) →
    (G2 : List String) → (hb : HogBuild) → (ps : PS) → wfhCopies env.T q cs = true →
    explicitCopies cs = true → (∀ e ∈ geneTaxaCopies q cs, env.lookupGene e.1 = some e.2) →
    (genesOfCopies cs ++ G2).Nodup → PInv len ps → KInv hb.kids ps.next (genesOfCopies cs ++ G2) →
    CopRes env q len cs G2 hb ps
  | [], q, len, G2, hb, ps, _, _, _, _, hinv, hk => by
    refine ⟨[], ps, ?_, by simp only [RealisesCopies], by simp, rfl, by simpa [genesOfCopies] using hk,
      Fr.refl_of hinv.dids, ?_⟩
    · simp [encodeCopies, elems]
    · intro d0 _
      split
      · cases ps.getDup d0 <;> simp [addMems_nil]
      · rfl
  | c :: cs, q, len, G2, hb, ps, hw, hex, hdecl, hnd, hinv, hk => by
    simp only [wfhCopies, Bool.and_eq_true] at hw
    simp only [explicitCopies, Bool.and_eq_true] at hex
    simp only [genesOfCopies, List.append_assoc] at hnd hk
    have hdecl1 : ∀ e ∈ geneTaxaSL q c, env.lookupGene e.1 = some e.2 :=
      fun e he => hdecl e (by simp [geneTaxaCopies, he])
    have hdecl2 : ∀ e ∈ geneTaxaCopies q cs, env.lookupGene e.1 = some e.2 :=
      fun e he => hdecl e (by simp [geneTaxaCopies, he])
    obtain ⟨n, ps1, hel, htx, hdup, hR, hkey, hfr1, hg1⟩ := lin_main env hn c q len hb ps hw.1 hex.1 hdecl1
      (List.nodup_append.mp hnd).1 hinv
    have hinv1 := hinv.of_fr hfr1
    have hn1 := hfr1.next
    have hk1 : KInv (hb.kids ++ [n]) ps1.next (genesOfCopies cs ++ G2) := hk.step hnd hkey hfr1.next
    obtain ⟨ks, ps', hel', hRc, hks, hkl, hkinv, hfr2, hg2⟩ := cop_main env hn cs q len G2
      { hb with kids := hb.kids ++ [n] } ps1 hw.2 hex.2 hdecl2 (List.nodup_append.mp hnd).2.1 hinv1 hk1
    rw [flagAt_fr hfr1] at hks hg2
    refine ⟨n :: ks, ps', ?_, ?_, ?_, by simp [hkl], ?_, hfr1.trans hfr2, ?_⟩
    · simp only [encodeCopies]
      rw [elems_append_ok _ hel, hel']
      simp
    · simp only [RealisesCopies]
      exact ⟨n, ks, rfl, hR, hRc⟩
    · intro k hk'
      rcases List.mem_cons.mp hk' with rfl | h
      · exact ⟨htx, hdup⟩
      · exact hks k h
    · simpa using hkinv
    · intro d0 hd0
      rw [hg2 d0 (by omega), hg1 d0 hd0]
      split
      · cases ps.getDup d0 <;> simp [addMems_addMems]
      · rfl
end

/-- **C03 (explicit encodings), one family**: the loader, run on the encoding of a well-formed, fully
    explicit history of a family, appends exactly one top-level HOG, and that HOG realises the history -/
theorem C03_explicit_family (env : Env) (p : Taxon) (l : SL)
    (hg : isGrp l = true) (hw : wfh env.T p l = true) (hex : explicit l = true)
    (hdecl : Declared env p l) (hnd : (genesOf l).Nodup) (hn : NamesInj env.T env.nm)
    (tops : List Node) (ps : PS) (hidle : Idle ps) :
    ∃ n ps', topElems env none (encode env.T env.nm p l) tops ps = .ok (tops ++ [n], ps') ∧
      Realises p l n ∧ n.dup = none ∧ Idle ps' ∧ ps.next ≤ ps'.next := by
  cases l with
  | gene _ _ => simp [isGrp] at hg
  | grp w hid label subs =>
    simp only [explicit, Bool.and_eq_true] at hex
    obtain ⟨rfl, hexs⟩ := hex
    obtain ⟨hst, hin, hcur, hdid⟩ := hidle
    have hinv : PInv 0 ps := ⟨by rw [hst]; simp, by rw [hst, hin]; rfl, by rw [hst, hcur]; rfl, by
      intro d hd
      obtain ⟨b, hb, rfl⟩ := List.mem_map.mp hd
      exact hdid b hb⟩
    have hw' := hw
    simp only [wfh, Bool.and_eq_true, decide_eq_true_eq] at hw'
    obtain ⟨_, hws⟩ := hw'
    simp only [genesOf] at hnd
    obtain ⟨nb, ps2, n, ps3, h1, h2, htx, hdup, hkey, hR, hfr, hlt, hg⟩ :=
      ogClose env hn p 0 true hid label subs ps hw hinv
        (fun hb' ps' hi hk => subs_main env hn subs p 0 hb' ps' hws hexs
          (by simpa [Declared, geneTaxaSL] using hdecl) hnd hi hk)
    refine ⟨n, ps3, ?_, hR, ?_, ?_, by omega⟩
    · simp only [encode, topElems, bind, Except.bind, topElem_og_ok h1 h2]
    · rw [hdup]; simp [flagAt, hin]
    · exact ⟨hfr.pstack.trans hst, hfr.inpg.trans hin, hfr.cur.trans hcur,
        fun b hb => hfr.dids b.did (List.mem_map.mpr ⟨b, hb, rfl⟩)⟩

theorem C03_explicit_aux (env : Env) (hn : NamesInj env.T env.nm) : (fams : List (Taxon × SL)) →
    (∀ f ∈ fams, isGrp f.2 = true ∧ wfh env.T f.1 f.2 = true ∧ explicit f.2 = true ∧ Declared env f.1 f.2 ∧
      (genesOf f.2).Nodup) → (tops : List Node) → (ps : PS) → Idle ps →
    ∃ new ps', topElems env none (fams.flatMap fun f => encode env.T env.nm f.1 f.2) tops ps =
        .ok (tops ++ new, ps') ∧ new.length = fams.length ∧
      ∀ i (h1 : i < new.length) (h2 : i < fams.length), Realises (fams[i]).1 (fams[i]).2 new[i]
  | [], _, tops, ps, _ => ⟨[], ps, by simp [topElems], rfl, fun i h1 => by simp at h1⟩
  | f :: fs, hf, tops, ps, hidle => by
    obtain ⟨hg, hw, hex, hdecl, hnd⟩ := hf f (by simp)
    obtain ⟨n, ps1, h1, hR, _, hidle1, _⟩ :=
      C03_explicit_family env f.1 f.2 hg hw hex hdecl hnd hn tops ps hidle
    obtain ⟨new, ps', h2, hl, hi⟩ := C03_explicit_aux env hn fs (fun g hg => hf g (by simp [hg]))
      (tops ++ [n]) ps1 hidle1
    refine ⟨n :: new, ps', ?_, by simp [hl], ?_⟩
    · simp only [List.flatMap_cons]
      rw [topElems_append_ok _ h1, h2]
      simp
    · intro i h1' h2'
      cases i with
      | zero => exact hR
      | succ i =>
        simp only [List.getElem_cons_succ]
        exact hi i (by simpa using h1') (by simpa using h2')

/-- **C03 (explicit encodings), whole file**: all families are loaded, in order, each realising its
    history -/
theorem C03_explicit (env : Env) (fams : List (Taxon × SL))
    (hf : ∀ f ∈ fams, isGrp f.2 = true ∧ wfh env.T f.1 f.2 = true ∧ explicit f.2 = true ∧ Declared env f.1 f.2 ∧
      (genesOf f.2).Nodup)
    (hn : NamesInj env.T env.nm) :
    ∃ tops ps, topElems env none (fams.flatMap fun f => encode env.T env.nm f.1 f.2) [] {} = .ok (tops, ps) ∧
      tops.length = fams.length ∧
      ∀ i (h1 : i < tops.length) (h2 : i < fams.length), Realises (fams[i]).1 (fams[i]).2 tops[i] := by
  obtain ⟨new, ps', h, hl, hi⟩ := C03_explicit_aux env hn fams hf [] {}
    ⟨rfl, rfl, rfl, fun b hb => absurd hb List.not_mem_nil⟩
  refine ⟨new, ps', by simpa using h, hl, hi⟩

end Pyham
