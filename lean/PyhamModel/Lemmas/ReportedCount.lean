/-
  How many genes of `d` are reported under an ancestor of `a` -- as DUPLICATED (a duplication was met on the way up) or as
  RETAINED -- over an arbitrary branch `a → d`: on the hierarchy a top-down walk that carries "am I below a member of `a`, and
  has a duplication been passed since"; on the histories the same walk over the spelled history.
-/
import PyhamModel.Lemmas.LostCount
namespace Pyham

/-! ### the top-down walk on the hierarchy

  The state handed to a node is `none` while no member of `a` lies above it, `some f` below one, where `f` says whether the
  node itself or anything strictly between it and that member arose by duplication.  -/

mutual
def reportedN (want : Bool) (a d : Taxon) : Option Bool → Node → Nat
  | st, .gene _ t _ _ => if t == d && st == some want then 1 else 0
  | st, .hog _ t _ ks _ =>
    (if t == d && st == some want then 1 else 0) + reportedNL want a d (if t == a then some false else st) ks
def reportedNL (want : Bool) (a d : Taxon) (st : Option Bool) : List Node → Nat
  | [] => 0
  | k :: ks => reportedN want a d (st.map fun f => f || k.dup.isSome) k + reportedNL want a d st ks
end

/-- the state of a located member, read off its chain of ancestors by the upward search -/
def stateOf (a : Taxon) (dupFlag : Bool) (anc : List Node) : Option Bool :=
  match searchUp a dupFlag anc with
  | (some _, f) => some f
  | (none, _) => none

theorem searchUp_or (a : Taxon) : (L : List Node) → (f g : Bool) →
    searchUp a (f || g) L = ((searchUp a f L).1, (searchUp a f L).2 || g)
  | [], f, g => by simp [searchUp]
  | x :: xs, f, g => by
    simp only [searchUp]
    by_cases hx : (x.tx == a) = true
    · simp [hx]
    · have hx' : (x.tx == a) = false := by simpa using hx
      simp only [hx', Bool.false_eq_true, if_false]
      have : (f || g || x.dup.isSome) = (f || x.dup.isSome || g) := by cases f <;> cases g <;> cases x.dup.isSome <;> rfl
      rw [this]
      exact searchUp_or a xs (f || x.dup.isSome) g

/-- the state of a child, from the state of its parent -/
theorem stateOf_kid (a : Taxon) (n : Node) (anc : List Node) (k : Node) :
    stateOf a k.dup.isSome (n :: anc) =
      (if n.tx == a then some false else stateOf a n.dup.isSome anc).map fun f => f || k.dup.isSome := by
  unfold stateOf
  simp only [searchUp]
  by_cases hx : (n.tx == a) = true
  · simp [hx]
  · have hx' : (n.tx == a) = false := by simpa using hx
    simp only [hx', Bool.false_eq_true, if_false]
    have : (k.dup.isSome || n.dup.isSome) = (n.dup.isSome || k.dup.isSome) := by cases k.dup.isSome <;> cases n.dup.isSome <;> rfl
    rw [this, searchUp_or]
    cases hs : searchUp a n.dup.isSome anc with
    | mk o f => cases o <;> simp

def reportedHere (want : Bool) (a d : Taxon) (l : Loc) : Bool :=
  l.node.tx == d && (stateOf a l.node.dup.isSome l.anc == some want)

mutual
/-- the located members of a subtree that are reported with the wanted flag, counted top-down -/
theorem reported_locs (want : Bool) (a d : Taxon) : (n : Node) → (anc : List Node) →
    ((locs anc n).filter (reportedHere want a d)).length = reportedN want a d (stateOf a n.dup.isSome anc) n
  | .gene i t dp lo, anc => by
    simp only [locs, List.filter_cons, List.filter_nil, reportedHere, Node.tx, Node.dup, reportedN]
    by_cases h : (t == d && stateOf a dp.isSome anc == some want) = true <;> simp [h]
  | .hog info t dp ks ds, anc => by
    simp only [locs, List.filter_cons, reportedN]
    have ih := reported_locsL want a d ks (.hog info t dp ks ds) anc
    simp only [Node.tx, Node.dup] at ih
    have hhead : reportedHere want a d ⟨.hog info t dp ks ds, anc⟩ =
        (t == d && (stateOf a dp.isSome anc == some want)) := rfl
    rw [hhead]
    simp only [Node.dup]
    split <;> simp_all <;> omega
theorem reported_locsL (want : Bool) (a d : Taxon) : (ks : List Node) → (p : Node) → (anc : List Node) →
    ((locsL (p :: anc) ks).filter (reportedHere want a d)).length =
      reportedNL want a d (if p.tx == a then some false else stateOf a p.dup.isSome anc) ks
  | [], p, anc => by simp [locsL, reportedNL]
  | k :: ks, p, anc => by
    simp only [locsL, List.filter_append, List.length_append, reportedNL]
    rw [reported_locs want a d k (p :: anc), reported_locsL want a d ks p anc, stateOf_kid]
end

/-! ### from the comparison to the walk -/

theorem stateOf_search (a : Taxon) (l : Loc) (want : Bool) :
    (stateOf a l.node.dup.isSome l.anc == some want) =
      ((search a l).1.isSome && ((search a l).2 == want)) := by
  unfold stateOf search
  cases hs : searchUp a l.node.dup.isSome l.anc with
  | mk o f => cases o <;> cases f <;> cases want <;> rfl

/-- DUPLICATE (all copies) and RETAINED, counted through the upward search -/
theorem reported_length_search (H : Ham) (hw : H.WFc) (a d : Taxon) :
    ((hogsMap H a d).dupl.map (·.2.length)).sum =
      ((H.nodesAt d).filter fun l => (search a l).1.isSome && (search a l).2).length ∧
    (hogsMap H a d).retained.length =
      ((H.nodesAt d).filter fun l => (search a l).1.isSome && !(search a l).2).length := by
  constructor
  · have h := (clusters_dupl_values (upOf H a d)).length_eq
    rw [(hogsMap_clusters H a d).2.2.1]
    rw [List.length_flatMap] at h
    rw [h]
    unfold upOf
    rw [List.filterMap_map]
    exact length_filterMap_ite (H.nodesAt d) (fun l => (search a l).1.isSome && (search a l).2) (fun l => l.node)
  · have h := (clusters_retained_values (upOf H a d) (upOf_noClash hw a d)).length_eq
    rw [(hogsMap_clusters H a d).2.1]
    rw [List.length_map] at h
    rw [h]
    unfold upOf
    rw [List.filterMap_map]
    exact length_filterMap_ite (H.nodesAt d) (fun l => (search a l).1.isSome && !(search a l).2) (fun l => l.node)

/-- **how many genes are reported as duplicated / as retained over any branch, on the hierarchy** -/
theorem C06_reported_count (H : Ham) (hw : H.WFc) (a d : Taxon) :
    ((hogsMap H a d).dupl.map (·.2.length)).sum = famSum H (fun top => reportedN true a d none top) ∧
    (hogsMap H a d).retained.length = famSum H (fun top => reportedN false a d none top) := by
  obtain ⟨h1, h2⟩ := reported_length_search H hw a d
  have key : ∀ want, ((H.nodesAt d).filter fun l => (search a l).1.isSome && ((search a l).2 == want)).length =
      famSum H (fun top => reportedN want a d none top) := by
    intro want
    rw [c10_split]
    have hs : ((singletonsAt H d).filter fun g => (search a ⟨g, []⟩).1.isSome && ((search a ⟨g, []⟩).2 == want)).length = 0 := by
      rw [List.length_eq_zero_iff, List.filter_eq_nil_iff]
      intro g _
      simp [search, searchUp]
    rw [hs, Nat.add_zero]
    unfold famSum
    congr 1
    apply List.map_congr_left
    intro p _
    have := reported_locs want a d p.2 []
    have hst : stateOf a p.2.dup.isSome [] = none := by simp [stateOf, searchUp]
    rw [hst] at this
    show (List.filter (fun l => (search a l).1.isSome && ((search a l).2 == want))
        (List.filter (fun l => l.node.tx == d) (locs [] p.2))).length = reportedN want a d none p.2
    rw [← this, List.filter_filter]
    congr 1
    apply List.filter_congr
    intro l _
    unfold reportedHere
    rw [stateOf_search]
    cases (l.node.tx == d) <;> simp
  refine ⟨?_, ?_⟩
  · rw [h1, ← key true]
    congr 1
    apply List.filter_congr
    intro l _
    cases (search a l).2 <;> simp
  · rw [h2, ← key false]
    congr 1
    apply List.filter_congr
    intro l _
    cases (search a l).2 <;> simp

/-! ### ... and on the histories -/


theorem reportedNL_append (want : Bool) (a d : Taxon) (st : Option Bool) : (x y : List Node) →
    reportedNL want a d st (x ++ y) = reportedNL want a d st x + reportedNL want a d st y
  | [], y => by simp [reportedNL]
  | k :: x, y => by simp [reportedNL, reportedNL_append want a d st x y]; omega

theorem reportedNL_perm (want : Bool) (a d : Taxon) (st : Option Bool) {x y : List Node} (h : x.Perm y) :
    reportedNL want a d st x = reportedNL want a d st y := by
  induction h with
  | nil => rfl
  | cons k _ ih => simp [reportedNL, ih]
  | swap k1 k2 l => simp [reportedNL]; omega
  | trans _ _ ih1 ih2 => exact ih1.trans ih2

mutual
theorem realises_rep (want : Bool) (a d q : Taxon) (st : Option Bool) : (l : SL) → (n : Node) → Realises q l n →
    reportedN want a d st n = reportedAt want a d q st l
  | .gene id loft, n, h => by
    simp only [Realises] at h
    obtain ⟨dd, rfl⟩ := h
    simp [reportedN, reportedAt]
  | .grp w hid label subs, n, h => by
    simp only [Realises] at h
    obtain ⟨info, dd, kids, dups, rfl, plain, evs, hk, _, _, hs⟩ := h
    have ih := realisesSubs_rep want a d q (if q == a then some false else st) subs plain evs hs
    rw [reportedN, reportedAt, reportedNL_perm want a d _ hk, reportedNL_append, ih]
theorem realisesSubs_rep (want : Bool) (a d q : Taxon) (st : Option Bool) : (subs : List Sub) → (plain : List Node) →
    (evs : List (DupRec × List Node)) → RealisesSubs q subs plain evs →
    reportedNL want a d st plain + reportedNL want a d st (evs.flatMap (·.2)) = reportedAtSubs want a d q st subs
  | [], plain, evs, h => by
    simp only [RealisesSubs] at h
    obtain ⟨rfl, rfl⟩ := h
    simp [reportedNL, reportedAtSubs]
  | .one i l :: r, plain, evs, h => by
    simp only [RealisesSubs] at h
    obtain ⟨k, plain', rfl, hkd, hk, hr⟩ := h
    have ih := realisesSubs_rep want a d q st r plain' evs hr
    have ik := realises_rep want a d (i :: q) (st.map fun f => f || k.dup.isSome) l k hk
    have hst : (st.map fun f => f || k.dup.isSome) = st := by
      rw [hkd]; cases st <;> simp
    rw [hst] at ik
    rw [reportedNL, reportedAtSubs, hst, ik, ← ih]
    omega
  | .dup i pgid cs :: r, plain, evs, h => by
    simp only [RealisesSubs] at h
    obtain ⟨rec, ks, evs', rfl, _, _, _, hkd, hc, hr⟩ := h
    have ih := realisesSubs_rep want a d q st r plain evs' hr
    have ic := realisesCopies_rep want a d (i :: q) st cs ks rec.did hkd hc
    simp only [List.flatMap_cons, reportedNL_append, reportedAtSubs]
    rw [← ic, ← ih]
    omega
  | .ann e :: r, plain, evs, h => by
    simp only [RealisesSubs] at h
    rw [reportedAtSubs]
    exact realisesSubs_rep want a d q st r plain evs h
theorem realisesCopies_rep (want : Bool) (a d q : Taxon) (st : Option Bool) : (cs : List SL) → (ks : List Node) →
    (did : Nat) → (∀ k ∈ ks, k.dup = some did) → RealisesCopies q cs ks →
    reportedNL want a d st ks = reportedAtCopies want a d q (st.map fun _ => true) cs
  | [], ks, did, _, h => by
    simp only [RealisesCopies] at h
    subst h
    simp [reportedNL, reportedAtCopies]
  | c :: cs, ks, did, hkd, h => by
    simp only [RealisesCopies] at h
    obtain ⟨k, ks', rfl, hk, hr⟩ := h
    have hd : k.dup = some did := hkd k (by simp)
    have ik := realises_rep want a d q (st.map fun f => f || k.dup.isSome) c k hk
    have hst : (st.map fun f => f || k.dup.isSome) = st.map fun _ => true := by
      rw [hd]; cases st <;> simp
    rw [hst] at ik
    rw [reportedNL, reportedAtCopies, hst, ik,
      realisesCopies_rep want a d q st cs ks' did (fun k' hk' => hkd k' (by simp [hk'])) hr]
end

/-- **END TO END, duplicated and retained over any branch**: for every consistent dataset and any two taxa `a`, `d`, the
    comparison `a → d` reports as many duplicated copies (resp. retained genes) as lineages of the histories cross `d` below a
    lineage at `a` with (resp. without) a duplication event on the way -/
theorem C06_reported_count_is_the_history (D : Dataset) (hc : D.Consistent) :
    ∃ H, load D.T D.nm D.file = .ok H ∧ ∀ a d,
      ((hogsMap H a d).dupl.map (·.2.length)).sum = (D.fams.map fun f => reportedAt true a d f.1 none f.2).sum ∧
      (hogsMap H a d).retained.length = (D.fams.map fun f => reportedAt false a d f.1 none f.2).sum := by
  obtain ⟨H, hload, hlen, hreal, hwc, _, _⟩ := loaded_consistent D hc
  refine ⟨H, hload, ?_⟩
  intro a d
  obtain ⟨h1, h2⟩ := C06_reported_count H hwc a d
  refine ⟨?_, ?_⟩
  · rw [h1]
    unfold famSum
    congr 1
    apply map_eq_of_index _ _ _ _ hlen
    intro i hi1 hi2
    exact realises_rep true a d _ none _ _ (hreal i hi1 hi2).2
  · rw [h2]
    unfold famSum
    congr 1
    apply map_eq_of_index _ _ _ _ hlen
    intro i hi1 hi2
    exact realises_rep false a d _ none _ _ (hreal i hi1 hi2).2

end Pyham

namespace Pyham

theorem sum_pred_add_length (xs : List (Node × List Node)) (h : ∀ e ∈ xs, e.2 ≠ []) :
    (xs.map fun e => e.2.length - 1).sum + xs.length = (xs.map (·.2.length)).sum := by
  induction xs with
  | nil => rfl
  | cons e xs ih =>
    have he : e.2.length ≥ 1 := by
      have := h e (by simp)
      cases hl : e.2 with
      | nil => exact absurd hl this
      | cons _ _ => simp
    have ih' := ih (fun e' he' => h e' (by simp [he']))
    simp only [List.map_cons, List.sum_cons, List.length_cons]
    omega

/-- **the number of duplication events of any comparison between ancestral genomes, END TO END**: events + lineages crossing
    `a` = duplicated copies + lost + retained, every term on the right and the lineage count being functions of the histories
    (the events are the sum over the duplicated ancestors of (copies − 1); there are as many duplicated ancestors as lineages at
    `a` that are neither lost nor retained) -/
theorem C06_number_duplications_is_the_history (D : Dataset) (hc : D.Consistent) :
    ∃ H, load D.T D.nm D.file = .ok H ∧ ∀ a d, a ≠ d → D.T.isInternalAt a = true → D.T.isInternalAt d = true →
      (hogsMap H a d).ndup + (D.fams.map fun f => lineagesAt a f.1 f.2).sum =
        (D.fams.map fun f => reportedAt true a d f.1 none f.2).sum + (D.fams.map fun f => extinctAt a d f.1 f.2).sum +
          (D.fams.map fun f => reportedAt false a d f.1 none f.2).sum := by
  obtain ⟨H, hl, hrep⟩ := C06_reported_count_is_the_history D hc
  obtain ⟨H2, hl2, hlost⟩ := C06_lost_count_is_the_history D hc
  obtain ⟨H3, hl3, hsz⟩ := C04_counts_are_lineages D hc
  obtain ⟨H4, hl4, _, _, hwc, hse, _⟩ := loaded_consistent D hc
  have e2 : H2 = H := by rw [hl] at hl2; cases hl2; rfl
  have e3 : H3 = H := by rw [hl] at hl3; cases hl3; rfl
  have e4 : H4 = H := by rw [hl] at hl4; cases hl4; rfl
  rw [e2] at hlost; rw [e3] at hsz; rw [e4] at hwc hse
  refine ⟨H, hl, ?_⟩
  intro a d hne hia hid
  obtain ⟨hd, hr⟩ := hrep a d
  have hlo := hlost a d hne hia hid
  have hs := hsz a hia
  have hsize := (C05_ancestor_size H hwc a d)
  have hsound := (C06_entries_sound H hwc a d).2
  have hsum := sum_pred_add_length (hogsMap H a d).dupl (fun e he => (hsound e he).2.2)
  have hnd : (hogsMap H a d).ndup = ((hogsMap H a d).dupl.map fun e => e.2.length - 1).sum :=
    C06_number_duplications H a d
  -- the genome at a: registered size = located members
  have hgs : H.genomeSize a = (H.nodesAt a).length := by
    have := hse
    simp only [Ham.sizesExact, List.all_eq_true, beq_iff_eq] at this
    by_cases hm : a ∈ H.tree.allTaxa
    · exact this a hm
    · -- an internal taxon of the dataset's tree is a taxon of the analysis' tree
      exfalso
      have htree : H.tree = D.T := by
        have := hl
        simp only [load, buildHam, bind, Except.bind] at this
        split at this
        · cases this
        · split at this
          · cases this
          · split at this
            · cases this
            · cases this; rfl
      rw [htree, mem_allTaxa_iff] at hm
      unfold STree.isInternalAt at hia
      cases hsub : D.T.sub a with
      | none => rw [hsub] at hia; simp at hia
      | some x => rw [hsub] at hm; simp at hm
  rw [← hs, hgs, hsize, hnd, ← hd, ← hlo, ← hr]
  omega

end Pyham
