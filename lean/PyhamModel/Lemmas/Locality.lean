/-
  C11 / C14 / C01: FAMILY LOCALITY.  What the loader builds for one top-level orthologGroup does not depend
  on what else the file contains: loading the group in the middle of a file gives the hierarchy that loading
  it alone gives, with every object number (HOG creation counter, DuplicationNode number) shifted by the
  number of objects created before.  Consequently a family of a filtered load (= the load of the projected
  file, `C11_filtered_is_projection`) is identical -- members, level of every HOG, duplication grouping,
  annotations -- to the same family in the unfiltered load, wherever it stands in the file.
-/
import PyhamModel.Model.Parser
import PyhamModel.Lemmas.Leaves
namespace Pyham

def Key.shift (k : Nat) : Key → Key
  | .g id => .g id
  | .h u => .h (u + k)

def DupRec.shift (k : Nat) (r : DupRec) : DupRec :=
  { r with did := r.did + k, members := r.members.map (Key.shift k) }

def DupBuild.shift (k : Nat) (b : DupBuild) : DupBuild :=
  { b with did := b.did + k, members := b.members.map (Key.shift k) }

def PFrame.shift (k : Nat) (f : PFrame) : PFrame := { f with did := f.did + k }

mutual
/-- the same hierarchy with every object number increased by `k` -/
def Node.shift (k : Nat) : Node → Node
  | .gene i t d l => .gene i t (d.map (· + k)) l
  | .hog info t d ks ds =>
    .hog { info with uid := info.uid + k } t (d.map (· + k)) (Node.shiftL k ks) (ds.map (DupRec.shift k))
def Node.shiftL (k : Nat) : List Node → List Node
  | [] => []
  | n :: ns => n.shift k :: Node.shiftL k ns
end

/-- between two top-level families: no paralogGroup is open -/
def PS.idle (ps : PS) : Prop := ps.pstack = [] ∧ ps.inPG = none ∧ ps.cur = none

/-- every DuplicationNode created so far has a number below the creation counter -/
def PS.fresh (ps : PS) : Prop := ∀ b ∈ ps.dstore, b.did < ps.next

/-- the state after loading, on top of `ps0`, what alone leads to `ps'` -/
def PS.after (ps0 ps' : PS) : PS :=
  { pstack := ps'.pstack.map (PFrame.shift ps0.next) ++ ps0.pstack,
    inPG := ps'.inPG, cur := ps'.cur.map (· + ps0.next),
    dstore := ps0.dstore ++ ps'.dstore.map (DupBuild.shift ps0.next),
    next := ps0.next + ps'.next,
    reg := ps0.reg ++ ps'.reg.map fun e => (e.1, e.2.shift ps0.next) }

/-! ### helper lemmas: the loader commutes with shifting on top of an old state -/

theorem shiftL_eq_map (k : Nat) (l : List Node) : Node.shiftL k l = l.map (Node.shift k) := by
  induction l with
  | nil => rfl
  | cons x xs ih => simp [Node.shiftL, ih]

@[simp] theorem nat_add_beq (a d k : Nat) : (a + k == d + k) = (a == d) := by
  rw [Bool.eq_iff_iff]; simp

theorem Key.shift_inj (k : Nat) (a b : Key) : a.shift k = b.shift k ↔ a = b := by
  cases a <;> cases b <;> simp [Key.shift]

@[simp] theorem Key.shift_beq (k : Nat) (a b : Key) : (a.shift k == b.shift k) = (a == b) := by
  rw [Bool.eq_iff_iff]; simp [Key.shift_inj]

@[simp] theorem ks_contains (k : Nat) (l : List Key) (x : Key) :
    (l.map (Key.shift k)).contains (x.shift k) = l.contains x := by
  induction l with
  | nil => rfl
  | cons a l ih => simp only [List.map_cons, List.contains_cons, Key.shift_beq, ih]

@[simp] theorem ks_erase (k : Nat) (l : List Key) (x : Key) :
    (l.map (Key.shift k)).erase (x.shift k) = (l.erase x).map (Key.shift k) := by
  induction l with
  | nil => rfl
  | cons a l ih =>
    simp only [List.map_cons, List.erase_cons, Key.shift_beq, ih]
    split <;> simp

theorem ks_sameKeys (k : Nat) (a b : List Key) :
    sameKeys (a.map (Key.shift k)) (b.map (Key.shift k)) = sameKeys a b := by
  simp only [sameKeys, List.all_map, Function.comp_def, ks_contains]

@[simp] theorem sh_tx (k : Nat) (n : Node) : (n.shift k).tx = n.tx := by
  cases n <;> rfl
@[simp] theorem sh_key (k : Nat) (n : Node) : (n.shift k).key = n.key.shift k := by
  cases n <;> rfl
@[simp] theorem sh_dup (k : Nat) (n : Node) : (n.shift k).dup = n.dup.map (· + k) := by
  cases n <;> rfl
theorem sh_setDup (k : Nat) (d : Option Nat) (n : Node) :
    (n.shift k).setDup (d.map (· + k)) = (n.setDup d).shift k := by
  cases n <;> rfl
@[simp] theorem sh_chainId (k : Nat) (hid : Option String) (n : Node) : (n.shift k).chainId hid = n.chainId hid := by
  cases n with
  | gene i t d l => cases l <;> rfl
  | hog => rfl

theorem sh_map_tx (k : Nat) (l : List Node) : (l.map (Node.shift k)).map Node.tx = l.map Node.tx := by
  simp [List.map_map, Function.comp_def]
theorem sh_map_key (k : Nat) (l : List Node) :
    (l.map (Node.shift k)).map Node.key = (l.map Node.key).map (Key.shift k) := by
  simp [List.map_map, Function.comp_def]

theorem sh_eraseKey (k : Nat) (x : Key) (l : List Node) :
    eraseKey (x.shift k) (l.map (Node.shift k)) = (eraseKey x l).map (Node.shift k) := by
  induction l with
  | nil => rfl
  | cons a l ih =>
    simp only [List.map_cons, eraseKey, sh_key, Key.shift_beq, ih]
    split <;> simp

theorem sh_findKey (k : Nat) (x : Key) (l : List Node) :
    findKey (x.shift k) (l.map (Node.shift k)) = (findKey x l).map (Node.shift k) := by
  simp only [findKey, List.find?_map, Function.comp_def, sh_key, Key.shift_beq]

theorem sh_filter_dup (k d : Nat) (l : List Node) :
    (l.map (Node.shift k)).filter (·.dup == some (d + k)) = (l.filter (·.dup == some d)).map (Node.shift k) := by
  rw [List.filter_map]
  congr 1
  apply List.filter_congr
  intro x _
  simp only [Function.comp_def, sh_dup]
  cases x.dup <;> simp

theorem dedup_map {α β} [BEq α] [BEq β] (f : α → β) (hf : ∀ a b, (f a == f b) = (a == b)) (l : List α) :
    dedup (l.map f) = (dedup l).map f := by
  induction l with
  | nil => rfl
  | cons a l ih =>
    simp only [List.map_cons, dedup, ih, List.filter_map, Function.comp_def, bne, hf]

theorem sh_dupGroups (k : Nat) (l : List Node) :
    dupGroups (l.map (Node.shift k)) = (dupGroups l).map (· + k) := by
  unfold dupGroups
  rw [← dedup_map _ (by intro a b; exact nat_add_beq a b k)]
  congr 1
  induction l with
  | nil => rfl
  | cons a l ih =>
    simp only [List.map_cons, List.filterMap_cons, sh_dup, ih]
    cases a.dup <;> simp


def HogBuild.shift (k : Nat) (hb : HogBuild) : HogBuild :=
  { info := { hb.info with uid := hb.info.uid + k }, dup := hb.dup.map (· + k),
    kids := hb.kids.map (Node.shift k) }

/-- the state `ps` of an isolated run, seen on top of the old state `o` -/
def aft (o ps : PS) : PS :=
  { pstack := ps.pstack.map (PFrame.shift o.next), inPG := ps.inPG, cur := ps.cur.map (· + o.next),
    dstore := o.dstore ++ ps.dstore.map (DupBuild.shift o.next), next := ps.next + o.next,
    reg := o.reg ++ ps.reg.map fun e => (e.1, e.2.shift o.next) }

theorem after_eq_aft (o ps : PS) (h : o.pstack = []) : o.after ps = aft o ps := by
  simp [PS.after, aft, h, Nat.add_comm]

theorem aft_getDup (o ps : PS) (hf : o.fresh) (d : Nat) :
    (aft o ps).getDup (d + o.next) = (ps.getDup d).map (DupBuild.shift o.next) := by
  simp only [PS.getDup, aft, List.find?_append]
  have h1 : o.dstore.find? (fun b => b.did == d + o.next) = none := by
    rw [List.find?_eq_none]
    intro b hb
    have := hf b hb
    simp; omega
  rw [h1, List.find?_map]
  simp [Function.comp_def, DupBuild.shift]

theorem aft_modDup (o ps : PS) (hf : o.fresh) (d : Nat) (F f : DupBuild → DupBuild)
    (hFf : ∀ b, F (b.shift o.next) = (f b).shift o.next) :
    (aft o ps).modDup (d + o.next) F = aft o (ps.modDup d f) := by
  simp only [PS.modDup, aft, List.map_append, List.map_map, PS.mk.injEq, true_and, and_true]
  congr 1
  · conv => rhs; rw [← List.map_id o.dstore]
    apply List.map_congr_left
    intro b hb
    have := hf b hb
    have : ¬ (b.did = d + o.next) := by omega
    simp [this]
  · apply List.map_congr_left
    intro b _
    simp only [Function.comp_def, DupBuild.shift, nat_add_beq]
    split
    · exact hFf b
    · rfl

theorem aft_addMember (o ps : PS) (hf : o.fresh) (d : Nat) (x : Key) :
    (aft o ps).addMember (d + o.next) (x.shift o.next) = aft o (ps.addMember d x) := by
  unfold PS.addMember
  apply aft_modDup o ps hf
  intro b
  simp [DupBuild.shift]

theorem aft_register (o ps : PS) (t : Taxon) (x : Key) :
    (aft o ps).register t (x.shift o.next) = aft o (ps.register t x) := by
  simp [PS.register, aft]

theorem sh_mapM_tx (k : Nat) (kids : List Node) (l : List Key) :
    (l.map (Key.shift k)).mapM (fun x => (findKey x (kids.map (Node.shift k))).map Node.tx) =
      l.mapM (fun x => (findKey x kids).map Node.tx) := by
  induction l with
  | nil => rfl
  | cons a l ih =>
    simp only [List.map_cons, List.mapM_cons, ih, sh_findKey, Option.map_map, Function.comp_def, sh_tx]

theorem aft_setMRCA (o ps : PS) (hf : o.fresh) (kids : List Node) (d : Nat) :
    setMRCA (kids.map (Node.shift o.next)) (aft o ps) (d + o.next) = (setMRCA kids ps d).map (aft o) := by
  simp only [setMRCA, aft_getDup o ps hf]
  cases ps.getDup d with
  | none => rfl
  | some b =>
    simp only [Option.map_some]
    have hm : (DupBuild.shift o.next b).members = b.members.map (Key.shift o.next) := rfl
    rw [hm, sh_mapM_tx]
    have hmod : ∀ u : Taxon, (aft o ps).modDup (d + o.next) (fun b => { b with mrca := some u }) =
        aft o (ps.modDup d fun b => { b with mrca := some u }) := by
      intro u
      apply aft_modDup o ps hf
      intro b; rfl
    cases b.members.mapM (fun x => (findKey x kids).map Node.tx) with
    | none => rfl
    | some taxa =>
      simp only [hmod]
      split <;> (try rfl) <;> (split <;> rfl)


theorem aft_bump_register (o ps : PS) (t : Taxon) :
    PS.register { aft o ps with next := (aft o ps).next + 1 } t (.h (aft o ps).next) =
      aft o (PS.register { ps with next := ps.next + 1 } t (.h ps.next)) := by
  simp [PS.register, aft, Key.shift, Nat.add_right_comm]

theorem sh_chainHog (k uid : Nat) (hid : Option String) (t : Taxon) (cur : Node) :
    Node.hog (chainInfo (uid + k) hid) t none [cur.shift k] [] =
      (Node.hog (chainInfo uid hid) t none [cur] []).shift k := by
  simp [Node.shift, Node.shiftL, chainInfo]

theorem aft_addMissing (o : PS) (hid : Option String) : (ts : List Taxon) → (cur : Node) → (ps : PS) →
    addMissing hid (cur.shift o.next) ts (aft o ps) =
      (addMissing hid cur ts ps).map (fun r => (r.1.shift o.next, aft o r.2))
  | [], cur, ps => rfl
  | t :: ts, cur, ps => by
    simp only [addMissing, sh_tx]
    rw [aft_bump_register]
    split
    · rfl
    · have hn : (aft o ps).next = ps.next + o.next := rfl
      rw [hn, sh_chainHog, aft_addMissing o hid ts]

theorem map_snoc {α β} (f : α → β) (l : List α) (x : α) : l.map f ++ [f x] = (l ++ [x]).map f := by simp

theorem aft_genericPass (o : PS) (hid : Option String) (level : Taxon) :
    (cs kids : List Node) → (ps : PS) →
    genericPass hid level (cs.map (Node.shift o.next)) (kids.map (Node.shift o.next)) (aft o ps) =
      (genericPass hid level cs kids ps).map (fun r => (r.1.map (Node.shift o.next), aft o r.2))
  | [], kids, ps => rfl
  | c :: cs, kids, ps => by
    simp only [List.map_cons, genericPass, sh_key, sh_eraseKey, sh_chainId, sh_tx, aft_addMissing, bind,
      Except.bind]
    cases addMissing (c.chainId hid) c (pathUp c.tx level) ps with
    | error e => rfl
    | ok r =>
      obtain ⟨top, ps1⟩ := r
      simp only [Except.map, map_snoc]
      exact aft_genericPass o hid level cs _ ps1


theorem sh_setDup_none (k : Nat) (n : Node) : (n.shift k).setDup none = (n.setDup none).shift k :=
  sh_setDup k none n
theorem sh_setDup_some (k d : Nat) (n : Node) : (n.shift k).setDup (some (d + k)) = (n.setDup (some d)).shift k :=
  sh_setDup k (some d) n

theorem aft_rehomeUnder (o : PS) (hid : Option String) (mrcaTx : Taxon) :
    (cs kids mk : List Node) → (ps : PS) →
    rehomeUnder hid mrcaTx (cs.map (Node.shift o.next)) (kids.map (Node.shift o.next))
        (mk.map (Node.shift o.next)) (aft o ps) =
      (rehomeUnder hid mrcaTx cs kids mk ps).map
        (fun r => (r.1.map (Node.shift o.next), r.2.1.map (Node.shift o.next), aft o r.2.2))
  | [], kids, mk, ps => rfl
  | c :: cs, kids, mk, ps => by
    simp only [List.map_cons, rehomeUnder, sh_key, sh_eraseKey, sh_chainId, sh_tx, sh_setDup_none,
      aft_addMissing, bind, Except.bind]
    cases addMissing (c.chainId hid) (c.setDup none) (pathUp c.tx mrcaTx) ps with
    | error e => rfl
    | ok r =>
      obtain ⟨top, ps1⟩ := r
      simp only [Except.map, map_snoc]
      exact aft_rehomeUnder o hid mrcaTx cs _ _ ps1

theorem aft_rehomeDirect (o : PS) (hid : Option String) (level : Taxon) (d : Nat) :
    (cs kids : List Node) → (mem : List Key) → (ps : PS) →
    rehomeDirect hid level (d + o.next) (cs.map (Node.shift o.next)) (kids.map (Node.shift o.next))
        (mem.map (Key.shift o.next)) (aft o ps) =
      (rehomeDirect hid level d cs kids mem ps).map
        (fun r => (r.1.map (Node.shift o.next), r.2.1.map (Key.shift o.next), aft o r.2.2))
  | [], kids, mem, ps => rfl
  | c :: cs, kids, mem, ps => by
    simp only [List.map_cons, rehomeDirect, sh_key, sh_eraseKey, sh_chainId, sh_tx, sh_setDup_none,
      aft_addMissing, bind, Except.bind]
    cases addMissing (c.chainId hid) (c.setDup none) (pathUp c.tx level) ps with
    | error e => rfl
    | ok r =>
      obtain ⟨top, ps1⟩ := r
      simp only [Except.map, ks_contains, sh_key, ks_erase, sh_setDup_some, map_snoc]
      split
      · rfl
      · exact aft_rehomeDirect o hid level d cs _ _ ps1

def CloseSt.sh (o : PS) (st : CloseSt) : CloseSt :=
  { kids := st.kids.map (Node.shift o.next), dups := st.dups.map (DupRec.shift o.next), ps := aft o st.ps }

theorem aft_rehomeUnder_nil (o : PS) (hid : Option String) (mrcaTx : Taxon) (cs kids : List Node) (ps : PS) :
    rehomeUnder hid mrcaTx (cs.map (Node.shift o.next)) (kids.map (Node.shift o.next)) [] (aft o ps) =
      (rehomeUnder hid mrcaTx cs kids [] ps).map
        (fun r => (r.1.map (Node.shift o.next), r.2.1.map (Node.shift o.next), aft o r.2.2)) :=
  aft_rehomeUnder o hid mrcaTx cs kids [] ps

theorem aft_dupStep (o : PS) (hf : o.fresh) (hid : Option String) (level : Taxon) (st : CloseSt) (d : Nat) :
    dupStep hid level (st.sh o) (d + o.next) = (dupStep hid level st d).map (CloseSt.sh o) := by
  obtain ⟨kids, dups, ps⟩ := st
  simp only [dupStep, CloseSt.sh, aft_getDup o ps hf, bind, Except.bind]
  cases ps.getDup d with
  | none => rfl
  | some b =>
    simp only [Option.map_some]
    have hm : (DupBuild.shift o.next b).members = b.members.map (Key.shift o.next) := rfl
    have hr : (DupBuild.shift o.next b).mrca = b.mrca := rfl
    have hp : (DupBuild.shift o.next b).pgid = b.pgid := rfl
    rw [hm, hr, hp]
    cases b.mrca with
    | none => rfl
    | some mrcaTx =>
      simp only [sh_filter_dup, sh_map_key, ks_sameKeys]
      split
      · rfl
      · split
        · have hn : (aft o ps).next = ps.next + o.next := rfl
          rw [aft_bump_register, aft_rehomeUnder_nil]
          cases rehomeUnder hid mrcaTx (List.filter (fun x => x.dup == some d) kids) kids []
              (PS.register { ps with next := ps.next + 1 } mrcaTx (Key.h ps.next)) with
          | error e => rfl
          | ok r =>
            obtain ⟨k1, m1, p1⟩ := r
            simp only [Except.map, CloseSt.sh, Except.ok.injEq, CloseSt.mk.injEq, true_and]
            refine ⟨?_, ?_⟩
            · simp [hn, Node.shift, shiftL_eq_map, chainInfo, DupRec.shift, Function.comp_def, sh_setDup_some]
            · apply aft_modDup o p1 hf
              intro b
              simp [DupBuild.shift, Function.comp_def, setDup_key]
        · rw [aft_rehomeDirect]
          cases rehomeDirect hid level d (List.filter (fun x => x.dup == some d) kids) kids b.members ps with
          | error e => rfl
          | ok r =>
            obtain ⟨k1, m1, p1⟩ := r
            simp only [Except.map, CloseSt.sh, Except.ok.injEq, CloseSt.mk.injEq, true_and]
            refine ⟨?_, ?_⟩
            · simp [DupRec.shift]
            · apply aft_modDup o p1 hf
              intro b
              simp [DupBuild.shift]


theorem aft_dupSteps (o : PS) (hf : o.fresh) (hid : Option String) (level : Taxon) :
    (ds : List Nat) → (st : CloseSt) →
    dupSteps hid level (ds.map (· + o.next)) (st.sh o) = (dupSteps hid level ds st).map (CloseSt.sh o)
  | [], st => rfl
  | d :: ds, st => by
    simp only [List.map_cons, dupSteps, aft_dupStep o hf, bind, Except.bind]
    cases dupStep hid level st d with
    | error e => rfl
    | ok st1 =>
      simp only [Except.map]
      exact aft_dupSteps o hf hid level ds st1

theorem sh_inferLevel (k : Nat) (env : Env) (hb : HogBuild) : inferLevel env (hb.shift k) = inferLevel env hb := by
  simp only [inferLevel, HogBuild.shift, sh_map_tx]
  rfl

theorem aft_liftLevel (o : PS) (hf : o.fresh) (ps : PS) : (kids : List Node) → (lv : Taxon) →
    liftLevel (aft o ps) (kids.map (Node.shift o.next)) lv = liftLevel ps kids lv
  | [], lv => rfl
  | c :: cs, lv => by
    simp only [List.map_cons, liftLevel, sh_dup]
    cases c.dup with
    | none => exact aft_liftLevel o hf ps cs lv
    | some d =>
      simp only [Option.map_some, aft_getDup o ps hf]
      cases ps.getDup d with
      | none => rfl
      | some b =>
        have hr : (DupBuild.shift o.next b).mrca = b.mrca := rfl
        simp only [Option.map_some, hr]
        cases b.mrca with
        | none => rfl
        | some m => exact aft_liftLevel o hf ps cs _

theorem aft_closeOg (o : PS) (hf : o.fresh) (env : Env) (top : Bool) (hb : HogBuild) (ps : PS) :
    closeOg env top (hb.shift o.next) (aft o ps) =
      (closeOg env top hb ps).map (fun r => (r.1.map (Node.shift o.next), aft o r.2)) := by
  simp only [closeOg, sh_inferLevel, bind, Except.bind]
  cases inferLevel env hb with
  | error e => rfl
  | ok lv =>
    cases lv with
    | collapse =>
      simp only []
      split
      · rfl
      · obtain ⟨info, dup, kids⟩ := hb
        cases dup with
        | none => rfl
        | some d =>
          simp only [HogBuild.shift, Option.map_some, aft_getDup o ps hf]
          cases ps.getDup d with
          | none => rfl
          | some b =>
            simp only [Option.map_some]
            have hk : Key.h (info.uid + o.next) = (Key.h info.uid).shift o.next := rfl
            have hm : (DupBuild.shift o.next b).members = b.members.map (Key.shift o.next) := rfl
            simp only [hk, hm, ks_contains, ks_erase, sh_map_key, ← List.map_append]
            rw [aft_modDup o ps hf d _ (fun b_1 => { b_1 with members := b.members.erase (Key.h info.uid) ++ kids.map Node.key })
                (by intro b; rfl)]
            split
            · rfl
            · generalize (ps.modDup d fun b_1 =>
                ({ b_1 with members := b.members.erase (Key.h info.uid) ++ kids.map Node.key } : DupBuild)) = X
              obtain ⟨pstack, inPG, cur, dstore, next, reg⟩ := X
              cases pstack with
              | nil => rfl
              | cons f fs =>
                simp [aft, Except.map, PFrame.shift, Function.comp_def, sh_setDup_some]
    | «at» lv0 =>
      obtain ⟨info, dup, kids⟩ := hb
      simp only [HogBuild.shift, aft_liftLevel o hf]
      cases liftLevel ps kids lv0 with
      | error e => rfl
      | ok level =>
        simp only []
        have hk : Key.h (info.uid + o.next) = (Key.h info.uid).shift o.next := rfl
        have hst : CloseSt.mk (List.map (Node.shift o.next) kids) [] (aft o (ps.register level (Key.h info.uid))) =
            CloseSt.sh o (CloseSt.mk kids [] (ps.register level (Key.h info.uid))) := rfl
        rw [hk, aft_register, sh_dupGroups, hst, aft_dupSteps o hf]
        cases dupSteps info.hid level (dupGroups kids)
            { kids := kids, dups := [], ps := ps.register level (Key.h info.uid) } with
        | error e => rfl
        | ok st =>
          have hfl : List.filter (fun c => List.length c.tx != List.length level + 1) (st.kids.map (Node.shift o.next)) =
              (List.filter (fun c => List.length c.tx != List.length level + 1) st.kids).map (Node.shift o.next) := by
            rw [List.filter_map]; simp only [Function.comp_def, sh_tx]
          simp only [Except.map, CloseSt.sh, hfl, aft_genericPass]
          cases genericPass info.hid level (List.filter (fun c => List.length c.tx != List.length level + 1) st.kids)
              st.kids st.ps with
          | error e => rfl
          | ok r =>
            simp [Node.shift, shiftL_eq_map]

def pgOpen2 (len did : Nat) (ps : PS) : PS :=
  let size := match ps.getDup did with | some b => b.members.length | none => 0
  { ps with pstack := { depth := len, did := did, size := size } :: ps.pstack, inPG := some len, cur := some did }

theorem aft_pgOpen2 (o : PS) (hf : o.fresh) (len did : Nat) (ps : PS) :
    pgOpen2 len (did + o.next) (aft o ps) = aft o (pgOpen2 len did ps) := by
  simp only [pgOpen2, aft_getDup o ps hf]
  cases ps.getDup did with
  | none => simp [aft, PFrame.shift]
  | some b => simp [aft, PFrame.shift, DupBuild.shift]

theorem aft_newDup (o ps : PS) (pgid : Option String) :
    newDup (aft o ps) pgid = ((newDup ps pgid).1 + o.next, aft o (newDup ps pgid).2) := by
  simp [newDup, aft, DupBuild.shift, Key.shift, Nat.add_right_comm]

theorem pgOpen_eq (len : Nat) (pgid : Option String) (ps : PS) :
    pgOpen len pgid ps =
      match ps.pstack with
      | f :: _ => if f.depth == len then pgOpen2 len f.did ps else pgOpen2 len (newDup ps pgid).1 (newDup ps pgid).2
      | [] => pgOpen2 len (newDup ps pgid).1 (newDup ps pgid).2 := by
  unfold pgOpen pgOpen2
  obtain ⟨pstack, inPG, cur, dstore, next, reg⟩ := ps
  cases pstack with
  | nil => rfl
  | cons f fs =>
    simp only []
    split <;> rfl

theorem aft_pgOpen (o : PS) (hf : o.fresh) (len : Nat) (pgid : Option String) (ps : PS) :
    pgOpen len pgid (aft o ps) = aft o (pgOpen len pgid ps) := by
  rw [pgOpen_eq, pgOpen_eq]
  have hp : (aft o ps).pstack = ps.pstack.map (PFrame.shift o.next) := rfl
  rw [hp, aft_newDup]
  cases ps.pstack with
  | nil => exact aft_pgOpen2 o hf _ _ _
  | cons f fs =>
    simp only [List.map_cons]
    have h1 : (PFrame.shift o.next f).depth = f.depth := rfl
    have h2 : (PFrame.shift o.next f).did = f.did + o.next := rfl
    rw [h1, h2]
    split
    · exact aft_pgOpen2 o hf _ _ _
    · exact aft_pgOpen2 o hf _ _ _


theorem aft_pgClose (o : PS) (hf : o.fresh) (kids : List Node) (ps : PS) :
    pgClose (kids.map (Node.shift o.next)) (aft o ps) = (pgClose kids ps).map (aft o) := by
  obtain ⟨pstack, inPG, cur, dstore, next, reg⟩ := ps
  cases pstack with
  | nil => rfl
  | cons f fs =>
    have hg := aft_getDup o ⟨f :: fs, inPG, cur, dstore, next, reg⟩ hf f.did
    have hs := aft_setMRCA o ⟨fs, inPG, cur, dstore, next, reg⟩ hf kids f.did
    simp only [pgClose, aft, List.map_cons, PFrame.shift, bind, Except.bind] at hg hs ⊢
    rw [hg]
    cases PS.getDup ⟨f :: fs, inPG, cur, dstore, next, reg⟩ f.did with
    | none => rfl
    | some b =>
      simp only [Option.map_some, DupBuild.shift, List.length_map]
      split
      · rfl
      · rw [hs]
        cases setMRCA kids ⟨fs, inPG, cur, dstore, next, reg⟩ f.did with
        | error e => rfl
        | ok p =>
          cases fs with
          | nil => rfl
          | cons g gs => rfl

/-- what opening an orthologGroup does to the state: the flag it gets and the state after -/
def ogStart (len : Nat) (ps : PS) : Option Nat × PS :=
  let ps1 : PS := { ps with next := ps.next + 1 }
  let flag := if ps1.inPG == some len then ps1.cur else none
  (flag, match flag with | some d => ps1.addMember d (.h ps.next) | none => ps1)

theorem aft_bump (o ps : PS) : { aft o ps with next := (aft o ps).next + 1 } = aft o { ps with next := ps.next + 1 } := by
  simp [aft, Nat.add_right_comm]

theorem aft_ogStart (o : PS) (hf : o.fresh) (len : Nat) (ps : PS) :
    ogStart len (aft o ps) = ((ogStart len ps).1.map (· + o.next), aft o (ogStart len ps).2) := by
  unfold ogStart
  simp only []
  rw [aft_bump]
  have h1 : (aft o ps).inPG = ps.inPG := rfl
  have h2 : (aft o ps).cur = ps.cur.map (· + o.next) := rfl
  have h3 : (aft o ps).next = ps.next + o.next := rfl
  rw [h1, h2, h3]
  split
  · cases ps.cur with
    | none => rfl
    | some d =>
      simp only [Option.map_some]
      have hk : Key.h (ps.next + o.next) = (Key.h ps.next).shift o.next := rfl
      rw [hk, aft_addMember o _ hf]
  · rfl

theorem elem_og_eq (env : Env) (len : Nat) (hid og : Option String) (its : List Elem) (hb : HogBuild) (ps : PS) :
    elem env len (.og hid og its) hb ps =
      (elems env (len + 1) its { info := newInfo ps.next hid og, dup := (ogStart len ps).1, kids := [] }
          (ogStart len ps).2).bind fun r =>
        (closeOg env false r.1 r.2).bind fun s => .ok ({ hb with kids := hb.kids ++ s.1 }, s.2) := by
  rw [elem]; rfl

theorem topElem_og_eq (env : Env) (hid og : Option String) (its : List Elem) (tops : List Node) (ps : PS) :
    topElem env none (.og hid og its) tops ps =
      (elems env 1 its { info := newInfo ps.next hid og, dup := (ogStart 0 ps).1, kids := [] }
          (ogStart 0 ps).2).bind fun r =>
        (closeOg env true r.1 r.2).bind fun s => .ok (tops ++ s.1, s.2) := by
  rw [topElem]; rfl


theorem shift_newHb (k uid : Nat) (hid og : Option String) (flag : Option Nat) :
    ({ info := newInfo (uid + k) hid og, dup := flag.map (· + k), kids := [] } : HogBuild) =
      HogBuild.shift k { info := newInfo uid hid og, dup := flag, kids := [] } := rfl

theorem aft_elem (o : PS) (hf : o.fresh) (env : Env) : (e : Elem) → (len : Nat) → (hb : HogBuild) → (ps : PS) →
    elem env len e (hb.shift o.next) (aft o ps) =
      (elem env len e hb ps).map (fun r => (r.1.shift o.next, aft o r.2))
  | .ref id loft, len, hb, ps => by
    simp only [elem]
    cases env.lookupGene id with
    | none => rfl
    | some t =>
      simp only []
      have h1 : (aft o ps).inPG = ps.inPG := rfl
      have h2 : (aft o ps).cur = ps.cur.map (· + o.next) := rfl
      rw [h1, h2]
      split
      · cases ps.cur with
        | none => simp [Except.map, HogBuild.shift, Node.shift]
        | some d =>
          have hk := aft_addMember o ps hf d (.g id)
          simp only [Key.shift] at hk
          simp only [Option.map_some]
          rw [hk]
          simp [Except.map, HogBuild.shift, Node.shift]
      · simp [Except.map, HogBuild.shift, Node.shift]
  | .score id v, len, hb, ps => rfl
  | .prop n v, len, hb, ps => rfl
  | .pg pgid its, len, hb, ps => by
    simp only [elem, aft_pgOpen o hf, bind, Except.bind]
    rw [aft_elems o hf env its len hb]
    cases elems env len its hb (pgOpen len pgid ps) with
    | error e => rfl
    | ok r =>
      simp only [Except.map]
      have hk : (HogBuild.shift o.next r.1).kids = r.1.kids.map (Node.shift o.next) := rfl
      rw [hk, aft_pgClose o hf]
      cases pgClose r.1.kids r.2 with
      | error e => rfl
      | ok p => rfl
  | .og hid og its, len, hb, ps => by
    rw [elem_og_eq, elem_og_eq, aft_ogStart o hf]
    have h3 : (aft o ps).next = ps.next + o.next := rfl
    rw [h3, shift_newHb, aft_elems o hf env its (len + 1)]
    cases elems env (len + 1) its { info := newInfo ps.next hid og, dup := (ogStart len ps).1, kids := [] }
        (ogStart len ps).2 with
    | error e => rfl
    | ok r =>
      simp only [Except.map, Except.bind, aft_closeOg o hf]
      cases closeOg env false r.1 r.2 with
      | error e => rfl
      | ok s => simp [HogBuild.shift]
where
  aft_elems (o : PS) (hf : o.fresh) (env : Env) : (es : List Elem) → (len : Nat) → (hb : HogBuild) → (ps : PS) →
      elems env len es (hb.shift o.next) (aft o ps) =
        (elems env len es hb ps).map (fun r => (r.1.shift o.next, aft o r.2))
    | [], len, hb, ps => rfl
    | e :: es, len, hb, ps => by
      simp only [elems, bind, Except.bind]
      rw [aft_elem o hf env e len hb ps]
      cases elem env len e hb ps with
      | error e => rfl
      | ok r =>
        simp only [Except.map]
        exact aft_elems o hf env es len r.1 r.2

theorem idle_eq_aft (o : PS) (hi : o.idle) : o = aft o {} := by
  obtain ⟨pstack, inPG, cur, dstore, next, reg⟩ := o
  obtain ⟨h1, h2, h3⟩ := hi
  simp only at h1 h2 h3
  subst h1 h2 h3
  simp [aft]

theorem family_local' (env : Env) (hid og : Option String) (its : List Elem) (tops0 : List Node) (ps0 : PS)
    (hi : ps0.idle) (hf : ps0.fresh) :
    topElem env none (.og hid og its) tops0 ps0 =
      match topElem env none (.og hid og its) [] {} with
      | .error e => .error e
      | .ok (res, ps') => .ok (tops0 ++ Node.shiftL ps0.next res, ps0.after ps') := by
  conv => lhs; rw [idle_eq_aft ps0 hi]
  rw [topElem_og_eq, topElem_og_eq, aft_ogStart ps0 hf]
  have h3 : (aft ps0 {}).next = ({} : PS).next + ps0.next := rfl
  rw [h3, shift_newHb, aft_elem.aft_elems ps0 hf env its 1]
  cases elems env 1 its { info := newInfo ({} : PS).next hid og, dup := (ogStart 0 {}).1, kids := [] }
      (ogStart 0 {}).2 with
  | error e => rfl
  | ok r =>
    simp only [Except.map, Except.bind, aft_closeOg ps0 hf]
    cases closeOg env true r.1 r.2 with
    | error e => rfl
    | ok s => simp [shiftL_eq_map, after_eq_aft _ _ hi.1]

/-- a step that leaves the paralogGroup bookkeeping alone and only appends to what it may -/
def Keep (ps ps' : PS) : Prop :=
  ps'.pstack = ps.pstack ∧ ps'.inPG = ps.inPG ∧ ps'.cur = ps.cur ∧ ps.next ≤ ps'.next ∧
    ps'.dstore.map (·.did) = ps.dstore.map (·.did)

theorem Keep.refl (ps : PS) : Keep ps ps := ⟨rfl, rfl, rfl, Nat.le_refl _, rfl⟩

theorem Keep.trans {a b c : PS} (h1 : Keep a b) (h2 : Keep b c) : Keep a c :=
  ⟨h2.1.trans h1.1, h2.2.1.trans h1.2.1, h2.2.2.1.trans h1.2.2.1, Nat.le_trans h1.2.2.2.1 h2.2.2.2.1,
    h2.2.2.2.2.trans h1.2.2.2.2⟩

theorem keep_modDup (ps : PS) (d : Nat) (f : DupBuild → DupBuild) (hf : ∀ b, (f b).did = b.did) :
    Keep ps (ps.modDup d f) := by
  refine ⟨rfl, rfl, rfl, Nat.le_refl _, ?_⟩
  simp only [PS.modDup, List.map_map]
  apply List.map_congr_left
  intro b _
  simp only [Function.comp_def]
  split
  · exact hf b
  · rfl

theorem keep_register (ps : PS) (t : Taxon) (k : Key) : Keep ps (ps.register t k) := Keep.refl ps

theorem keep_bump (ps : PS) : Keep ps { ps with next := ps.next + 1 } :=
  ⟨rfl, rfl, rfl, Nat.le_succ _, rfl⟩

theorem keep_bump_reg (ps : PS) (t : Taxon) (k : Key) :
    Keep ps (PS.register { ps with next := ps.next + 1 } t k) :=
  ⟨rfl, rfl, rfl, Nat.le_succ _, rfl⟩

theorem keep_setMRCA (kids : List Node) (ps : PS) (d : Nat) (ps' : PS) (h : setMRCA kids ps d = .ok ps') :
    Keep ps ps' := by
  simp only [setMRCA] at h
  repeat' split at h
  all_goals cases h
  all_goals exact keep_modDup _ _ _ (fun _ => rfl)

theorem keep_addMissing (hid : Option String) : (ts : List Taxon) → (cur : Node) → (ps : PS) →
    (top : Node) → (ps' : PS) → addMissing hid cur ts ps = .ok (top, ps') → Keep ps ps'
  | [], cur, ps, top, ps', h => by
    simp [addMissing] at h
    obtain ⟨_, rfl⟩ := h
    exact Keep.refl _
  | t :: ts, cur, ps, top, ps', h => by
    simp only [addMissing] at h
    split at h
    · cases h
    · exact (keep_bump_reg ps _ _).trans (keep_addMissing hid ts _ _ _ _ h)

theorem keep_genericPass (hid : Option String) (level : Taxon) : (cs kids : List Node) → (ps : PS) →
    (kids' : List Node) → (ps' : PS) → genericPass hid level cs kids ps = .ok (kids', ps') → Keep ps ps'
  | [], kids, ps, kids', ps', h => by
    simp [genericPass] at h
    obtain ⟨_, rfl⟩ := h
    exact Keep.refl _
  | c :: cs, kids, ps, kids', ps', h => by
    simp only [genericPass, bind, Except.bind] at h
    split at h
    · cases h
    · rename_i r hr
      obtain ⟨top, ps1⟩ := r
      exact (keep_addMissing _ _ _ _ _ _ hr).trans (keep_genericPass hid level cs _ ps1 kids' ps' h)

theorem keep_rehomeDirect (hid : Option String) (level : Taxon) (d : Nat) : (cs kids : List Node) →
    (mem : List Key) → (ps : PS) → (kids' : List Node) → (mem' : List Key) → (ps' : PS) →
    rehomeDirect hid level d cs kids mem ps = .ok (kids', mem', ps') → Keep ps ps'
  | [], kids, mem, ps, kids', mem', ps', h => by
    simp [rehomeDirect] at h
    obtain ⟨_, _, rfl⟩ := h
    exact Keep.refl _
  | c :: cs, kids, mem, ps, kids', mem', ps', h => by
    simp only [rehomeDirect, bind, Except.bind] at h
    split at h
    · cases h
    · rename_i r hr
      obtain ⟨top, ps1⟩ := r
      simp only at h
      split at h
      · cases h
      · exact (keep_addMissing _ _ _ _ _ _ hr).trans (keep_rehomeDirect hid level d cs _ _ ps1 kids' mem' ps' h)

theorem keep_rehomeUnder (hid : Option String) (mrcaTx : Taxon) : (cs kids mk : List Node) → (ps : PS) →
    (kids' mk' : List Node) → (ps' : PS) →
    rehomeUnder hid mrcaTx cs kids mk ps = .ok (kids', mk', ps') → Keep ps ps'
  | [], kids, mk, ps, kids', mk', ps', h => by
    simp [rehomeUnder] at h
    obtain ⟨_, _, rfl⟩ := h
    exact Keep.refl _
  | c :: cs, kids, mk, ps, kids', mk', ps', h => by
    simp only [rehomeUnder, bind, Except.bind] at h
    split at h
    · cases h
    · rename_i r hr
      obtain ⟨top, ps1⟩ := r
      simp only at h
      exact (keep_addMissing _ _ _ _ _ _ hr).trans (keep_rehomeUnder hid mrcaTx cs _ _ ps1 kids' mk' ps' h)

theorem keep_dupStep (hid : Option String) (level : Taxon) (st : CloseSt) (d : Nat) (st' : CloseSt)
    (h : dupStep hid level st d = .ok st') : Keep st.ps st'.ps := by
  simp only [dupStep, bind, Except.bind] at h
  split at h
  · rename_i b hgd
    split at h
    · rename_i mrcaTx hm
      split at h
      · cases h
      · split at h
        · split at h
          · cases h
          · rename_i v hr
            obtain ⟨k1, m1, p1⟩ := v
            simp only [Except.ok.injEq] at h
            subst h
            exact ((keep_bump_reg _ _ _).trans (keep_rehomeUnder _ _ _ _ _ _ _ _ _ hr)).trans
              (keep_modDup _ _ _ (fun _ => rfl))
        · split at h
          · cases h
          · rename_i v hr
            obtain ⟨k1, m1, p1⟩ := v
            simp only [Except.ok.injEq] at h
            subst h
            exact (keep_rehomeDirect _ _ _ _ _ _ _ _ _ _ hr).trans (keep_modDup _ _ _ (fun _ => rfl))
    · cases h
  · cases h

theorem keep_dupSteps (hid : Option String) (level : Taxon) : (ds : List Nat) → (st st' : CloseSt) →
    dupSteps hid level ds st = .ok st' → Keep st.ps st'.ps
  | [], st, st', h => by
    simp [dupSteps] at h
    subst h
    exact Keep.refl _
  | d :: ds, st, st', h => by
    simp only [dupSteps, bind, Except.bind] at h
    split at h
    · cases h
    · rename_i st1 h1
      exact (keep_dupStep hid level st d st1 h1).trans (keep_dupSteps hid level ds st1 st' h)

/-- outside every paralogGroup nothing is flagged -/
def PS.J (ps : PS) : Prop := ps.pstack = [] → ps.inPG = none ∧ ps.cur = none

def Step (ps ps' : PS) : Prop :=
  ps'.pstack.length = ps.pstack.length ∧ ps.next ≤ ps'.next ∧ (ps.J → ps'.J) ∧ (ps.fresh → ps'.fresh)

theorem Step.refl (ps : PS) : Step ps ps := ⟨rfl, Nat.le_refl _, id, id⟩

theorem Step.trans {a b c : PS} (h1 : Step a b) (h2 : Step b c) : Step a c :=
  ⟨h2.1.trans h1.1, Nat.le_trans h1.2.1 h2.2.1, fun h => h2.2.2.1 (h1.2.2.1 h), fun h => h2.2.2.2 (h1.2.2.2 h)⟩

theorem fresh_iff (ps : PS) : ps.fresh ↔ ∀ d ∈ ps.dstore.map (·.did), d < ps.next := by
  simp [PS.fresh]

theorem Keep.fresh {ps ps' : PS} (h : Keep ps ps') (hf : ps.fresh) : ps'.fresh := by
  rw [fresh_iff] at *
  intro d hd
  rw [h.2.2.2.2] at hd
  exact Nat.lt_of_lt_of_le (hf d hd) h.2.2.2.1

theorem Keep.step {ps ps' : PS} (h : Keep ps ps') : Step ps ps' := by
  refine ⟨by rw [h.1], h.2.2.2.1, ?_, h.fresh⟩
  intro hj hp
  rw [h.1] at hp
  rw [h.2.1, h.2.2.1]
  exact hj hp

theorem step_head (X : PS) (f f' : PFrame) (fs : List PFrame) (hp : X.pstack = f :: fs) :
    Step X { X with pstack := f' :: fs } := by
  refine ⟨by simp [hp], Nat.le_refl _, ?_, id⟩
  intro _ hp'
  simp at hp'

theorem step_closeOg (env : Env) (top : Bool) (hb : HogBuild) (ps : PS) (res : List Node) (ps' : PS)
    (h : closeOg env top hb ps = .ok (res, ps')) : Step ps ps' := by
  simp only [closeOg, bind, Except.bind] at h
  split at h
  · cases h
  · rename_i lv hlv
    split at h
    · split at h
      · cases h
      · split at h
        · simp only [Except.ok.injEq, Prod.mk.injEq] at h
          obtain ⟨_, rfl⟩ := h
          exact Step.refl _
        · rename_i d hd
          split at h
          · split at h
            · cases h
            · split at h
              · cases h
              · rename_i f fs hp
                simp only [Except.ok.injEq, Prod.mk.injEq] at h
                obtain ⟨_, rfl⟩ := h
                have h2 := step_head _ f { f with depth := f.depth - 1 } fs hp
                refine Step.trans ?_ h2
                apply Keep.step
                apply keep_modDup
                intro _; rfl
          · cases h
    · rename_i lv0
      split at h
      · cases h
      · rename_i level hl
        split at h
        · cases h
        · rename_i st hst
          split at h
          · cases h
          · rename_i v hg
            obtain ⟨kids, ps2⟩ := v
            simp only [Except.ok.injEq, Prod.mk.injEq] at h
            obtain ⟨_, rfl⟩ := h
            have h1 := keep_dupSteps _ _ _ _ _ hst
            have h2 := keep_genericPass _ _ _ _ _ _ _ hg
            exact ((keep_register ps level (.h hb.info.uid)).trans (h1.trans h2)).step

theorem keep_ogStart (len : Nat) (ps : PS) : Keep ps (ogStart len ps).2 ∧ ps.next + 1 ≤ (ogStart len ps).2.next := by
  unfold ogStart
  simp only []
  split
  · rename_i d _
    refine ⟨(keep_bump ps).trans ?_, Nat.le_refl _⟩
    apply keep_modDup
    intro _; rfl
  · exact ⟨keep_bump ps, Nat.le_refl _⟩

theorem fresh_newDup (ps : PS) (pgid : Option String) (hf : ps.fresh) : (newDup ps pgid).2.fresh := by
  intro b hb
  simp only [newDup, List.mem_append, List.mem_singleton] at hb ⊢
  rcases hb with hb | rfl
  · exact Nat.lt_succ_of_lt (hf b hb)
  · exact Nat.lt_succ_self _

theorem pgOpen2_props (len did : Nat) (ps : PS) :
    (pgOpen2 len did ps).pstack.length = ps.pstack.length + 1 ∧ (pgOpen2 len did ps).next = ps.next ∧
      (ps.fresh → (pgOpen2 len did ps).fresh) :=
  ⟨rfl, rfl, id⟩

theorem pgOpen_props (len : Nat) (pgid : Option String) (ps : PS) :
    (pgOpen len pgid ps).pstack.length = ps.pstack.length + 1 ∧ ps.next ≤ (pgOpen len pgid ps).next ∧
      (ps.fresh → (pgOpen len pgid ps).fresh) := by
  have hn : ∀ did, (pgOpen2 len did (newDup ps pgid).2).pstack.length = ps.pstack.length + 1 ∧
      ps.next ≤ (pgOpen2 len did (newDup ps pgid).2).next ∧
      (ps.fresh → (pgOpen2 len did (newDup ps pgid).2).fresh) := by
    intro did
    obtain ⟨h1, h2, h3⟩ := pgOpen2_props len did (newDup ps pgid).2
    refine ⟨h1, ?_, fun hf => h3 (fresh_newDup ps pgid hf)⟩
    rw [h2]; exact Nat.le_succ _
  rw [pgOpen_eq]
  split
  · split
    · obtain ⟨h1, h2, h3⟩ := pgOpen2_props len (‹PFrame›).did ps
      exact ⟨h1, Nat.le_of_eq h2.symm, h3⟩
    · exact hn _
  · exact hn _

theorem pgClose_props (kids : List Node) (ps ps' : PS) (h : pgClose kids ps = .ok ps') :
    ps'.pstack.length + 1 = ps.pstack.length ∧ ps'.J ∧ ps'.next = ps.next ∧ (ps.fresh → ps'.fresh) := by
  have hnext := pgClose_next kids ps ps' h
  simp only [pgClose, bind, Except.bind] at h
  split at h
  · cases h
  · rename_i f fs hp
    split at h
    · split at h
      · cases h
      · split at h
        · cases h
        · rename_i p hv
          have hk := keep_setMRCA _ _ _ _ hv
          have hfr : ps.fresh → p.fresh := fun hf => hk.fresh hf
          have hpp : p.pstack = fs := hk.1
          split at h
          · simp only [Except.ok.injEq] at h
            subst h
            refine ⟨by simp [hp, hpp], ?_, hnext, hfr⟩
            intro hc
            simp [hpp] at hc
          · simp only [Except.ok.injEq] at h
            subst h
            refine ⟨by simp [hp, hpp], fun _ => ⟨rfl, rfl⟩, hnext, hfr⟩
    · cases h

theorem step_elem (env : Env) : (e : Elem) → (len : Nat) → (hb : HogBuild) → (ps : PS) →
    (hb' : HogBuild) → (ps' : PS) → elem env len e hb ps = .ok (hb', ps') → Step ps ps'
  | .ref id loft, len, hb, ps, hb', ps', h => by
    simp only [elem] at h
    split at h
    · cases h
    · simp only [Except.ok.injEq, Prod.mk.injEq] at h
      obtain ⟨_, rfl⟩ := h
      split
      · apply Keep.step
        apply keep_modDup
        intro _; rfl
      · exact Step.refl _
  | .score id v, len, hb, ps, hb', ps', h => by
    simp only [elem, Except.ok.injEq, Prod.mk.injEq] at h
    obtain ⟨_, rfl⟩ := h
    exact Step.refl _
  | .prop n v, len, hb, ps, hb', ps', h => by
    simp only [elem, Except.ok.injEq, Prod.mk.injEq] at h
    obtain ⟨_, rfl⟩ := h
    exact Step.refl _
  | .pg pgid its, len, hb, ps, hb', ps', h => by
    simp only [elem, bind, Except.bind] at h
    split at h
    · cases h
    · rename_i v hv
      obtain ⟨hb1, ps2⟩ := v
      split at h
      · cases h
      · rename_i ps3 hc
        simp only [Except.ok.injEq, Prod.mk.injEq] at h
        obtain ⟨_, rfl⟩ := h
        obtain ⟨o1, o2, o3⟩ := pgOpen_props len pgid ps
        obtain ⟨s1, s2, _, s4⟩ := step_elems env its len hb _ hb1 ps2 hv
        obtain ⟨c1, c2, c3, c4⟩ := pgClose_props _ _ _ hc
        simp only at c1 c3 c4
        exact ⟨by omega, by omega, fun _ => c2, fun hf => c4 (s4 (o3 hf))⟩
  | .og hid og its, len, hb, ps, hb', ps', h => by
    rw [elem_og_eq] at h
    simp only [Except.bind] at h
    split at h
    · cases h
    · rename_i v hv
      split at h
      · cases h
      · rename_i w hw
        simp only [Except.ok.injEq, Prod.mk.injEq] at h
        obtain ⟨_, rfl⟩ := h
        exact ((keep_ogStart len ps).1.step.trans (step_elems env its (len + 1) _ _ _ _ hv)).trans
          (step_closeOg _ _ _ _ _ _ hw)
where
  step_elems (env : Env) : (es : List Elem) → (len : Nat) → (hb : HogBuild) → (ps : PS) →
      (hb' : HogBuild) → (ps' : PS) → elems env len es hb ps = .ok (hb', ps') → Step ps ps'
    | [], len, hb, ps, hb', ps', h => by
      simp only [elems, Except.ok.injEq, Prod.mk.injEq] at h
      obtain ⟨_, rfl⟩ := h
      exact Step.refl _
    | e :: es, len, hb, ps, hb', ps', h => by
      simp only [elems, bind, Except.bind] at h
      split at h
      · cases h
      · rename_i v hv
        obtain ⟨hb1, ps1⟩ := v
        exact (step_elem env e len hb ps hb1 ps1 hv).trans (step_elems env es len hb1 ps1 hb' ps' h)

theorem family_idle_fresh' (env : Env) (hid og : Option String) (its : List Elem) (tops0 tops1 : List Node) (ps0 ps1 : PS)
    (hi : ps0.idle) (hf : ps0.fresh)
    (h : topElem env none (.og hid og its) tops0 ps0 = .ok (tops1, ps1)) :
    ps1.idle ∧ ps1.fresh ∧ ps0.next ≤ ps1.next := by
  rw [topElem_og_eq] at h
  simp only [Except.bind] at h
  split at h
  · cases h
  · rename_i v hv
    split at h
    · cases h
    · rename_i w hw
      simp only [Except.ok.injEq, Prod.mk.injEq] at h
      obtain ⟨_, rfl⟩ := h
      obtain ⟨s1, s2, s3, s4⟩ := ((keep_ogStart 0 ps0).1.step.trans (step_elem.step_elems env its 1 _ _ _ _ hv)).trans
        (step_closeOg _ _ _ _ _ _ hw)
      have hp : w.2.pstack = [] := by
        rw [hi.1] at s1
        exact List.eq_nil_of_length_eq_zero s1
      have hj := s3 (fun _ => hi.2) hp
      exact ⟨⟨hp, hj⟩, s4 hf, s2⟩

theorem idle_empty : ({} : PS).idle := ⟨rfl, rfl, rfl⟩
theorem fresh_empty : ({} : PS).fresh := by intro b hb; cases hb

theorem families_aux (env : Env) : (es : List Elem) → (tops0 : List Node) → (ps0 : PS) →
    (tops : List Node) → (ps : PS) → ps0.idle → ps0.fresh →
    topElems env none es tops0 ps0 = .ok (tops, ps) → es.all isOg = true →
    ∃ new, tops = tops0 ++ new ∧ new.length = es.length ∧
      ∀ i (h1 : i < new.length) (h2 : i < es.length),
        ∃ (n : Node) (ps' : PS) (k : Nat), topElem env none es[i] [] {} = .ok ([n], ps') ∧ new[i] = n.shift k
  | [], tops0, ps0, tops, ps, _, _, h, _ => by
    simp only [topElems, Except.ok.injEq, Prod.mk.injEq] at h
    obtain ⟨rfl, rfl⟩ := h
    exact ⟨[], by simp, rfl, fun i h1 => by simp at h1⟩
  | e :: es, tops0, ps0, tops, ps, hi, hf, h, hog => by
    simp only [topElems, bind, Except.bind] at h
    split at h
    · cases h
    · rename_i v hv
      obtain ⟨tops1, ps1⟩ := v
      simp only [List.all_cons, Bool.and_eq_true] at hog
      obtain ⟨he, hes⟩ := hog
      cases e with
      | og hid og its =>
        obtain ⟨hi1, hf1, _⟩ := family_idle_fresh' env hid og its tops0 tops1 ps0 ps1 hi hf hv
        have hl := family_local' env hid og its tops0 ps0 hi hf
        rw [hv] at hl
        cases hal : topElem env none (.og hid og its) [] {} with
        | error err => rw [hal] at hl; cases hl
        | ok r =>
          obtain ⟨res, p'⟩ := r
          rw [hal] at hl
          simp only [Except.ok.injEq, Prod.mk.injEq] at hl
          obtain ⟨rfl, rfl⟩ := hl
          obtain ⟨x, hx, _⟩ := topOg_spec env hid og its [] {} res p' hal
          simp only [List.nil_append] at hx
          subst hx
          obtain ⟨new, rfl, hlen, hnew⟩ := families_aux env es _ _ tops ps hi1 hf1 h hes
          refine ⟨x.shift ps0.next :: new, by simp [Node.shiftL], by simp [hlen], ?_⟩
          intro i h1' h2'
          cases i with
          | zero => exact ⟨x, p', ps0.next, hal, rfl⟩
          | succ i =>
            simp only [List.getElem_cons_succ]
            exact hnew i (by simpa using h1') (by simpa using h2')
      | _ => simp [isOg] at he

theorem families_local' (env : Env) (es : List Elem) (tops : List Node) (ps : PS)
    (hog : es.all isOg = true) (h : topElems env none es [] {} = .ok (tops, ps)) :
    tops.length = es.length ∧
    ∀ i (h1 : i < tops.length) (h2 : i < es.length),
      ∃ (n : Node) (ps' : PS) (k : Nat), topElem env none es[i] [] {} = .ok ([n], ps') ∧ tops[i] = n.shift k := by
  obtain ⟨new, rfl, hl, hi⟩ := families_aux env es [] {} tops ps idle_empty fresh_empty h hog
  exact ⟨by simpa using hl, by simpa using hi⟩

theorem C11_family_identical' (env : Env) (es es' : List Elem) (tops tops' : List Node) (ps ps' : PS)
    (hog : es.all isOg = true) (hog' : es'.all isOg = true)
    (h : topElems env none es [] {} = .ok (tops, ps)) (h' : topElems env none es' [] {} = .ok (tops', ps'))
    (i j : Nat) (hi : i < es.length) (hj : j < es'.length) (he : es[i] = es'[j]) :
    ∃ (n : Node) (k k' : Nat) (h1 : i < tops.length) (h2 : j < tops'.length),
      tops[i] = n.shift k ∧ tops'[j] = n.shift k' := by
  obtain ⟨l1, f1⟩ := families_local' env es tops ps hog h
  obtain ⟨l2, f2⟩ := families_local' env es' tops' ps' hog' h'
  have h1 : i < tops.length := by omega
  have h2 : j < tops'.length := by omega
  obtain ⟨n, p, k, a1, a2⟩ := f1 i h1 hi
  obtain ⟨n', p', k', b1, b2⟩ := f2 j h2 hj
  rw [he, b1] at a1
  simp only [Except.ok.injEq, Prod.mk.injEq, List.cons.injEq, and_true] at a1
  obtain ⟨rfl, _⟩ := a1
  exact ⟨n', k, k', h1, h2, a2, b2⟩

theorem shift_tx' (k : Nat) (n : Node) : (n.shift k).tx = n.tx := sh_tx k n

mutual
theorem shift_leaves_n (k : Nat) : (n : Node) → (n.shift k).leaves = n.leaves
  | .gene .. => rfl
  | .hog info t d ks ds => by
    simp only [Node.shift, Node.leaves]
    exact shift_leaves_l k ks
theorem shift_leaves_l (k : Nat) : (l : List Node) → Node.leavesL (Node.shiftL k l) = Node.leavesL l
  | [] => rfl
  | n :: ns => by
    simp only [Node.shiftL, Node.leavesL, shift_leaves_n k n, shift_leaves_l k ns]
end

mutual
theorem shift_hogs_n (k : Nat) : (n : Node) → (n.shift k).hogs.map Node.tx = n.hogs.map Node.tx
  | .gene .. => rfl
  | .hog info t d ks ds => by
    simp only [Node.shift, Node.hogs, List.map_cons, Node.tx, shift_hogs_l k ks]
theorem shift_hogs_l (k : Nat) : (l : List Node) → (Node.hogsL (Node.shiftL k l)).map Node.tx = (Node.hogsL l).map Node.tx
  | [] => rfl
  | n :: ns => by
    simp only [Node.shiftL, Node.hogsL, List.map_append, shift_hogs_n k n, shift_hogs_l k ns]
end

theorem shift_dup_grouping' (k : Nat) (info : HogInfo) (t : Taxon) (d : Option Nat) (ks : List Node) (ds : List DupRec) :
    ∃ info' ks' ds', (Node.hog info t d ks ds).shift k = .hog info' t (d.map (· + k)) ks' ds' ∧
      ks'.map Node.dup = ks.map (fun c => c.dup.map (· + k)) ∧ ds'.map (·.did) = ds.map (·.did + k) ∧
      ds'.map (·.mrca) = ds.map (·.mrca) ∧ ds'.map (·.pgid) = ds.map (·.pgid) ∧
      info'.hid = info.hid ∧ info'.scores = info.scores ∧ info'.props = info.props ∧ info'.synth = info.synth := by
  refine ⟨_, _, _, rfl, ?_, ?_, ?_, ?_, rfl, rfl, rfl, rfl⟩
  · simp [shiftL_eq_map, Function.comp_def]
  · simp [DupRec.shift, Function.comp_def]
  · simp [DupRec.shift, Function.comp_def]
  · simp [DupRec.shift, Function.comp_def]

/-- **locality of one family**: loading a top-level orthologGroup after anything (with no paralogGroup open)
    is loading it alone, shifted; errors are the same errors -/
theorem family_local (env : Env) (hid og : Option String) (its : List Elem) (tops0 : List Node) (ps0 : PS)
    (hi : ps0.idle) (hf : ps0.fresh) :
    topElem env none (.og hid og its) tops0 ps0 =
      match topElem env none (.og hid og its) [] {} with
      | .error e => .error e
      | .ok (res, ps') => .ok (tops0 ++ Node.shiftL ps0.next res, ps0.after ps') := by
  exact family_local' env hid og its tops0 ps0 hi hf

/-- loading a top-level orthologGroup leaves no paralogGroup open and keeps the numbering fresh -/
theorem family_idle_fresh (env : Env) (hid og : Option String) (its : List Elem) (tops0 tops1 : List Node) (ps0 ps1 : PS)
    (hi : ps0.idle) (hf : ps0.fresh)
    (h : topElem env none (.og hid og its) tops0 ps0 = .ok (tops1, ps1)) :
    ps1.idle ∧ ps1.fresh ∧ ps0.next ≤ ps1.next := by
  exact family_idle_fresh' env hid og its tops0 tops1 ps0 ps1 hi hf h

/-- **every family of a file is the family loaded alone, shifted** -/
theorem families_local (env : Env) (es : List Elem) (tops : List Node) (ps : PS)
    (hog : es.all isOg = true) (h : topElems env none es [] {} = .ok (tops, ps)) :
    tops.length = es.length ∧
    ∀ i (h1 : i < tops.length) (h2 : i < es.length),
      ∃ (n : Node) (ps' : PS) (k : Nat), topElem env none es[i] [] {} = .ok ([n], ps') ∧ tops[i] = n.shift k := by
  exact families_local' env es tops ps hog h

/-- **C11 / C14 (position in the file, other families)**: if two files (e.g. a file and its projection onto
    the selected families, or the same families in another order) both load and contain the same top-level
    group `e`, the family loaded for `e` is the same hierarchy in both, up to the numbering of objects -/
theorem C11_family_identical (env : Env) (es es' : List Elem) (tops tops' : List Node) (ps ps' : PS)
    (hog : es.all isOg = true) (hog' : es'.all isOg = true)
    (h : topElems env none es [] {} = .ok (tops, ps)) (h' : topElems env none es' [] {} = .ok (tops', ps'))
    (i j : Nat) (hi : i < es.length) (hj : j < es'.length) (he : es[i] = es'[j]) :
    ∃ (n : Node) (k k' : Nat) (h1 : i < tops.length) (h2 : j < tops'.length),
      tops[i] = n.shift k ∧ tops'[j] = n.shift k' := by
  exact C11_family_identical' env es es' tops tops' ps ps' hog hog' h h' i j hi hj he

/-- shifting changes nothing a property talks about: members, taxa, the shape of the hierarchy -/
theorem shift_leaves (k : Nat) (n : Node) : (n.shift k).leaves = n.leaves := by
  exact shift_leaves_n k n

theorem shift_tx (k : Nat) (n : Node) : (n.shift k).tx = n.tx := by
  exact sh_tx k n

/-- levels of all HOGs, prefix order -/
theorem shift_hogs_tx (k : Nat) (n : Node) : (n.shift k).hogs.map Node.tx = n.hogs.map Node.tx := by
  exact shift_hogs_n k n

/-- the duplication grouping: which children of a HOG belong to which event is preserved (flags and record
    numbers move together) -/
theorem shift_dup_grouping (k : Nat) (info : HogInfo) (t : Taxon) (d : Option Nat) (ks : List Node) (ds : List DupRec) :
    ∃ info' ks' ds', (Node.hog info t d ks ds).shift k = .hog info' t (d.map (· + k)) ks' ds' ∧
      ks'.map Node.dup = ks.map (fun c => c.dup.map (· + k)) ∧ ds'.map (·.did) = ds.map (·.did + k) ∧
      ds'.map (·.mrca) = ds.map (·.mrca) ∧ ds'.map (·.pgid) = ds.map (·.pgid) ∧
      info'.hid = info.hid ∧ info'.scores = info.scores ∧ info'.props = info.props ∧ info'.synth = info.synth := by
  exact shift_dup_grouping' k info t d ks ds

end Pyham
