/-
  The stack machine of `Model/Sax.lean` (one `start` / `end` call at a time, explicit `hog_stack`) run over the
  event stream of a document IS the recursive loader of `Model/Parser.lean`.
-/
import PyhamModel.Model.Sax
namespace Pyham.Sax

theorem runEvents_append (env : Env) (flt : HogFilter) (a b : List Ev) (m : MS) :
    runEvents env flt (a ++ b) m = (runEvents env flt a m).bind fun m' => runEvents env flt b m' := by
  induction a generalizing m with
  | nil => simp [runEvents, Except.bind]
  | cons e es ih =>
    simp only [List.cons_append, runEvents, bind]
    cases h : step env flt m e with
    | error err => simp [Except.bind]
    | ok m' => simp only [Except.bind]; exact ih m'

theorem runEvents_cons (env : Env) (flt : HogFilter) (e : Ev) (es : List Ev) (m : MS) :
    runEvents env flt (e :: es) m = (step env flt m e).bind fun m' => runEvents env flt es m' := by
  simp only [runEvents, bind]

/-! ### skip mode: everything up to the matching end is ignored -/

mutual
theorem skip_elem (env : Env) (flt : HogFilter) : (e : Elem) → (k : Nat) → (tops : List Node) → (ps : PS) →
    (rest : List Ev) →
    runEvents env flt (events e ++ rest) { hstack := [], skip := k + 1, tops := tops, ps := ps } =
      runEvents env flt rest { hstack := [], skip := k + 1, tops := tops, ps := ps }
  | .ref _ _, k, tops, ps, rest => by
    simp [events, runEvents_cons, step, Except.bind]
  | .score _ _, k, tops, ps, rest => by
    simp [events, runEvents_cons, step, Except.bind]
  | .prop _ _, k, tops, ps, rest => by
    simp [events, runEvents_cons, step, Except.bind]
  | .og hid og its, k, tops, ps, rest => by
    simp only [events, List.cons_append, List.append_assoc, runEvents_cons, step]
    simp only [Nat.zero_lt_succ, if_true, Except.bind]
    rw [skip_elems env flt its (k + 1) tops ps]
    simp [runEvents_cons, step, Except.bind]
  | .pg pgid its, k, tops, ps, rest => by
    simp only [events, List.cons_append, List.append_assoc, runEvents_cons, step]
    simp only [Nat.zero_lt_succ, if_true, Except.bind]
    rw [skip_elems env flt its k tops ps]
    simp [runEvents_cons, step, Except.bind]
theorem skip_elems (env : Env) (flt : HogFilter) : (es : List Elem) → (k : Nat) → (tops : List Node) → (ps : PS) →
    (rest : List Ev) →
    runEvents env flt (eventsL es ++ rest) { hstack := [], skip := k + 1, tops := tops, ps := ps } =
      runEvents env flt rest { hstack := [], skip := k + 1, tops := tops, ps := ps }
  | [], k, tops, ps, rest => by simp [eventsL]
  | e :: es, k, tops, ps, rest => by
    simp only [eventsL, List.append_assoc]
    rw [skip_elem env flt e k tops ps, skip_elems env flt es k tops ps]
end

/-! ### inside an open group -/

mutual
theorem sax_elem (env : Env) (flt : HogFilter) : (e : Elem) → (hb : HogBuild) → (st : List HogBuild) →
    (tops : List Node) → (ps : PS) → (rest : List Ev) →
    runEvents env flt (events e ++ rest) { hstack := hb :: st, skip := 0, tops := tops, ps := ps } =
      (elem env (st.length + 1) e hb ps).bind fun r =>
        runEvents env flt rest { hstack := r.1 :: st, skip := 0, tops := tops, ps := r.2 }
  | .ref id loft, hb, st, tops, ps, rest => by
    simp only [events, List.cons_append, List.nil_append, runEvents_cons, step, elem]
    cases h : env.lookupGene id with
    | none => simp [Except.bind]
    | some t =>
      simp only [Except.bind, Nat.lt_irrefl, if_false]
      split
      · cases ps.cur <;> rfl
      · rfl
  | .score id v, hb, st, tops, ps, rest => by
    simp [events, runEvents_cons, step, elem, Except.bind]
  | .prop n v, hb, st, tops, ps, rest => by
    simp [events, runEvents_cons, step, elem, Except.bind]
  | .pg pgid its, hb, st, tops, ps, rest => by
    simp only [events, List.cons_append, List.append_assoc, runEvents_cons, step, elem]
    simp only [Nat.lt_irrefl, if_false, Except.bind, List.length_cons]
    rw [sax_elems env flt its hb st tops (pgOpen (st.length + 1) pgid ps)]
    simp only [bind]
    cases h : elems env (st.length + 1) its hb (pgOpen (st.length + 1) pgid ps) with
    | error err => simp [Except.bind]
    | ok r =>
      simp only [Except.bind, List.nil_append, runEvents_cons, step]
      simp only [Nat.lt_irrefl, if_false, bind]
      cases h2 : pgClose r.1.kids r.2 with
      | error err => simp [Except.bind]
      | ok ps' => simp [Except.bind]
  | .og hid og its, hb, st, tops, ps, rest => by
    simp only [events, List.cons_append, List.append_assoc, runEvents_cons, step, elem]
    simp only [Nat.lt_irrefl, if_false, Except.bind, buildHog, List.length_cons]
    rw [sax_elems env flt its _ (hb :: st) tops _]
    simp only [bind, List.length_cons]
    cases h : elems env (st.length + 1 + 1) its
        { info := newInfo ps.next hid og,
          dup := if ({ ps with next := ps.next + 1 } : PS).inPG == some (st.length + 1) then ({ ps with next := ps.next + 1 } : PS).cur else none,
          kids := [] }
        (match (if ({ ps with next := ps.next + 1 } : PS).inPG == some (st.length + 1) then ({ ps with next := ps.next + 1 } : PS).cur else none) with
          | some d => ({ ps with next := ps.next + 1 } : PS).addMember d (.h ps.next)
          | none => { ps with next := ps.next + 1 }) with
    | error err => simp [Except.bind]
    | ok r =>
      simp only [Except.bind, List.nil_append, runEvents_cons, step]
      simp only [Nat.lt_irrefl, if_false, bind, List.isEmpty_cons]
      cases h2 : closeOg env false r.1 r.2 with
      | error err => simp [Except.bind]
      | ok q => simp [Except.bind]
theorem sax_elems (env : Env) (flt : HogFilter) : (es : List Elem) → (hb : HogBuild) → (st : List HogBuild) →
    (tops : List Node) → (ps : PS) → (rest : List Ev) →
    runEvents env flt (eventsL es ++ rest) { hstack := hb :: st, skip := 0, tops := tops, ps := ps } =
      (elems env (st.length + 1) es hb ps).bind fun r =>
        runEvents env flt rest { hstack := r.1 :: st, skip := 0, tops := tops, ps := r.2 }
  | [], hb, st, tops, ps, rest => by simp [eventsL, elems, Except.bind]
  | e :: es, hb, st, tops, ps, rest => by
    simp only [eventsL, List.append_assoc, elems, bind]
    rw [sax_elem env flt e hb st tops ps]
    cases h : elem env (st.length + 1) e hb ps with
    | error err => simp [Except.bind]
    | ok r =>
      simp only [Except.bind]
      exact sax_elems env flt es r.1 st tops r.2 rest
end

/-! ### at the top of <groups> (empty stack) -/

mutual
theorem sax_topElem (env : Env) (flt : HogFilter) : (e : Elem) → (tops : List Node) → (ps : PS) → (rest : List Ev) →
    runEvents env flt (events e ++ rest) { hstack := [], skip := 0, tops := tops, ps := ps } =
      (topElem env flt e tops ps).bind fun r =>
        runEvents env flt rest { hstack := [], skip := 0, tops := r.1, ps := r.2 }
  | .ref id loft, tops, ps, rest => by
    simp only [events, List.cons_append, List.nil_append, runEvents_cons, step, topElem]
    cases h : env.lookupGene id with
    | none => simp [Except.bind]
    | some t => simp [Except.bind]
  | .score id v, tops, ps, rest => by
    simp [events, runEvents_cons, step, topElem, Except.bind]
  | .prop n v, tops, ps, rest => by
    simp [events, runEvents_cons, step, topElem, Except.bind]
  | .pg pgid its, tops, ps, rest => by
    simp only [events, List.cons_append, List.append_assoc, runEvents_cons, step, topElem]
    simp only [Nat.lt_irrefl, if_false, Except.bind, List.length_nil]
    rw [sax_topElems env flt its tops (pgOpen 0 pgid ps)]
    simp only [bind]
    cases h : topElems env flt its tops (pgOpen 0 pgid ps) with
    | error err => simp [Except.bind]
    | ok r =>
      simp only [Except.bind, List.nil_append, runEvents_cons, step]
      simp only [Nat.lt_irrefl, if_false, bind]
      cases h2 : pgClose r.1 r.2 with
      | error err => simp [Except.bind]
      | ok ps' => simp [Except.bind]
  | .og hid og its, tops, ps, rest => by
    simp only [events, List.cons_append, List.append_assoc, runEvents_cons, step, topElem]
    simp only [Nat.lt_irrefl, if_false]
    cases flt with
    | none =>
      simp only [Except.bind, buildHog, List.length_nil, bind, pure, Except.pure, Bool.not_true, Bool.false_eq_true, if_false]
      rw [sax_elems env none its _ [] tops _]
      simp only [List.length_nil, Nat.zero_add]
      cases h : elems env 1 its
          { info := newInfo ps.next hid og,
            dup := if ({ ps with next := ps.next + 1 } : PS).inPG == some 0 then ({ ps with next := ps.next + 1 } : PS).cur else none,
            kids := [] }
          (match (if ({ ps with next := ps.next + 1 } : PS).inPG == some 0 then ({ ps with next := ps.next + 1 } : PS).cur else none) with
            | some d => ({ ps with next := ps.next + 1 } : PS).addMember d (.h ps.next)
            | none => { ps with next := ps.next + 1 }) with
      | error err => simp [Except.bind]
      | ok r =>
        simp only [Except.bind, List.nil_append, runEvents_cons, step]
        simp only [Nat.lt_irrefl, if_false, bind, List.isEmpty_nil]
        cases h2 : closeOg env true r.1 r.2 with
        | error err => simp [Except.bind]
        | ok q => simp [Except.bind]
    | some ids =>
      cases hid with
      | none => simp [Except.bind, bind, throw, throwThe, MonadExceptOf.throw]
      | some i =>
        by_cases hk : ids.contains i = true
        · simp only [hk, if_true, Except.bind, buildHog, List.length_nil, bind, pure, Except.pure, Bool.not_true, Bool.false_eq_true, if_false]
          rw [sax_elems env (some ids) its _ [] tops _]
          simp only [List.length_nil, Nat.zero_add]
          cases h : elems env 1 its
              { info := newInfo ps.next (some i) og,
                dup := if ({ ps with next := ps.next + 1 } : PS).inPG == some 0 then ({ ps with next := ps.next + 1 } : PS).cur else none,
                kids := [] }
              (match (if ({ ps with next := ps.next + 1 } : PS).inPG == some 0 then ({ ps with next := ps.next + 1 } : PS).cur else none) with
                | some d => ({ ps with next := ps.next + 1 } : PS).addMember d (.h ps.next)
                | none => { ps with next := ps.next + 1 }) with
          | error err => simp [Except.bind]
          | ok r =>
            simp only [Except.bind, List.nil_append, runEvents_cons, step]
            simp only [Nat.lt_irrefl, if_false, bind, List.isEmpty_nil]
            cases h2 : closeOg env true r.1 r.2 with
            | error err => simp [Except.bind]
            | ok q => simp [Except.bind]
        · have hk' : ids.contains i = false := by simpa using hk
          simp only [hk', Bool.false_eq_true, if_false, Except.bind, bind, pure, Except.pure, Bool.not_false, if_true]
          rw [skip_elems env (some ids) its 0 tops ps]
          simp [runEvents_cons, step, Except.bind]
theorem sax_topElems (env : Env) (flt : HogFilter) : (es : List Elem) → (tops : List Node) → (ps : PS) → (rest : List Ev) →
    runEvents env flt (eventsL es ++ rest) { hstack := [], skip := 0, tops := tops, ps := ps } =
      (topElems env flt es tops ps).bind fun r =>
        runEvents env flt rest { hstack := [], skip := 0, tops := r.1, ps := r.2 }
  | [], tops, ps, rest => by simp [eventsL, topElems, Except.bind]
  | e :: es, tops, ps, rest => by
    simp only [eventsL, List.append_assoc, topElems, bind]
    rw [sax_topElem env flt e tops ps]
    cases h : topElem env flt e tops ps with
    | error err => simp [Except.bind]
    | ok r =>
      simp only [Except.bind]
      exact sax_topElems env flt es r.1 r.2 rest
end

/-- the stack machine run over the events of the whole <groups> section ends, with an empty stack, in exactly the
    families and the parser state of the recursive loader -- or fails with the same exception -/
theorem sax_groups (env : Env) (flt : HogFilter) (groups : List Elem) :
    runEvents env flt (eventsL groups) {} =
      (topElems env flt groups [] {}).map fun r => { hstack := [], skip := 0, tops := r.1, ps := r.2 } := by
  have h := sax_topElems env flt groups [] {} []
  simp only [List.append_nil] at h
  have e0 : ({} : MS) = { hstack := [], skip := 0, tops := [], ps := {} } := rfl
  rw [e0, h]
  cases topElems env flt groups [] {} with
  | error err => rfl
  | ok r => simp [Except.bind, Except.map, runEvents]

theorem buildHamSax_eq (T : STree) (nm : Naming) (inp : Input) (keep : String → Bool) (flt : HogFilter) :
    buildHamSax T nm inp keep flt = buildHam T nm inp keep flt := by
  unfold buildHamSax buildHam
  simp only [bind]
  cases declareSpecies T nm keep inp.species [] with
  | error err => rfl
  | ok genes =>
    simp only [Except.bind, sax_groups]
    cases topElems { T := T, nm := nm, geneTx := genes.reverse.map fun g => (g.id, g.tx) } flt inp.groups [] {} with
    | error err => rfl
    | ok r => rfl

/-! ### the trace the harness compares in lock step -/

theorem trace_end (env : Env) (flt : HogFilter) (es : List Ev) (m : MS) :
    (trace env flt es m).2 = (match runEvents env flt es m with | .ok _ => none | .error e => some e) := by
  induction es generalizing m with
  | nil => simp [trace, runEvents]
  | cons e es ih =>
    simp only [trace, runEvents, bind]
    cases h : step env flt m e with
    | error err => simp [Except.bind]
    | ok m' => simp only [Except.bind]; exact ih m'

/-- as long as the run succeeds there is one observation per call, and the k-th is the observation of the state
    after the first k+1 calls -/
theorem trace_obs (env : Env) (flt : HogFilter) (es : List Ev) (m : MS) (k : Nat) (m' : MS)
    (h : runEvents env flt (es.take (k + 1)) m = .ok m') (hk : k < es.length) :
    (trace env flt es m).1[k]? = some m'.obs := by
  induction es generalizing m k with
  | nil => simp at hk
  | cons e es ih =>
    simp only [List.take_succ_cons, runEvents, bind] at h
    simp only [trace]
    cases hs : step env flt m e with
    | error err => rw [hs] at h; simp [Except.bind] at h
    | ok m1 =>
      rw [hs] at h
      simp only [Except.bind] at h
      cases k with
      | zero =>
        simp only [List.take_zero, runEvents] at h
        cases h
        simp
      | succ k =>
        simp only [List.getElem?_cons_succ]
        exact ih m1 k h (by simpa using hk)

end Pyham.Sax
