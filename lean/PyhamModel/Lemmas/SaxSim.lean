/-
  The stack machine of `Model/Sax.lean` (one `start` / `end` call at a time, explicit `hog_stack`) run over the
  event stream of a document IS the recursive loader of `Model/Parser.lean`.
-/
import PyhamModel.Model.Sax
namespace Pyham.Sax

theorem runEvents_append (env : Env) (flt : HogFilter) (a b : List Ev) (m : MS) :
    runEvents env flt (a ++ b) m = (runEvents env flt a m).bind fun m' => runEvents env flt b m' := by
  induction a generalizing m with
  | nil => simp [runEvents, Except.bind]
  | cons e es ih =>
    simp only [List.cons_append, runEvents, bind]
    cases h : step env flt m e with
    | error err => simp [Except.bind]
    | ok m' => simp only [Except.bind]; exact ih m'

theorem runEvents_cons (env : Env) (flt : HogFilter) (e : Ev) (es : List Ev) (m : MS) :
    runEvents env flt (e :: es) m = (step env flt m e).bind fun m' => runEvents env flt es m' := by
  simp only [runEvents, bind]

/-! ### skip mode: everything up to the matching end is ignored -/

mutual
theorem skip_elem (env : Env) (flt : HogFilter) : (e : Elem) → (k : Nat) → (tops : List Node) → (ps : PS) →
    (rest : List Ev) →
    runEvents env flt (events e ++ rest) { hstack := [], skip := k + 1, tops := tops, ps := ps } =
      runEvents env flt rest { hstack := [], skip := k + 1, tops := tops, ps := ps }
  | .ref _ _, k, tops, ps, rest => by
    simp [events, runEvents_cons, step, Except.bind]
  | .score _ _, k, tops, ps, rest => by
    simp [events, runEvents_cons, step, Except.bind]
  | .prop _ _, k, tops, ps, rest => by
    simp [events, runEvents_cons, step, Except.bind]
  | .og hid og its, k, tops, ps, rest => by
    simp only [events, List.cons_append, List.append_assoc, runEvents_cons, step]
    simp only [Nat.zero_lt_succ, if_true, Except.bind]
    rw [skip_elems env flt its (k + 1) tops ps]
    simp [runEvents_cons, step, Except.bind]
  | .pg pgid its, k, tops, ps, rest => by
    simp only [events, List.cons_append, List.append_assoc, runEvents_cons, step]
    simp only [Nat.zero_lt_succ, if_true, Except.bind]
    rw [skip_elems env flt its k tops ps]
    simp [runEvents_cons, step, Except.bind]
theorem skip_elems (env : Env) (flt : HogFilter) : (es : List Elem) → (k : Nat) → (tops : List Node) → (ps : PS) →
    (rest : List Ev) →
    runEvents env flt (eventsL es ++ rest) { hstack := [], skip := k + 1, tops := tops, ps := ps } =
      runEvents env flt rest { hstack := [], skip := k + 1, tops := tops, ps := ps }
  | [], k, tops, ps, rest => by simp [eventsL]
  | e :: es, k, tops, ps, rest => by
    simp only [eventsL, List.append_assoc]
    rw [skip_elem env flt e k tops ps, skip_elems env flt es k tops ps]
end

/-! ### inside an open group -/

mutual
theorem sax_elem (env : Env) (flt : HogFilter) : (e : Elem) → (hb : HogBuild) → (st : List HogBuild) →
    (tops : List Node) → (ps : PS) → (rest : List Ev) →
    runEvents env flt (events e ++ rest) { hstack := hb :: st, skip := 0, tops := tops, ps := ps } =
      (elem env (st.length + 1) e hb ps).bind fun r =>
        runEvents env flt rest { hstack := r.1 :: st, skip := 0, tops := tops, ps := r.2 }
  | .ref id loft, hb, st, tops, ps, rest => by
    simp only [events, List.cons_append, List.nil_append, runEvents_cons, step, elem]
    cases h : env.lookupGene id with
    | none => simp [Except.bind]
    | some t =>
      simp only [Except.bind, Nat.lt_irrefl, if_false]
      split
      · cases ps.cur <;> rfl
      · rfl
  | .score id v, hb, st, tops, ps, rest => by
    simp [events, runEvents_cons, step, elem, Except.bind]
  | .prop n v, hb, st, tops, ps, rest => by
    simp [events, runEvents_cons, step, elem, Except.bind]
  | .pg pgid its, hb, st, tops, ps, rest => by
    simp only [events, List.cons_append, List.append_assoc, runEvents_cons, step, elem]
    simp only [Nat.lt_irrefl, if_false, Except.bind, List.length_cons]
    rw [sax_elems env flt its hb st tops (pgOpen (st.length + 1) pgid ps)]
    simp only [bind]
    cases h : elems env (st.length + 1) its hb (pgOpen (st.length + 1) pgid ps) with
    | error err => simp [Except.bind]
    | ok r =>
      simp only [Except.bind, List.nil_append, runEvents_cons, step]
      simp only [Nat.lt_irrefl, if_false, bind]
      cases h2 : pgClose r.1.kids r.2 with
      | error err => simp [Except.bind]
      | ok ps' => simp [Except.bind]
  | .og hid og its, hb, st, tops, ps, rest => by
    simp only [events, List.cons_append, List.append_assoc, runEvents_cons, step, elem]
    simp only [Nat.lt_irrefl, if_false, Except.bind, buildHog, List.length_cons]
    rw [sax_elems env flt its _ (hb :: st) tops _]
    simp only [bind, List.length_cons]
    cases h : elems env (st.length + 1 + 1) its
        { info := newInfo ps.next hid og,
          dup := if ({ ps with next := ps.next + 1 } : PS).inPG == some (st.length + 1) then ({ ps with next := ps.next + 1 } : PS).cur else none,
          kids := [] }
        (match (if ({ ps with next := ps.next + 1 } : PS).inPG == some (st.length + 1) then ({ ps with next := ps.next + 1 } : PS).cur else none) with
          | some d => ({ ps with next := ps.next + 1 } : PS).addMember d (.h ps.next)
          | none => { ps with next := ps.next + 1 }) with
    | error err => simp [Except.bind]
    | ok r =>
      simp only [Except.bind, List.nil_append, runEvents_cons, step]
      simp only [Nat.lt_irrefl, if_false, bind, List.isEmpty_cons]
      cases h2 : closeOg env false r.1 r.2 with
      | error err => simp [Except.bind]
      | ok q => simp [Except.bind]
theorem sax_elems (env : Env) (flt : HogFilter) : (es : List Elem) → (hb : HogBuild) → (st : List HogBuild) →
    (tops : List Node) → (ps : PS) → (rest : List Ev) →
    runEvents env flt (eventsL es ++ rest) { hstack := hb :: st, skip := 0, tops := tops, ps := ps } =
      (elems env (st.length + 1) es hb ps).bind fun r =>
        runEvents env flt rest { hstack := r.1 :: st, skip := 0, tops := tops, ps := r.2 }
  | [], hb, st, tops, ps, rest => by simp [eventsL, elems, Except.bind]
  | e :: es, hb, st, tops, ps, rest => by
    simp only [eventsL, List.append_assoc, elems, bind]
    rw [sax_elem env flt e hb st tops ps]
    cases h : elem env (st.length + 1) e hb ps with
    | error err => simp [Except.bind]
    | ok r =>
      simp only [Except.bind]
      exact sax_elems env flt es r.1 st tops r.2 rest
end

/-! ### at the top of <groups> (empty stack) -/

mutual
theorem sax_topElem (env : Env) (flt : HogFilter) : (e : Elem) → (tops : List Node) → (ps : PS) → (rest : List Ev) →
    runEvents env flt (events e ++ rest) { hstack := [], skip := 0, tops := tops, ps := ps } =
      (topElem env flt e tops ps).bind fun r =>
        runEvents env flt rest { hstack := [], skip := 0, tops := r.1, ps := r.2 }
  | .ref id loft, tops, ps, rest => by
    simp only [events, List.cons_append, List.nil_append, runEvents_cons, step, topElem]
    cases h : env.lookupGene id with
    | none => simp [Except.bind]
    | some t => simp [Except.bind]
  | .score id v, tops, ps, rest => by
    simp [events, runEvents_cons, step, topElem, Except.bind]
  | .prop n v, tops, ps, rest => by
    simp [events, runEvents_cons, step, topElem, Except.bind]
  | .pg pgid its, tops, ps, rest => by
    simp only [events, List.cons_append, List.append_assoc, runEvents_cons, step, topElem]
    simp only [Nat.lt_irrefl, if_false, Except.bind, List.length_nil]
    rw [sax_topElems env flt its tops (pgOpen 0 pgid ps)]
    simp only [bind]
    cases h : topElems env flt its tops (pgOpen 0 pgid ps) with
    | error err => simp [Except.bind]
    | ok r =>
      simp only [Except.bind, List.nil_append, runEvents_cons, step]
      simp only [Nat.lt_irrefl, if_false, bind]
      cases h2 : pgClose r.1 r.2 with
      | error err => simp [Except.bind]
      | ok ps' => simp [Except.bind]
  | .og hid og its, tops, ps, rest => by
    simp only [events, List.cons_append, List.append_assoc, runEvents_cons, step, topElem]
    simp only [Nat.lt_irrefl, if_false]
    cases flt with
    | none =>
      simp only [Except.bind, buildHog, List.length_nil, bind, pure, Except.pure, Bool.not_true, Bool.false_eq_true, if_false]
      rw [sax_elems env none its _ [] tops _]
      simp only [List.length_nil, Nat.zero_add]
      cases h : elems env 1 its
          { info := newInfo ps.next hid og,
            dup := if ({ ps with next := ps.next + 1 } : PS).inPG == some 0 then ({ ps with next := ps.next + 1 } : PS).cur else none,
            kids := [] }
          (match (if ({ ps with next := ps.next + 1 } : PS).inPG == some 0 then ({ ps with next := ps.next + 1 } : PS).cur else none) with
            | some d => ({ ps with next := ps.next + 1 } : PS).addMember d (.h ps.next)
            | none => { ps with next := ps.next + 1 }) with
      | error err => simp [Except.bind]
      | ok r =>
        simp only [Except.bind, List.nil_append, runEvents_cons, step]
        simp only [Nat.lt_irrefl, if_false, bind, List.isEmpty_nil]
        cases h2 : closeOg env true r.1 r.2 with
        | error err => simp [Except.bind]
        | ok q => simp [Except.bind]
    | some ids =>
      cases hid with
      | none => simp [Except.bind, bind, throw, throwThe, MonadExceptOf.throw]
      | some i =>
        by_cases hk : ids.contains i = true
        · simp only [hk, if_true, Except.bind, buildHog, List.length_nil, bind, pure, Except.pure, Bool.not_true, Bool.false_eq_true, if_false]
          rw [sax_elems env (some ids) its _ [] tops _]
          simp only [List.length_nil, Nat.zero_add]
          cases h : elems env 1 its
              { info := newInfo ps.next (some i) og,
                dup := if ({ ps with next := ps.next + 1 } : PS).inPG == some 0 then ({ ps with next := ps.next + 1 } : PS).cur else none,
                kids := [] }
              (match (if ({ ps with next := ps.next + 1 } : PS).inPG == some 0 then ({ ps with next := ps.next + 1 } : PS).cur else none) with
                | some d => ({ ps with next := ps.next + 1 } : PS).addMember d (.h ps.next)
                | none => { ps with next := ps.next + 1 }) with
          | error err => simp [Except.bind]
          | ok r =>
            simp only [Except.bind, List.nil_append, runEvents_cons, step]
            simp only [Nat.lt_irrefl, if_false, bind, List.isEmpty_nil]
            cases h2 : closeOg env true r.1 r.2 with
            | error err => simp [Except.bind]
            | ok q => simp [Except.bind]
        · have hk' : ids.contains i = false := by simpa using hk
          simp only [hk', Bool.false_eq_true, if_false, Except.bind, bind, pure, Except.pure, Bool.not_false, if_true]
          rw [skip_elems env (some ids) its 0 tops ps]
          simp [runEvents_cons, step, Except.bind]
theorem sax_topElems (env : Env) (flt : HogFilter) : (es : List Elem) → (tops : List Node) → (ps : PS) → (rest : List Ev) →
    runEvents env flt (eventsL es ++ rest) { hstack := [], skip := 0, tops := tops, ps := ps } =
      (topElems env flt es tops ps).bind fun r =>
        runEvents env flt rest { hstack := [], skip := 0, tops := r.1, ps := r.2 }
  | [], tops, ps, rest => by simp [eventsL, topElems, Except.bind]
  | e :: es, tops, ps, rest => by
    simp only [eventsL, List.append_assoc, topElems, bind]
    rw [sax_topElem env flt e tops ps]
    cases h : topElem env flt e tops ps with
    | error err => simp [Except.bind]
    | ok r =>
      simp only [Except.bind]
      exact sax_topElems env flt es r.1 r.2 rest
end

/-- the stack machine run over the events of the whole <groups> section ends, with an empty stack, in exactly the
    families and the parser state of the recursive loader -- or fails with the same exception -/
theorem sax_groups (env : Env) (flt : HogFilter) (groups : List Elem) :
    runEvents env flt (eventsL groups) {} =
      (topElems env flt groups [] {}).map fun r => { hstack := [], skip := 0, tops := r.1, ps := r.2 } := by
  have h := sax_topElems env flt groups [] {} []
  simp only [List.append_nil] at h
  have e0 : ({} : MS) = { hstack := [], skip := 0, tops := [], ps := {} } := rfl
  rw [e0, h]
  cases topElems env flt groups [] {} with
  | error err => rfl
  | ok r => simp [Except.bind, Except.map, runEvents]

theorem buildHamSax_eq (T : STree) (nm : Naming) (inp : Input) (keep : String → Bool) (flt : HogFilter) :
    buildHamSax T nm inp keep flt = buildHam T nm inp keep flt := by
  unfold buildHamSax buildHam
  simp only [bind]
  cases declareSpecies T nm keep inp.species [] with
  | error err => rfl
  | ok genes =>
    simp only [Except.bind, sax_groups]
    cases topElems { T := T, nm := nm, geneTx := genes.reverse.map fun g => (g.id, g.tx) } flt inp.groups [] {} with
    | error err => rfl
    | ok r => rfl

/-! ### the trace the harness compares in lock step -/

theorem trace_end (env : Env) (flt : HogFilter) (es : List Ev) (m : MS) :
    (trace env flt es m).2 = (match runEvents env flt es m with | .ok _ => none | .error e => some e) := by
  induction es generalizing m with
  | nil => simp [trace, runEvents]
  | cons e es ih =>
    simp only [trace, runEvents, bind]
    cases h : step env flt m e with
    | error err => simp [Except.bind]
    | ok m' => simp only [Except.bind]; exact ih m'

/-- as long as the run succeeds there is one observation per call, and the k-th is the observation of the state
    after the first k+1 calls -/
theorem trace_obs (env : Env) (flt : HogFilter) (es : List Ev) (m : MS) (k : Nat) (m' : MS)
    (h : runEvents env flt (es.take (k + 1)) m = .ok m') (hk : k < es.length) :
    (trace env flt es m).1[k]? = some m'.obs := by
  induction es generalizing m k with
  | nil => simp at hk
  | cons e es ih =>
    simp only [List.take_succ_cons, runEvents, bind] at h
    simp only [trace]
    cases hs : step env flt m e with
    | error err => rw [hs] at h; simp [Except.bind] at h
    | ok m1 =>
      rw [hs] at h
      simp only [Except.bind] at h
      cases k with
      | zero =>
        simp only [List.take_zero, runEvents] at h
        cases h
        simp
      | succ k =>
        simp only [List.getElem?_cons_succ]
        exact ih m1 k h (by simpa using hk)

end Pyham.Sax

/-! ### the first pass of a filtered load -/
namespace Pyham.Sax

theorem frun_cons (f : Filter) (e : Ev) (es : List Ev) (s : FS) :
    frun f (e :: es) s = (fstep f s e).bind fun s' => frun f es s' := by
  simp only [frun, bind]

mutual
/-- inside an open group every call succeeds: references are collected, the flag is raised by a selected gene -/
theorem f_elem (f : Filter) : (e : Elem) → (gids hids : List String) → (cur : Option String) → (d : Nat) →
    (refs : List String) → (add : Bool) → (rest : List Ev) →
    frun f (events e ++ rest) { gids := gids, hids := hids, cur := cur, depth := d + 1, refs := refs, add := add } =
      frun f rest { gids := gids, hids := hids, cur := cur, depth := d + 1, refs := refs ++ refsOf e,
                    add := add || (refsOf e).any gids.contains }
  | .ref id loft, gids, hids, cur, d, refs, add, rest => by
    simp [events, frun_cons, fstep, Except.bind, refsOf]
  | .score _ _, gids, hids, cur, d, refs, add, rest => by
    simp [events, frun_cons, fstep, Except.bind, refsOf]
  | .prop _ _, gids, hids, cur, d, refs, add, rest => by
    simp [events, frun_cons, fstep, Except.bind, refsOf]
  | .pg pgid its, gids, hids, cur, d, refs, add, rest => by
    simp only [events, List.cons_append, List.append_assoc, frun_cons, fstep, Except.bind, refsOf]
    rw [f_elems f its gids hids cur d refs add]
    simp [frun_cons, fstep, Except.bind]
  | .og hid og its, gids, hids, cur, d, refs, add, rest => by
    simp only [events, List.cons_append, List.append_assoc, frun_cons, fstep, refsOf]
    simp only [Nat.add_one_ne_zero, beq_iff_eq, if_false, Except.bind]
    rw [f_elems f its gids hids cur (d + 1) refs add]
    simp [frun_cons, fstep, Except.bind]
theorem f_elems (f : Filter) : (es : List Elem) → (gids hids : List String) → (cur : Option String) → (d : Nat) →
    (refs : List String) → (add : Bool) → (rest : List Ev) →
    frun f (eventsL es ++ rest) { gids := gids, hids := hids, cur := cur, depth := d + 1, refs := refs, add := add } =
      frun f rest { gids := gids, hids := hids, cur := cur, depth := d + 1, refs := refs ++ refsOfL es,
                    add := add || (refsOfL es).any gids.contains }
  | [], gids, hids, cur, d, refs, add, rest => by simp [eventsL, refsOfL]
  | e :: es, gids, hids, cur, d, refs, add, rest => by
    simp only [eventsL, List.append_assoc, refsOfL]
    rw [f_elem f e gids hids cur d refs add, f_elems f es gids hids cur d _ _]
    simp [List.any_append, Bool.or_assoc]
end

mutual
theorem f_top (f : Filter) : (e : Elem) → (gids hids : List String) → (rest : List Ev) → noTopRef e = true →
    frun f (events e ++ rest) { gids := gids, hids := hids } =
      (filterTop f e (gids, hids)).bind fun r => frun f rest { gids := r.1, hids := r.2 }
  | .ref _ _, gids, hids, rest, h => by simp [noTopRef] at h
  | .score _ _, gids, hids, rest, _ => by simp [events, frun_cons, fstep, Except.bind, filterTop]
  | .prop _ _, gids, hids, rest, _ => by simp [events, frun_cons, fstep, Except.bind, filterTop]
  | .pg pgid its, gids, hids, rest, h => by
    simp only [noTopRef] at h
    simp only [events, List.cons_append, List.append_assoc, frun_cons, fstep, Except.bind, filterTop]
    rw [f_tops f its gids hids _ h]
    cases filterTops f its (gids, hids) with
    | error e => rfl
    | ok r => simp [Except.bind, frun_cons, fstep]
  | .og hid og its, gids, hids, rest, _ => by
    simp only [events, List.cons_append, List.append_assoc, frun_cons, fstep, filterTop]
    cases hid with
    | none => simp [Except.bind]
    | some i =>
      simp only [beq_self_eq_true, if_true, Except.bind, Bool.false_or]
      rw [f_elems f its gids hids (some i) 0 [] (f.hogIds.contains i)]
      simp only [List.nil_append, frun_cons, fstep, Nat.zero_add]
      by_cases ha : (i ∈ f.hogIds ∨ ∃ x, x ∈ refsOfL its ∧ x ∈ gids)
      · simp [ha, Except.bind]
      · simp [ha, Except.bind]
theorem f_tops (f : Filter) : (es : List Elem) → (gids hids : List String) → (rest : List Ev) → noTopRefL es = true →
    frun f (eventsL es ++ rest) { gids := gids, hids := hids } =
      (filterTops f es (gids, hids)).bind fun r => frun f rest { gids := r.1, hids := r.2 }
  | [], gids, hids, rest, _ => by simp [eventsL, filterTops, Except.bind]
  | e :: es, gids, hids, rest, h => by
    simp only [noTopRefL, Bool.and_eq_true] at h
    simp only [eventsL, List.append_assoc, filterTops, bind]
    rw [f_top f e gids hids _ h.1]
    cases hr : filterTop f e (gids, hids) with
    | error err => simp [Except.bind]
    | ok r =>
      simp only [Except.bind]
      exact f_tops f es r.1 r.2 rest h.2
end

/-- the first-pass machine run over the events of the <groups> section selects exactly what the recursive first pass
    selects (gene ids and family ids, in the same order), and is back in its initial control state -/
theorem f_groups (f : Filter) (groups : List Elem) (gids : List String) (h : noTopRefL groups = true) :
    frun f (eventsL groups) { gids := gids } =
      (filterTops f groups (gids, [])).map fun r => { gids := r.1, hids := r.2 } := by
  have h0 := f_tops f groups gids [] [] h
  simp only [List.append_nil] at h0
  rw [h0]
  cases filterTops f groups (gids, []) with
  | error e => rfl
  | ok r => simp [Except.bind, Except.map, frun]

end Pyham.Sax

/-! ### the whole document -/
namespace Pyham.Sax

theorem drun_cons (T : STree) (nm : Naming) (keep : String → Bool) (flt : HogFilter) (e : DocEv) (es : List DocEv) (d : DS) :
    drun T nm keep flt (e :: es) d = (dstep T nm keep flt d e).bind fun d' => drun T nm keep flt es d' := by
  simp only [drun, bind]

/-- the <gene> elements of one species -/
theorem drun_genes (T : STree) (nm : Naming) (keep : String → Bool) (flt : HogFilter) (name : String) (p : Taxon) :
    (gs : List GeneDecl) → (G : List GeneRec) → (S : List (String × Taxon)) → (M : MS) → (rest : List DocEv) →
    drun T nm keep flt (gs.map .gene ++ rest) { cur := some (name, p), genes := G, species := S, ms := M } =
      drun T nm keep flt rest { cur := some (name, p), genes := G ++ (gs.filter fun g => keep g.id).map (fun g =>
        ({ id := g.id, species := name, tx := p, xrefs := g.xrefs } : GeneRec)), species := S, ms := M }
  | [], G, S, M, rest => by simp
  | g :: gs, G, S, M, rest => by
    simp only [List.map_cons, List.cons_append, drun_cons, dstep]
    by_cases hk : keep g.id = true
    · simp only [hk, if_true, Except.bind]
      rw [drun_genes T nm keep flt name p gs _ S M rest]
      simp [List.filter_cons, hk]
    · have hk' : keep g.id = false := by simpa using hk
      simp only [hk', Bool.false_eq_true, if_false, Except.bind]
      rw [drun_genes T nm keep flt name p gs G S M rest]
      simp [List.filter_cons, hk']

/-- the species the document declares, with the leaves they resolve to -/
def resolved (T : STree) (nm : Naming) : List Species → List (String × Taxon)
  | [] => []
  | s :: ss => (match resolveSpecies T nm s.name with | .ok p => [(s.name, p)] | .error _ => []) ++ resolved T nm ss

/-- the species sections: the declarations of `declareSpecies`, in file order -/
theorem drun_species (T : STree) (nm : Naming) (keep : String → Bool) (flt : HogFilter) :
    (ss : List Species) → (G : List GeneRec) → (S : List (String × Taxon)) → (M : MS) → (rest : List DocEv) →
    drun T nm keep flt (spEvents ss ++ rest) { cur := none, genes := G, species := S, ms := M } =
      (declareSpecies T nm keep ss G).bind fun genes =>
        drun T nm keep flt rest { cur := none, genes := genes, species := S ++ resolved T nm ss, ms := M }
  | [], G, S, M, rest => by simp [spEvents, declareSpecies, resolved, Except.bind]
  | s :: ss, G, S, M, rest => by
    simp only [spEvents, List.cons_append, List.append_assoc, drun_cons, dstep, declareSpecies, bind, resolved]
    cases hr : resolveSpecies T nm s.name with
    | error e => simp [Except.bind]
    | ok p =>
      simp only [Except.bind]
      rw [drun_genes T nm keep flt s.name p s.genes]
      simp only [List.cons_append, List.nil_append, drun_cons, dstep, Except.bind]
      rw [drun_species T nm keep flt ss]
      simp only [List.append_assoc, List.cons_append, List.nil_append]
      cases declareSpecies T nm keep ss (G ++ (s.genes.filter fun g => keep g.id).map fun g =>
          ({ id := g.id, species := s.name, tx := p, xrefs := g.xrefs } : GeneRec)) <;> rfl

/-- the groups section: the declarations do not change, so the environment is fixed -/
theorem drun_groups (T : STree) (nm : Naming) (keep : String → Bool) (flt : HogFilter) :
    (es : List Ev) → (c : Option (String × Taxon)) → (G : List GeneRec) → (S : List (String × Taxon)) → (M : MS) → (rest : List DocEv) →
    drun T nm keep flt (es.map .grp ++ rest) { cur := c, genes := G, species := S, ms := M } =
      (runEvents { T := T, nm := nm, geneTx := G.reverse.map fun g => (g.id, g.tx) } flt es M).bind fun ms =>
        drun T nm keep flt rest { cur := c, genes := G, species := S, ms := ms }
  | [], c, G, S, M, rest => by simp [runEvents, Except.bind]
  | e :: es, c, G, S, M, rest => by
    simp only [List.map_cons, List.cons_append, drun_cons, dstep, runEvents, bind, DS.env]
    cases hs : step { T := T, nm := nm, geneTx := G.reverse.map fun g => (g.id, g.tx) } flt M e with
    | error err => simp [Except.bind]
    | ok ms =>
      simp only [Except.bind]
      exact drun_groups T nm keep flt es c G S ms rest

theorem declared_resolved (T : STree) (nm : Naming) (keep : String → Bool) :
    (ss : List Species) → (acc genes : List GeneRec) → declareSpecies T nm keep ss acc = .ok genes →
    ss.mapM (fun s => (resolveSpecies T nm s.name).map fun p => (s.name, p)) = .ok (resolved T nm ss)
  | [], acc, genes, _ => by simp [resolved, pure, Except.pure]
  | s :: ss, acc, genes, h => by
    simp only [declareSpecies, bind] at h
    cases hr : resolveSpecies T nm s.name with
    | error e => rw [hr] at h; simp [Except.bind] at h
    | ok p =>
      rw [hr] at h
      simp only [Except.bind] at h
      have ih := declared_resolved T nm keep ss _ genes h
      simp only [List.mapM_cons, hr, Except.map, bind, Except.bind, resolved, pure, Except.pure, List.singleton_append] at ih ⊢
      rw [ih]

theorem dstates_end (T : STree) (nm : Naming) (keep : String → Bool) (flt : HogFilter) (es : List DocEv) (d : DS) :
    (dstates T nm keep flt es d).2 = (match drun T nm keep flt es d with | .ok _ => none | .error e => some e) := by
  induction es generalizing d with
  | nil => simp [dstates, drun]
  | cons e es ih =>
    simp only [dstates, drun, bind]
    cases h : dstep T nm keep flt d e with
    | error err => simp [Except.bind]
    | ok d' => simp only [Except.bind]; exact ih d'

/-- **the document machine is the load**: every declaration and every call in the order of the file (species sections, then
    the groups section), each geneRef resolved against the declarations read so far, ends in the analysis `buildHam` returns
    (any filter), or fails with the same exception -/
theorem doc_machine_is_load (T : STree) (nm : Naming) (inp : Input) (keep : String → Bool) (flt : HogFilter) :
    (drun T nm keep flt (spEvents inp.species ++ (eventsL inp.groups).map .grp) {}).map (DS.ham T nm) =
      buildHam T nm inp keep flt := by
  have e0 : ({} : DS) = { cur := none, genes := [], species := [], ms := {} } := rfl
  rw [e0, drun_species T nm keep flt inp.species [] [] {} ((eventsL inp.groups).map .grp)]
  unfold buildHam
  simp only [bind]
  cases hd : declareSpecies T nm keep inp.species [] with
  | error e => simp [Except.bind, Except.map]
  | ok genes =>
    simp only [Except.bind]
    have h2 := drun_groups T nm keep flt (eventsL inp.groups) none genes ([] ++ resolved T nm inp.species) {} []
    simp only [List.append_nil] at h2
    rw [h2, sax_groups]
    cases ht : topElems { T := T, nm := nm, geneTx := genes.reverse.map fun g => (g.id, g.tx) } flt inp.groups [] {} with
    | error e => simp [Except.bind, Except.map]
    | ok r =>
      have hm := declared_resolved T nm keep inp.species [] genes hd
      simp only [Except.map] at hm
      simp only [Except.bind, Except.map, drun, hm, DS.ham, List.nil_append]

/-! ### the first pass over the whole document -/

theorem fdrun_cons (f : Filter) (e : DocEv) (es : List DocEv) (s : FS) :
    fdrun f (e :: es) s = (fdstep f s e).bind fun s' => fdrun f es s' := by
  simp only [fdrun, bind]

theorem fdrun_genes (f : Filter) : (gs : List GeneDecl) → (s : FS) → (rest : List DocEv) →
    fdrun f (gs.map .gene ++ rest) s = fdrun f rest { s with gids := s.gids ++ gs.flatMap (geneSel f) }
  | [], s, rest => by simp
  | g :: gs, s, rest => by
    simp only [List.map_cons, List.cons_append, fdrun_cons, fdstep, Except.bind]
    rw [fdrun_genes f gs _ rest]
    simp [List.flatMap_cons]

theorem filterGenes_eq (f : Filter) (sp : List Species) :
    filterGenes f sp = sp.flatMap fun s => s.genes.flatMap (geneSel f) := by
  unfold filterGenes
  congr 1

theorem fdrun_species (f : Filter) : (ss : List Species) → (s : FS) → (rest : List DocEv) →
    fdrun f (spEvents ss ++ rest) s = fdrun f rest { s with gids := s.gids ++ filterGenes f ss }
  | [], s, rest => by simp [spEvents, filterGenes]
  | sp :: ss, s, rest => by
    simp only [spEvents, List.cons_append, List.append_assoc, fdrun_cons, fdstep, Except.bind]
    rw [fdrun_genes f sp.genes s]
    simp only [List.cons_append, List.nil_append, fdrun_cons, fdstep, Except.bind]
    rw [fdrun_species f ss _ rest]
    simp [filterGenes_eq, List.flatMap_cons]

theorem fdrun_groups (f : Filter) : (es : List Ev) → (s : FS) →
    fdrun f (es.map .grp) s = frun f es s
  | [], s => by simp [fdrun, frun]
  | e :: es, s => by
    simp only [List.map_cons, fdrun, fdstep, frun, bind]
    cases fstep f s e with
    | error err => rfl
    | ok s' => simp only [Except.bind]; exact fdrun_groups f es s'

/-- the first pass over the whole document (species sections, then groups) selects what the recursive first pass selects -/
theorem f_document (f : Filter) (inp : Input) (h : noTopRefL inp.groups = true) :
    fdrun f (spEvents inp.species ++ (eventsL inp.groups).map .grp) { gids := [] } =
      (filterTops f inp.groups (filterGenes f inp.species, [])).map fun r => { gids := r.1, hids := r.2 } := by
  rw [fdrun_species, fdrun_groups]
  simp only [List.nil_append]
  exact f_groups f inp.groups (filterGenes f inp.species) h

end Pyham.Sax
