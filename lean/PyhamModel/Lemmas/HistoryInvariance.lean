/-
  The history-level counts do not depend on the spelling (`SameL`): order of sub-branches and copies, ids, labels,
  annotations, written / elided.  With `C09_profile_from_histories` this gives the whole-file statement of C14 for the tree
  profile: two consistent files that spell the same histories have the same profile entry at every ancestral node.
-/
import PyhamModel.Lemmas.HistoryProfile
import PyhamModel.Lemmas.Spelling
namespace Pyham

theorem sameCopies_length : ∀ {a b : List SL}, SameCopies a b → a.length = b.length
  | _, _, .nil => rfl
  | _, _, .cons _ _ _ _ _ h => by simp [sameCopies_length h]
  | _, _, .swap _ _ _ => by simp
  | _, _, .trans _ _ _ h1 h2 => (sameCopies_length h1).trans (sameCopies_length h2)

mutual
theorem sameL_weight (w : Nat → Nat) (t : Taxon) : ∀ {l l' : SL}, SameL l l' → ∀ q, dupWeight w t q l = dupWeight w t q l'
  | _, _, .gene _ _, _ => rfl
  | _, _, .grp _ _ _ _ _ _ _ _ hs, q => by
    simp only [dupWeight]
    exact sameSubs_weight w t hs q
theorem sameSubs_weight (w : Nat → Nat) (t : Taxon) : ∀ {a b : List Sub}, SameSubs a b →
    ∀ q, dupWeightSubs w t q a = dupWeightSubs w t q b
  | _, _, .nil, _ => rfl
  | _, _, .ann_left _ _ _ s, q => by simp only [dupWeightSubs]; exact sameSubs_weight w t s q
  | _, _, .ann_right _ _ _ s, q => by simp only [dupWeightSubs]; exact sameSubs_weight w t s q
  | _, _, .one i _ _ _ _ hl hs, q => by
    simp only [dupWeightSubs]
    rw [sameL_weight w t hl (i :: q), sameSubs_weight w t hs q]
  | _, _, .dup i _ _ _ _ _ hc hs, q => by
    simp only [dupWeightSubs]
    rw [sameCopies_length hc, sameCopies_weight w t hc (i :: q), sameSubs_weight w t hs q]
  | _, _, .swap x y _, q => by
    cases x <;> cases y <;> simp only [dupWeightSubs] <;> omega
  | _, _, .trans _ _ _ h1 h2, q => (sameSubs_weight w t h1 q).trans (sameSubs_weight w t h2 q)
theorem sameCopies_weight (w : Nat → Nat) (t : Taxon) : ∀ {a b : List SL}, SameCopies a b →
    ∀ q, dupWeightCopies w t q a = dupWeightCopies w t q b
  | _, _, .nil, _ => rfl
  | _, _, .cons _ _ _ _ hc hs, q => by
    simp only [dupWeightCopies]
    rw [sameL_weight w t hc q, sameCopies_weight w t hs q]
  | _, _, .swap _ _ _, q => by simp only [dupWeightCopies]; omega
  | _, _, .trans _ _ _ h1 h2, q => (sameCopies_weight w t h1 q).trans (sameCopies_weight w t h2 q)
end

mutual
theorem sameL_lineages (t : Taxon) : ∀ {l l' : SL}, SameL l l' → ∀ q, lineagesAt t q l = lineagesAt t q l'
  | _, _, .gene _ _, _ => rfl
  | _, _, .grp _ _ _ _ _ _ _ _ hs, q => by
    simp only [lineagesAt]
    rw [sameSubs_lineages t hs q]
theorem sameSubs_lineages (t : Taxon) : ∀ {a b : List Sub}, SameSubs a b →
    ∀ q, lineagesAtSubs t q a = lineagesAtSubs t q b
  | _, _, .nil, _ => rfl
  | _, _, .ann_left _ _ _ s, q => by simp only [lineagesAtSubs]; exact sameSubs_lineages t s q
  | _, _, .ann_right _ _ _ s, q => by simp only [lineagesAtSubs]; exact sameSubs_lineages t s q
  | _, _, .one i _ _ _ _ hl hs, q => by
    simp only [lineagesAtSubs]
    rw [sameL_lineages t hl (i :: q), sameSubs_lineages t hs q]
  | _, _, .dup i _ _ _ _ _ hc hs, q => by
    simp only [lineagesAtSubs]
    rw [sameCopies_lineages t hc (i :: q), sameSubs_lineages t hs q]
  | _, _, .swap x y _, q => by
    cases x <;> cases y <;> simp only [lineagesAtSubs] <;> omega
  | _, _, .trans _ _ _ h1 h2, q => (sameSubs_lineages t h1 q).trans (sameSubs_lineages t h2 q)
theorem sameCopies_lineages (t : Taxon) : ∀ {a b : List SL}, SameCopies a b →
    ∀ q, lineagesAtCopies t q a = lineagesAtCopies t q b
  | _, _, .nil, _ => rfl
  | _, _, .cons _ _ _ _ hc hs, q => by
    simp only [lineagesAtCopies]
    rw [sameL_lineages t hc q, sameCopies_lineages t hs q]
  | _, _, .swap _ _ _, q => by simp only [lineagesAtCopies]; omega
  | _, _, .trans _ _ _ h1 h2, q => (sameCopies_lineages t h1 q).trans (sameCopies_lineages t h2 q)
end

theorem sum_map_congr_index {α β} (f : α → Nat) (g : β → Nat) (A : List α) (B : List β) (hl : A.length = B.length)
    (h : ∀ i (h1 : i < A.length) (h2 : i < B.length), f A[i] = g B[i]) : (A.map f).sum = (B.map g).sum := by
  rw [map_eq_of_index f g A B hl h]

/-- **C14 for the tree profile, whole files**: two consistent datasets over one species tree whose families are spellings of
    the same histories (members, copies and sub-branches in any order, other ids, with or without labels and annotations,
    levels written or elided, either naming mode) have the same whole-dataset tree profile entry at every ancestral node -/
theorem C14_profile_same_for_same_histories (D D' : Dataset) (hc : D.Consistent) (hc' : D'.Consistent)
    (hT : D.T = D'.T) (hlen : D.fams.length = D'.fams.length)
    (hs : ∀ i (h1 : i < D.fams.length) (h2 : i < D'.fams.length),
        (D.fams[i]).1 = (D'.fams[i]).1 ∧ SameL (D.fams[i]).2 (D'.fams[i]).2) :
    ∃ H H', load D.T D.nm D.file = .ok H ∧ load D'.T D'.nm D'.file = .ok H' ∧
      ∀ i u, (i :: u) ∈ D.T.allTaxa → D.T.isInternalAt (i :: u) = true →
        profileFullAt H (i :: u) = profileFullAt H' (i :: u) := by
  obtain ⟨H, hl, hp⟩ := C09_profile_from_histories D hc
  obtain ⟨H', hl', hp'⟩ := C09_profile_from_histories D' hc'
  have htree : ∀ (E : Dataset) (K : Ham), load E.T E.nm E.file = .ok K → K.tree = E.T := by
    intro E K h
    simp only [load, buildHam, bind, Except.bind] at h
    split at h
    · cases h
    · split at h
      · cases h
      · split at h
        · cases h
        · cases h; rfl
  refine ⟨H, H', hl, hl', ?_⟩
  intro i u ht hint
  obtain ⟨ret, lost, e, b1, b2⟩ := hp i u (by rw [htree D H hl]; exact ht) hint
  obtain ⟨ret', lost', e', b1', b2'⟩ := hp' i u (by rw [htree D' H' hl', ← hT]; exact ht) (by rw [← hT]; exact hint)
  have eL : ∀ t, (D.fams.map fun f => lineagesAt t f.1 f.2).sum = (D'.fams.map fun f => lineagesAt t f.1 f.2).sum := by
    intro t
    apply sum_map_congr_index _ _ _ _ hlen
    intro j h1 h2
    obtain ⟨hq, hsl⟩ := hs j h1 h2
    rw [hq]; exact sameL_lineages t hsl _
  have eC : (D.fams.map fun f => copiesInto (i :: u) f.1 f.2).sum = (D'.fams.map fun f => copiesInto (i :: u) f.1 f.2).sum := by
    apply sum_map_congr_index _ _ _ _ hlen
    intro j h1 h2
    obtain ⟨hq, hsl⟩ := hs j h1 h2
    unfold copiesInto
    rw [hq]; exact sameL_weight id (i :: u) hsl _
  have eE : (D.fams.map fun f => copiesInto (i :: u) f.1 f.2 - eventsInto (i :: u) f.1 f.2).sum =
      (D'.fams.map fun f => copiesInto (i :: u) f.1 f.2 - eventsInto (i :: u) f.1 f.2).sum := by
    apply sum_map_congr_index _ _ _ _ hlen
    intro j h1 h2
    obtain ⟨hq, hsl⟩ := hs j h1 h2
    unfold copiesInto eventsInto
    rw [hq, sameL_weight id (i :: u) hsl _, sameL_weight (fun _ => 1) (i :: u) hsl _]
  have eG : (D.fams.filter fun f => f.1 == i :: u).length = (D'.fams.filter fun f => f.1 == i :: u).length := by
    rw [← List.countP_eq_length_filter, ← List.countP_eq_length_filter]
    have hm : D.fams.map (fun f => f.1 == i :: u) = D'.fams.map (fun f => f.1 == i :: u) :=
      map_eq_of_index _ _ _ _ hlen (fun j h1 h2 => by rw [(hs j h1 h2).1])
    have c1 : List.countP (fun f => f.1 == i :: u) D.fams = List.countP id (D.fams.map fun f => f.1 == i :: u) := by
      rw [List.countP_map]; rfl
    have c2 : List.countP (fun f => f.1 == i :: u) D'.fams = List.countP id (D'.fams.map fun f => f.1 == i :: u) := by
      rw [List.countP_map]; rfl
    rw [c1, c2, hm]
  rw [eL (i :: u), eC, eG] at b1
  rw [eL (i :: u), eL u, eG, eE] at b2
  have hret : ret = ret' := by omega
  have hlost : lost = lost' := by omega
  rw [e, e', eL (i :: u), eC, eG, eE, hret, hlost]

end Pyham
