import PyhamModel.Model.Tree
import PyhamModel.Model.Input
import PyhamModel.Model.Parser
import PyhamModel.Model.Mapper
import PyhamModel.Model.Profile
import PyhamModel.Model.Nav
import PyhamModel.Model.Iham
import PyhamModel.Model.History
