"""Fingerprints of pyham's source, function by function (sha1 of the AST dump, so comments and layout do not count).

The committed baseline (tools/fingerprints.json) is the source the model was written against.  A difference is NOT an
alarm of any kind: it only tells the checks that the code under the model has been edited, and they respond by
exploring three times as many cases in the quick tier (the correspondence is a sampling argument: when the
implementation moved, sample more).  The changed functions are listed in the evidence file."""
import ast, hashlib, json, os

HERE = os.path.dirname(os.path.abspath(__file__))
BASE = os.path.join(os.path.dirname(HERE), 'tools', 'fingerprints.json')

def fingerprints(repo):
    out = {}
    d = os.path.join(repo, 'pyham')
    for fn in sorted(os.listdir(d)):
        if not fn.endswith('.py'):
            continue
        try:
            tree = ast.parse(open(os.path.join(d, fn)).read())
        except SyntaxError:
            out[fn] = 'syntax-error'
            continue
        def walk(node, prefix):
            for ch in ast.iter_child_nodes(node):
                if isinstance(ch, (ast.FunctionDef, ast.AsyncFunctionDef)):
                    body = [x for x in ch.body if not (isinstance(x, ast.Expr) and isinstance(getattr(x, 'value', None), ast.Constant) and isinstance(x.value.value, str))]
                    src = ast.dump(ast.Module(body=body, type_ignores=[])) + ast.dump(ch.args)
                    out['%s:%s%s' % (fn, prefix, ch.name)] = hashlib.sha1(src.encode()).hexdigest()[:12]
                    walk(ch, prefix + ch.name + '.')
                elif isinstance(ch, ast.ClassDef):
                    walk(ch, prefix + ch.name + '.')
        walk(tree, '')
    return out

def changed(repo):
    """functions of pyham whose code differs from the baseline the model was written against (added / removed / edited)"""
    if not os.path.exists(BASE):
        return []
    base = json.load(open(BASE))
    cur = fingerprints(repo)
    return sorted(k for k in set(base) | set(cur) if base.get(k) != cur.get(k))

if __name__ == '__main__':
    import sys
    repo = sys.argv[1] if len(sys.argv) > 1 else '/repo'
    if '--write' in sys.argv:
        json.dump(fingerprints(repo), open(BASE, 'w'), indent=0, sort_keys=True)
        print('baseline written:', len(fingerprints(repo)), 'functions')
    else:
        print('\n'.join(changed(repo)) or 'no function differs from the baseline')
