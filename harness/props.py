"""Per-property exploration: what is generated, which tags are compared between pyham and the Lean
model, which oracle turns a disagreement into a failing input."""
import os, sys, random, collections, json, tempfile, shutil, gzip, io, re, time, itertools, copy
import gen, core, oracles as orc, truth as tr
import observe as ob
from observe import pyham, ag, pathof, taxS, nodekey, gtax, genomes_of, all_nodes, leaves
from core import Result, Infra

TIERS = {'quick': 1, 'thorough': 12}
# thorough multipliers per property (cases are more expensive for some checks)
THOROUGH = {'C02': 4, 'C03': 4, 'C08': 6, 'C11': 5, 'C12': 6, 'C13': 2, 'C14': 3, 'C15': 6, 'C17': 5, 'C20': 6}
_CURRENT = [None]

_SRC_CHANGED = []

def source_changed():
    """functions of pyham that differ from the source the model was written against (harness/fingerprint.py)"""
    if not _SRC_CHANGED:
        import fingerprint
        _SRC_CHANGED.append(fingerprint.changed(ob.REPO))
    return _SRC_CHANGED[0]

def budget(tier, quick_n):
    if tier == 'thorough':
        return quick_n * THOROUGH.get(_CURRENT[0], TIERS['thorough'])
    # the implementation has been edited since the model was written: sample three times as much
    return quick_n * 3 if source_changed() else quick_n

def mix_params(rng):
    r = rng.random()
    if r < 0.4:
        return dict(dup=0.5, elide=0.95, loss=0.1, chainy=0.35)  # deep duplications below elided levels
    if r < 0.55:
        return dict(dup=0.6, elide=0.95, loss=0.1, chainy=0.6, multi=0.8)   # many copies, each elided to a different depth
    if r < 0.65:
        return dict(dup=0.15, elide=0.6, loss=0.4)           # many losses, long chains
    if r < 0.75:
        return dict(dup=0.5, elide=0.2, loss=0.1)            # duplication-rich
    return {}

def std_dataset(rng, **kw):
    no_unary = kw.pop('no_unary', False)
    no_idless = kw.pop('no_idless', False)
    kw.setdefault('P', mix_params(rng))
    if no_unary:
        kw['P'] = dict(kw['P'], unary_trees=0.0)
    if no_idless:
        kw['P'] = dict(kw['P'], idless_top=0.0)
    if 'maxleaves' not in kw:
        kw['maxleaves'] = rng.choice([3, 4, 5, 6, 8, 8, 10, 12])
    if kw['P'].get('elide', 0) > 0.9 and 'top_positions' not in kw:
        kw['top_positions'] = 'root'
    if kw['P'].get('chainy', 0) > 0.3 and rng.random() < 0.5:
        kw['maxleaves'] = max(kw['maxleaves'], rng.choice([9, 11, 13]))
    D = gen.make_dataset(rng, **kw)
    lv_ = [p_ for p_ in gen.paths(D.T) if not gen.sub(D.T, p_)[1]]
    if len(lv_) >= 2 and rng.random() < 0.1 and not D.meta.get('species_split'):
        # two species whose names differ only by a blank vs an underscore ('Ecoli K12', 'Ecoli_K12'): different names, different
        # species (r10-C01b: a name index that canonicalises blanks and underscores)
        a_, b_ = rng.sample(lv_, 2)
        ren_ = {gen.sub(D.T, a_)[0]: 'Ecoli K12', gen.sub(D.T, b_)[0]: 'Ecoli_K12'}
        if len(lv_) >= 3 and rng.random() < 0.5:
            c_ = rng.choice([x_ for x_ in lv_ if x_ not in (a_, b_)])
            ren_[gen.sub(D.T, c_)[0]] = 'Bsub  168'           # ... and a name with two consecutive blanks (r11-C12b: white space collapsed)
            D.meta['no_phyloxml'] = True                      # (PhyloXML name fields are XML tokens: their white space is collapsed by the reader)
        def rn_(t):
            return (ren_.get(t[0], t[0]) if not t[1] else t[0], tuple(rn_(k_) for k_ in t[1]))
        if len(lv_) >= 4 and rng.random() < 0.5:
            d_ = rng.choice([x_ for x_ in lv_ if gen.sub(D.T, x_)[0] not in ren_])
            ren_[gen.sub(D.T, d_)[0]] = 'Ecoli K-12/MG1655'      # ... and a strain name holding a slash (r11-C13b: synthesised names split at '/')
        D.T = rn_(D.T)
        D.species = [(ren_.get(n_, n_), g_) for n_, g_ in D.species]
        D.groups = [g_ for p_, l_, _ in D.families for g_ in gen.encode(D.T, D.naming, p_, l_)]
        D.base_groups = list(D.groups)
        D.meta['twin_names'] = True
    if D.naming == 'own' and not D.meta.get('twin_names') and not D.meta.get('species_split') and not D.meta.get('oma_style') and rng.random() < 0.15:
        # names made of a few tokens joined by '_' or '/': concatenations of two names coincide for different pairs of genomes
        # ('A' + '_' + 'B_C' = 'A_B' + '_' + 'C'; r13-C06a / C07b / C17a: caches keyed by joined names)
        import itertools as _it
        sep_ = rng.choice(['_', '/', '/'])
        pool_ = [sep_.join(c_) for n_ in (1, 2, 3, 4) for c_ in _it.product(['A', 'B'], repeat=n_)]
        nodes_ = list(gen.paths(D.T))
        if len(nodes_) <= len(pool_):
            new_ = dict(zip(nodes_, rng.sample(pool_, len(nodes_))))
            old_leaf_ = {gen.sub(D.T, p_)[0]: new_[p_] for p_ in nodes_ if not gen.sub(D.T, p_)[1]}
            def rn2_(t, p=()):
                return (new_[p], tuple(rn2_(k_, p + (i_,)) for i_, k_ in enumerate(t[1])))
            D.T = rn2_(D.T)
            D.species = [(old_leaf_.get(n_, n_), g_) for n_, g_ in D.species]
            D.groups = [g_ for p_, l_, _ in D.families for g_ in gen.encode(D.T, D.naming, p_, l_)]
            D.base_groups = list(D.groups)
            D.meta['colliding_names'] = True
    # the tree text is varied too: branch lengths, and (synthesised names) no internal names
    D.meta['lengths'] = rng.random() < 0.3
    D.meta['nointernal'] = rng.random() < 0.3
    return D

def large_dataset(rng):
    """a dataset one or two orders of magnitude larger than the usual ones (about 30 species, 100+ families, a hundred or
    more genes per genome): size-dependent shortcuts need sizes.  Evaluated by the oracles on pyham's objects only (the
    Lean driver is quadratic in places and is not run on these)."""
    D = std_dataset(rng, maxleaves=rng.choice([24, 32]), nfam=rng.choice([80, 120]), P=dict(dup=0.35, elide=0.6, loss=0.15), no_unary=True)
    D.meta['large'] = True
    return D

def respell(rng, D):
    """randomly re-spell paralog nests / member order on the raw elements (same meaning)"""
    r = rng.random()
    # species-level TaxRange groups (gen.species_wrap) are NOT generated here: a leaf has no child clades, so
    # such files are outside the properties' "consistent" domain (DESIGN §6, D7); on the unchanged tree they
    # trip the paralog_stack depth patch and break C02/C05 -- an observation, never an alarm.
    if r < 0.55:
        D.groups = gen.nest_paralogs(rng, D.groups)
        D.meta['nested'] = True
    if rng.random() < 0.3:
        D.groups = gen.shuffle_members(rng, D.groups)
    return D

def nontrivial(D):
    st = collections.Counter()
    for p, l, _ in D.families:
        for k, v in gen.stats_of(l).items():
            st[k] += v
    poly = any(len(gen.sub(D.T, p)[1]) > 2 for p in gen.paths(D.T))
    return (st['dups'] > 0 or st['elided'] > 0 or poly), st, poly

def histories(D):
    return [(p, l) for p, l, _ in D.families]

class Explorer(object):
    """generic dataset-driven exploration"""
    def __init__(self, prop, tier, seed):
        self.prop = prop; self.tier = tier; self.seed = seed
        _CURRENT[0] = prop
        self.rng = random.Random((seed * 1000003) ^ hash(prop) % 65521 if False else seed * 1000003 + int(prop[1:]))
        self.res = Result(prop)
        self.lines = []
        self.pending = {}      # cid -> (D, py tags, compare tags, extra)
        self.tmp = tempfile.mkdtemp(prefix='verif-', dir=os.environ.get('VERIF_WORK', None))
        self.deadline = None
    def close(self):
        shutil.rmtree(self.tmp, ignore_errors=True)

    def note_dataset(self, D):
        # the logging configuration is part of the environment the properties quantify over ("every loaded analysis", whatever
        # the application does with the logging module): one case in ten runs with DEBUG enabled on pyham's loggers and a
        # handler attached to each of them (r9-C09a: a debug message that consumes an iterator the next statement needs)
        import logging
        if not hasattr(self, '_logrng'):
            self._logrng = random.Random(self.seed * 7919 + 17)
            self._nullh = logging.NullHandler()
        dbg = self._logrng.random() < 0.1
        logging.getLogger('pyham').setLevel(logging.DEBUG if dbg else logging.NOTSET)
        logging.disable(logging.NOTSET if dbg else logging.CRITICAL)      # (observe.py silences the logging module otherwise)
        for m_ in ('ham', 'mapper', 'parsers', 'taxonomy', 'TreeProfile', 'iham', 'abstractgene', 'genome'):
            lg_ = logging.getLogger('pyham.' + m_)
            lg_.propagate = not dbg           # (nothing is printed)
            if dbg and self._nullh not in lg_.handlers:
                lg_.addHandler(self._nullh)
            elif not dbg and self._nullh in lg_.handlers:
                lg_.removeHandler(self._nullh)
        if dbg:
            self.res.count('cases_with_debug_logging')
        nt, st, poly = nontrivial(D)
        self.res.evaluations += 1
        h = core.case_hash(D.T, D.naming, D.groups, D.species)
        if nt:
            self.res.nontrivial.add(h)
        for k in ('dups', 'elided', 'multicopy', 'deepdup', 'soledup', 'anns', 'widedup'):
            if st[k]:
                self.res.count('cases_with_' + k)
        if poly:
            self.res.count('cases_with_polytomy')
        if D.meta.get('nested'):
            self.res.count('cases_with_nested_paralogGroups')
        if D.meta.get('species_level'):
            self.res.count('cases_with_species_level_groups')
        self.res.count('families', len(D.families))
        self.res.count('genes', st['genes'])
        if len(self.res.samples) < 3:
            self.res.samples.append(dict(newick=core.nwk_of(D), naming=D.naming, groups=gen.xml_elems(D.groups)[:1500]))

    def submit(self, cid, D, pytags, tags, emit=(), queries=(), extra=None, groups=None, species=None, hist=True):
        self.lines.append(gen.sx_case(cid, D.T, D.naming, species if species is not None else D.species,
                                      groups if groups is not None else D.groups,
                                      histories=histories(D) if hist else (), emit=emit, queries=queries))
        self.pending[cid] = (D, pytags, tags, extra, groups, species)

    def fail(self, cid, D, clauses, call=None, groups=None, species=None, extra=None):
        self.res.oracle_failures.append(dict(case=cid, clauses=clauses[:5], call=call,
                                             input=core.dataset_payload(D, groups, species), extra=extra,
                                             _D=(D if groups is None and species is None else None)))

    def finish(self, custom=None):
        """run the driver on everything submitted and compare"""
        if not self.lines:
            return
        lean = core.run_driver_parallel(self.lines)
        for cid, (D, pytags, tags, extra, groups, species) in self.pending.items():
            L = lean.get(cid)
            if L is None or 'end' not in L:
                self.res.infra.append('driver gave no answer for case ' + cid)
                continue
            self.res.traces_validated += 1
            # hypothesis echo: the generated case is inside the theorems' domain
            if 'wfh' in L and any(x != '11' for x in L['wfh']):
                self.res.infra.append('case %s: generated history outside WFH/Recoverable according to Lean: %s' % (cid, L['wfh']))
            if 'enc' in L:
                want = sorted(''.join(gen.elem_raw(e) for e in gen.encode(D.T, D.naming, p, l)) for p, l, _ in D.families)
                if sorted(L['enc']) != want:
                    self.res.infra.append('case %s: Lean encode differs from the harness encode' % cid)
            if any(x.startswith('err:Unmodelled') for x in L.get('load', [])):
                self.res.count('unmodelled')
                continue
            for t in tags:
                if L.get(t):
                    self.res.count('compared_' + t.split('.')[-1], len(L[t]))
            d = core.diff_tags(pytags, L, tags)
            if custom is not None:
                d += custom(cid, D, pytags, L, extra) or []
            for t, a, b in d:
                self.res.mismatches.append(dict(case=cid, tag=t, only_pyham=a, only_model=b,
                                                input=core.dataset_payload(D, groups, species)))
        self.lines = []; self.pending = {}

# --------------------------------------------------------------------------- load-level properties

def load_or_fail(ex, cid, D, **kw):
    h, e = core.try_load(D, **kw)
    if h is None:
        ex.fail(cid, D, ['loading a consistent input raised %s: %s' % (type(e).__name__, e)], call='Ham(...)')
    return h

def dataset_stream(ex, n, exhaustive):
    """random datasets, preceded (thorough tier of C02/C03) by this shard's slice of the bounded-exhaustive space:
    every recoverable single-family history with <= 2 two-copy duplications on every tree shape with <= 5 leaves"""
    # corpus first: the repository's own fixtures (correspondence only; some are outside the consistent domain)
    if os.environ.get('VERIF_SHARD', '0/1').startswith('0/'):
        import corpus
        for D in corpus.fixtures(ob.REPO):
            ex.res.count('corpus_fixtures')
            yield D
        # the datasets proved consistent in Lean (Witness.lean): non-vacuity witnesses of the theorems' hypotheses,
        # here run through pyham like any generated case (histories, echoes and oracles included)
        for D in corpus.lean_witnesses(core.DRIVER):
            ex.res.count('lean_witness_datasets')
            if D.meta.get('witness') == 'simpleEx':
                ex.res.count('witness_simpleEx_equals_repo_fixture', 0 if corpus.witness_matches_fixture(D, ob.REPO) else 1)
            yield D
    if exhaustive:
        k, shards = [int(x) for x in os.environ.get('VERIF_SHARD', '0/1').split('/')]
        for i, D in enumerate(gen.exhaustive_datasets(5, 2, naming='own')):
            if i % shards == k:
                if i % 2:
                    D.naming = 'synth'
                    D.groups = [g for p, l, _ in D.families for g in gen.encode(D.T, D.naming, p, l)]
                ex.res.count('exhaustive_small_histories')
                yield D
    for _ in range(n):
        D = respell(ex.rng, std_dataset(ex.rng))
        if ex.rng.random() < 0.1:
            # `og` attributes next to the ids (top-level groups included, og != id): a label, not a second id (r9-C01b)
            D.groups = gen.add_og_attrs(ex.rng, D.groups); ex.res.count('cases_with_og_attributes')
        if D.naming == 'own' and ex.rng.random() < 0.12:
            # TaxRange labels naming a clade ABOVE the level of the group (e.g. a file exported for a subset of species):
            # the level rule places a multi-species group by its members, whatever the label says
            D.groups, nml = gen.mislabel(ex.rng, D.T, D.groups)
            if nml:
                D.meta['mislabelled'] = nml; ex.res.count('cases_with_labels_above_the_level')
        yield D
    for _ in range(2):
        ex.res.count('large_datasets')
        yield large_dataset(ex.rng)
    if getattr(ex, 'wild', False):
        # secondary stream: files that are not encodings of histories (gen.wild_dataset).  The loader and its model must
        # agree on them too (accepted / rejected with the same exception class; same hierarchy, genomes, genes), and
        # wherever the model's result is well-formed the literal clauses of C02 are checked on pyham's objects.
        for _ in range(max(20, n // 5)):
            ex.res.count('wild_files')
            yield gen.wild_dataset(ex.rng)
        # ... and files with a REPEATED gene identifier (one id declared twice: the later declaration is the one geneRefs
        # resolve to).  Outside every property's domain; the model follows the dictionary semantics of the code
        # (`genes.reverse.find?`) and the mutation sweep of the model showed that nothing exercised it.
        for _ in range(max(8, n // 40)):
            D = std_dataset(ex.rng, no_idless=True)
            tops_ = [i for i, g in enumerate(D.groups) if g[0] == 'og']
            if False:
                # (two top-level groups with one id are NOT generated: the model keeps only the later family and lists the genes
                # of the replaced one as singletons, pyham keeps the replaced HOG reachable from its genes -- a known limit of
                # the model outside the domain, DESIGN section 7)
                pass
            else:
                decl_ = [(si, g) for si, (_, gs) in enumerate(D.species) for g, _ in gs]
                if len(D.species) < 2 or not decl_:
                    continue
                si, g = ex.rng.choice(decl_)
                sj = ex.rng.choice([x for x in range(len(D.species)) if x != si])
                D.species[sj] = (D.species[sj][0], list(D.species[sj][1]) + [(g, [('protId', 'Pdup' + g)])])
                if D.meta.get('style'):
                    D.meta['style'] = dict(D.meta['style'], late_species=None)      # (every declaration precedes the groups: the model reads the whole species section first)
                ex.res.count('wild_files_repeated_gene_id')
            D.families = []; D.meta['wild'] = True; D.meta['repeated_ids'] = True
            ex.res.count('wild_files')
            yield D
    if getattr(ex, 'species_level', False):
        # secondary stream (C01 / C20 only): gene references wrapped into species-level groups (TaxRange = species name,
        # optionally with an in-paralog).  pyham dissolves such groups while loading; outside the spelled-history
        # domain, so only "no referenced gene lost, duplicated or moved" and the model's members are checked.
        for _ in range(max(10, n // 6)):
            D = gen.species_wrap(ex.rng, std_dataset(ex.rng))
            ex.res.count('species_level_group_files')
            yield D

def explore_load(prop, tier, seed, oracle, tags, n_quick, emit=(), with_truth=False, pyobs=None, species_level=False, wild=True):
    ex = Explorer(prop, tier, seed)
    ex.species_level = species_level
    ex.wild = wild
    n = budget(tier, n_quick)
    for k, D in enumerate(dataset_stream(ex, n, tier == 'thorough' and prop in ('C02', 'C03'))):
        cid = '%s-%d' % (prop, k)
        ex.note_dataset(D)
        if D.meta.get('corpus'):
            try:
                h = pyham.Ham(hog_file=D.meta['hog_file'], **D.meta['tree_kw'])
                o = ob.Obs(); o.put('load', 'ok'); ob.observe_load(h, o)
            except Exception as e:      # noqa
                ex.fail(cid, D, ['repository fixture %s: %s: %s' % (D.meta['corpus'], type(e).__name__, e)])
                continue
            ex.submit(cid, D, o.tags, [t for t in tags if t != 'agname' or True], emit=emit, extra=o, hist=False)
            continue
        if D.meta.get('wild'):
            o = ob.Obs()
            sq_, st_ = [], []
            try:
                try:
                    h = core.load_py(D)
                finally:
                    sq_, st_ = core.sax_of_last_load(o.tags)
                o.put('load', 'ok'); ob.observe_load(h, o)
                o.wild_problems = orc.wf_problems(h) + list(o.problems)
                o.wild_literal = orc.wf_problems(h, literal=True) + list(o.problems)
                o.wild_always = orc.skipped_levels_single_child(h) + orc.no_orphans(h)
                if D.meta.get('repeated_ids'):
                    # (repeated identifiers: no clause of any property applies; the model is the only reference)
                    o.wild_problems = []; o.wild_literal = []; o.wild_always = []
                ex.res.count('wild_files_loaded')
            except Exception as e:      # noqa
                o.put('load', 'err:' + ob.err_name(e))
                o.wild_problems = []; o.wild_literal = []; o.wild_always = []
                ex.res.count('wild_files_rejected')
            ex.res.count('parser_calls_compared_in_lock_step', sum(len(x.split(' (')) for x in sq_))
            ex.submit(cid, D, o.tags, ['load', 'genes', 'members', 'forest', 'genomes'] + st_, extra=o, hist=False, queries=sq_)
            continue
        poke = prop in ('C01', 'C02', 'C04') and ex.rng.random() < 0.15
        twice = (not poke) and prop in ('C01', 'C02', 'C04') and ex.rng.random() < 0.08
        if twice:
            # "in every loaded analysis": also the second one built in this process from the same, unchanged Newick file
            # (r10-C01a / C17a: a module-level cache of parsed tree files)
            ex.res.count('second_analysis_from_the_same_newick_file')
            core.try_load(D, newick_dir=ex.tmp)
        h = load_or_fail(ex, cid, D, **(dict(phyloxml_dir=ex.tmp) if poke and ex.rng.random() < 0.4 else dict(newick_dir=ex.tmp) if twice else {}))
        if h is None:
            continue
        o = ob.Obs(); o.put('load', 'ok')
        sq_, st_ = core.sax_of_last_load(o.tags)
        ex.res.count('parser_calls_compared_in_lock_step', sum(len(x.split(' (')) for x in sq_))
        try:
            if poke:
                # "in every loaded analysis": also after read-only reporting calls (profiles create genomes lazily and, for
                # PhyloXML trees, re-read the tree file)
                ex.res.count('observed_after_reporting_calls')
                # genome objects handed out before the reporting calls stay THE genomes of their nodes (gene-less species and
                # taxa without any family included: r12-C04b replaces "empty" genomes on their nodes)
                if ex.rng.random() < 0.5:
                    # iHam pages BEFORE any profile (a whole-dataset profile gives every leaf a genome; before it, species of the
                    # tree that the file does not declare have none: r13-C04b prunes them from "a copy" of the clade)
                    for x_ in h.get_list_top_level_hogs()[:3]:
                        h.create_iHam(x_)
                    ex.res.count('iham_pages_before_any_profile')
                held_g_ = [(g_, g_.taxon) for g_ in list(h.get_list_extant_genomes()) + list(h.get_list_ancestral_genomes())]
                h.create_tree_profile()
                held_g_ += [(g_, g_.taxon) for g_ in h.get_list_ancestral_genomes()]
                h.create_tree_profile()
                for g_, t_ in held_g_:
                    if g_.taxon is not t_ or getattr(t_, 'genome', None) is not g_:
                        o.problems.append('genome %s was bound to node %s before the tree profiles; afterwards that node carries another genome object' % (g_.name, t_.name))
                subs_ = [x for t in h.get_list_top_level_hogs() for x in all_nodes(t) if isinstance(x, ag.HOG) and x.parent is not None]
                if subs_:
                    h.create_tree_profile(hog=ex.rng.choice(subs_))
                # ... and iHam pages / exports (of HOGs carrying several duplication events in particular: r10-C02a)
                multi_ = [x for t in h.get_list_top_level_hogs() for x in all_nodes(t) if isinstance(x, ag.HOG) and len(x.duplications) >= 2]
                for x_ in (multi_[:2] + h.get_list_top_level_hogs()[:2]):
                    h.create_iHam(x_); ob.OrthoXML_manager(x_).get_orthoxml_str()
                # ... comparisons whose returned containers the caller then edits in place (r13-C01a: GAIN handed out as the
                # genome's own gene list when the ancestral genome holds no HOG)
                lv_g_ = [g_ for g_ in h.get_list_extant_genomes()]
                for ga_, gb_ in [tuple(ex.rng.sample(lv_g_, 2)) for _ in range(3)] if len(lv_g_) >= 2 else []:
                    try:
                        ml_ = h.compare_genomes_lateral(ga_, gb_)
                        for acc_ in (ml_.get_gained, ml_.get_lost, ml_.get_retained, ml_.get_duplicated):
                            orc.spoil(acc_())
                        anc_ = h.get_ancestral_genome_by_mrca_of_genome_set({ga_, gb_})
                        mv_ = h.compare_genomes_vertically(ga_, anc_)
                        for acc_ in (mv_.get_gained, mv_.get_lost, mv_.get_retained, mv_.get_duplicated):
                            orc.spoil(acc_())
                    except Exception as e:      # noqa
                        o.problems.append('lateral / vertical comparison of %s and %s raised %s' % (ga_.name, gb_.name, type(e).__name__))
                # ... the navigation accessors hand out containers of their own: the caller editing them in place leaves the
                # hierarchy as it is (r13-C02a / C16b: the live children list of a lowest-level HOG handed out)
                for x_ in [y_ for t_ in h.get_list_top_level_hogs() for y_ in all_nodes(t_) if isinstance(y_, ag.HOG)][:40]:
                    for acc_ in (x_.get_all_descendant_genes, x_.get_all_descendant_hogs, x_.get_all_descendant_genes_clustered_by_species):
                        try:
                            orc.spoil(acc_())
                        except Exception:      # noqa
                            pass
                # ... after all of this the species tree of the analysis is still the input tree (r13-C04b / C10b / C18b: iHam
                # pruning "a copy" of the clade), every listed genome sits on a node of it, and every declared species is
                # returned by its name with exactly its genes (r13-C01b: a name index re-pointed at a scratch copy of the tree)
                live_ = set(id(n_) for n_ in h.taxonomy.tree.traverse())
                if len(live_) != len(list(gen.paths(D.T))):
                    o.problems.append('after reporting calls the species tree of the analysis has %d nodes, the input tree %d' % (len(live_), len(list(gen.paths(D.T)))))
                for g_ in list(h.get_list_extant_genomes()) + list(h.get_list_ancestral_genomes()):
                    if id(g_.taxon) not in live_:
                        o.problems.append('after reporting calls genome %s is not bound to a node of the species tree' % g_.name)
                for sn_ in set(n_ for n_, _ in D.species):
                    want_ = sorted(g_ for n_, gs_ in D.species if n_ == sn_ for g_, _ in gs_)
                    try:
                        gg_ = h.get_extant_genome_by_name(sn_)
                        if sorted(x_.unique_id for x_ in gg_.genes) != want_ or any(x_.genome is not gg_ for x_ in gg_.genes):
                            o.problems.append('after reporting calls species %s is returned by name with the genes %s, declared %s' % (sn_, sorted(x_.unique_id for x_ in gg_.genes)[:6], want_[:6]))
                    except Exception as e:      # noqa
                        o.problems.append('after reporting calls get_extant_genome_by_name(%r) raised %s' % (sn_, type(e).__name__))
            ob.observe_load(h, o)
            if pyobs:
                pyobs(h, o)
            if D.meta.get('species_level') and prop == 'C02':
                # species-level groups are dissolved by the loader; the flag clauses of C02 do not hold for such files on the
                # unchanged tree (D7), the LINK clauses do: parent and children agree, every gene with a parent is reachable
                # from exactly one listed top-level HOG, nothing is reachable twice
                bad = list(o.problems)
                listed = set(id(x) for t in h.get_list_top_level_hogs() for x in all_nodes(t))
                for g_ in h.get_list_extant_genes():
                    if g_.parent is not None and id(g_) not in listed:
                        bad.append('gene %s has a parent but is not reachable from any listed top-level HOG' % g_.unique_id)
                    if g_.parent is not None and g_.get_top_level_hog() not in h.get_list_top_level_hogs():
                        bad.append('gene %s reports a top-level HOG that is not listed' % g_.unique_id)
            elif D.meta.get('species_level') and prop in ('C03', 'C04'):
                # outside the history domain (D7): the MRCA-rule oracle does not apply; the whole hierarchy is compared with the
                # model, which follows the dissolving branch and its depth patch (r9-C03a)
                bad = []
            else:
                bad = oracle(D, h)
            if prop in ('C01', 'C04'):
                # facts the abstraction step records: each gene exactly once in the gene list of its genome, parent links
                bad += [x for x in o.problems if x not in bad][:5]
        except Exception as e:      # noqa
            bad = ['observing the loaded analysis raised %s: %s' % (type(e).__name__, e)]
        if bad:
            ex.fail(cid, D, bad)
        if D.meta.get('large'):
            continue            # oracle only
        # (species-level files: the model follows the dissolving branch of the loader too -- compare the whole hierarchy)
        ex.submit(cid, D, o.tags, tags + (['forest', 'genomes'] if D.meta.get('species_level') else []) + st_, emit=emit, extra=o, queries=sq_)
        if prop == 'C02' and D.species and k % 5 == 0:
            # a top-level group labelled with the single species of its members cannot be dissolved into a parent; the
            # unchanged loader refuses the file -- should it ever load, the links of the result must still be sound
            i_ = ex.rng.randrange(len(D.species))
            sp_ = list(D.species); sp_[i_] = (sp_[i_][0], list(sp_[i_][1]) + [('zz1', [('protId', 'Pzz1')]), ('zz2', [('protId', 'Pzz2')])])
            gr_ = list(D.groups) + [('og', 'SPL', None, [('prop', 'TaxRange', sp_[i_][0]), ('ref', 'zz1', None), ('ref', 'zz2', None)])]
            try:
                hs_ = core.load_py(D, species=sp_, groups=gr_)
                os_ = ob.Obs(); ob.observe_load(hs_, os_)
                b_ = list(os_.problems) + [x for x in orc.wf_problems(hs_, literal=True)]
                if b_:
                    ex.fail(cid + '-spl', D, ['top-level species-level group: ' + x for x in b_[:4]], species=sp_, groups=gr_)
            except Exception:      # noqa
                pass
        if prop in ('C04', 'C01') and k % 6 == 1 and D.families and all(t_ is not None for _, _, t_ in D.families):      # (a filtered load needs ids on the families)
            # a ParserFilter that served another load before (another file!) and is passed on unchanged selects what a fresh
            # filter with the same queries selects (r10-C04a: the indexing pass memoised per query set)
            xc_ = collections.Counter(v for _, gs_ in D.species for _, xr in gs_ for _, v in set(xr))
            xv_ = sorted(v for v, c in xc_.items() if c >= 2) or sorted(xc_)      # (preferably a value several genes carry)
            if xv_:
                qv_ = ex.rng.choice(xv_)
                prevD = getattr(ex, '_prevD', None)
                try:
                    fo_ = pyham.ParserFilter(); fo_.add_hogs_via_GeneExtId([qv_])
                    if prevD is not None:
                        try:
                            core.load_py(prevD, filter_object=fo_)
                        except Exception:      # noqa
                            pass
                    hs_ = core.load_py(D, filter_object=fo_)
                    ff_ = pyham.ParserFilter(); ff_.add_hogs_via_GeneExtId([qv_])
                    hf_ = core.load_py(D, filter_object=ff_)
                    os_ = ob.Obs(); ob.observe_load(hs_, os_); of_ = ob.Obs(); ob.observe_load(hf_, of_)
                    ex.res.count('filter_object_reused_on_another_file')
                    dd_ = core.diff_tags(os_.tags, of_.tags, ['forest', 'genes', 'genomes', 'members'])
                    if dd_ or os_.problems:
                        ex.fail(cid + '-sf', D, ['a ParserFilter that served another file before selects differently from a fresh filter with the same query %r: %s' % (qv_, (dd_ or os_.problems)[:2])])
                    # ... and the fresh filter selects every family holding a gene that carries the value (all carriers, r10-C04b)
                    wantf_, _ = selected_families(D, set(), set(), {qv_})
                    gotf_ = sorted(map(str, hf_.get_dict_top_level_hogs()))
                    if gotf_ != sorted(map(str, wantf_)):
                        ex.fail(cid + '-sf', D, ['load filtered by the cross-reference value %r holds the families %s, the families with a gene carrying it are %s' % (qv_, gotf_, sorted(map(str, wantf_)))])
                except Exception as e:      # noqa
                    ex.fail(cid + '-sf', D, ['filtered load with a re-used ParserFilter raised %s: %s' % (type(e).__name__, e)])
        if prop == 'C03' and k % 6 == 2 and D.families and all(t_ is not None for _, _, t_ in D.families):
            # a family loaded because one of its genes is named (internal id or a cross-reference) is placed exactly as in the
            # unfiltered load -- whichever of its members is the named one (r13-C03b: members written before the query gene lost)
            p_, l_, tid_ = ex.rng.choice(D.families)
            mem_ = genes_of_family = gen.genes_of(l_)
            if mem_:
                gq_ = ex.rng.choice(mem_[len(mem_) // 2:] or mem_)       # (preferably one written late in the group)
                try:
                    ff_ = pyham.ParserFilter()
                    xr_ = [v_ for _, v_ in core.declared_map(D).get(gq_, [])]
                    if xr_ and ex.rng.random() < 0.5:
                        ff_.add_hogs_via_GeneExtId([xr_[0]])
                    else:
                        ff_.add_hogs_via_GeneIntId([gq_])
                    hf_ = core.load_py(D, filter_object=ff_)
                    ex.res.count('families_loaded_through_a_gene_filter')
                    of_ = ob.Obs(); ob.observe_load(hf_, of_)
                    full_ = dict(x_.split('=', 1) for x_ in o.tags.get('forest', []))
                    flt_ = dict(x_.split('=', 1) for x_ in of_.tags.get('forest', []))
                    key_ = ob.osS(tid_)
                    if key_ not in flt_ or flt_[key_] != full_.get(key_):
                        ex.fail(cid + '-gf', D, ['family %s loaded through a filter naming its gene %s differs from the unfiltered load: %s vs %s' % (tid_, gq_, flt_.get(key_, 'absent')[:200], full_.get(key_, 'absent')[:200])])
                except Exception as e:      # noqa
                    ex.fail(cid + '-gf', D, ['load through a filter naming gene %s raised %s: %s' % (gq_, type(e).__name__, e)])
        if prop == 'C02' and k % 5 == 1 and D.families and all(t_ is not None for _, _, t_ in D.families):
            # "every loaded analysis": also one loaded through a ParserFilter object (family ids) that served ANOTHER file before
            # -- it holds the families a fresh filter selects, and they are well formed (r12-C02a: a filter that is not rebuilt,
            # plus references to genes that were not kept being skipped)
            prevD = getattr(ex, '_prevD', None)
            tid_ = ex.rng.choice([t_ for _, _, t_ in D.families])
            try:
                fo_ = pyham.ParserFilter(); fo_.add_hogs_via_hogId([tid_])
                if prevD is not None:
                    try:
                        core.load_py(prevD, filter_object=fo_)
                    except Exception:      # noqa
                        pass
                hs_ = core.load_py(D, filter_object=fo_)
                ff_ = pyham.ParserFilter(); ff_.add_hogs_via_hogId([tid_])
                hf_ = core.load_py(D, filter_object=ff_)
                os_ = ob.Obs(); ob.observe_load(hs_, os_); of_ = ob.Obs(); ob.observe_load(hf_, of_)
                ex.res.count('filter_object_reused_on_another_file')
                dd_ = core.diff_tags(os_.tags, of_.tags, ['forest', 'genes', 'genomes', 'members'])
                b_ = list(os_.problems) + orc.wf_problems(hs_)
                if dd_ or b_:
                    ex.fail(cid + '-sf', D, ['analysis loaded through a ParserFilter (family %r) that served another file before: %s' % (tid_, (b_ or dd_)[:3])])
            except Exception as e:      # noqa
                ex.fail(cid + '-sf', D, ['filtered load with a re-used ParserFilter raised %s: %s' % (type(e).__name__, e)])
        if prop == 'C01' and k % 12 == 5 and D.families and not D.meta.get('species_level'):
            # a REFERENCED gene declared only after the groups section: the streaming loader resolves a reference against the
            # declarations read so far (KeyError), the recursive model reads the species sections first.  Nothing is claimed
            # about such files; the document machine (Sax.dstep) must follow pyham call by call, up to the call that raises
            # (theorem C01_species_after_groups_needs_unreferenced is this shape)
            refd_ = set(orc.refs_of(D.groups))
            cand_ = [i_ for i_, (_, gs_) in enumerate(D.species) if any(g_ in refd_ for g_, _ in gs_)]
            if cand_:
                i_ = ex.rng.choice(cand_)
                sp_ = [x_ for j_, x_ in enumerate(D.species) if j_ != i_] + [D.species[i_]]
                ol_ = ob.Obs()
                try:
                    pyham.Ham(tree_file=core.nwk_of(D), hog_file=gen.orthoxml(sp_, D.groups, style=dict(late_species=[len(sp_) - 1])),
                              orthoXML_as_string=True, use_internal_name=(D.naming == 'own'))
                    ol_.put('lateload', 'ok')
                except Exception as e:      # noqa
                    ol_.put('lateload', 'err:' + ob.err_name(e))
                sql_, stl_ = core.sax_of_last_load(ol_.tags)
                ol_.tags.pop('saxev', None)
                ex.res.count('referenced_gene_declared_after_the_groups_section')
                ex.submit(cid + '-late', D, ol_.tags, [t_ for t_ in stl_ if t_ == 'saxtr'], species=sp_, hist=False, queries=sql_)
        ex._prevD = D
        if prop == 'C04' and D.naming == 'own' and k % 4 == 0:
            # species_resolve_mode="OMA": a leaf declared by its code AND by the name of a clade that resolves to it has ONE
            # genome, which lists the genes of both <species> elements
            import re as _re4
            for p4 in gen.paths(D.T):
                t4 = gen.sub(D.T, p4)
                codes4 = [i4 for i4, k4 in enumerate(t4[1]) if len(k4[0]) == 5 and _re4.match(r'[A-Z][A-Z0-9]{4}', k4[0])]
                if not (t4[1] and len(codes4) == 1 and not t4[1][codes4[0]][1]):
                    continue
                leaf4 = t4[1][codes4[0]][0]
                idx4 = [i4 for i4, (n4, _) in enumerate(D.species) if n4 == leaf4]
                if not idx4:
                    continue
                sp4 = list(D.species)
                sp4.insert(idx4[0] + (1 if ex.rng.random() < 0.5 else 0), (t4[0], [('ox1', [('protId', 'Pox1')]), ('oy1', [])]))
                try:
                    h4 = core.load_py(D, species=sp4, species_resolve_mode='OMA')
                except Exception:      # noqa
                    break
                ex.res.count('oma_one_leaf_declared_twice')
                want4 = sorted(g4 for n4, gs4 in sp4 if n4 in (leaf4, t4[0]) for g4, _ in gs4)
                for g4 in h4.get_list_extant_genomes():
                    if g4.name == leaf4 and sorted(x.unique_id for x in g4.genes) != want4:
                        ex.fail(cid + '-oma2', D, ['OMA mode: genome %r lists %s; declared for that leaf (in two <species> elements): %s' % (leaf4, sorted(x.unique_id for x in g4.genes), want4)], species=sp4)
                if any(x.genome.taxon.genome is not x.genome for x in h4.get_list_extant_genes()):
                    ex.fail(cid + '-oma2', D, ['OMA mode: a gene belongs to a genome that is not the genome bound to its leaf'], species=sp4)
                break
        if prop == 'C02' and D.naming == 'own' and D.families and k % 6 == 0:
            # species_resolve_mode="OMA": whatever a clade named as species resolves to, a loaded analysis keeps genes at leaves
            internal_ = [gen.display_name(D.T, p_, 'own') for p_ in gen.paths(D.T) if gen.sub(D.T, p_)[1]]
            for i_ in range(len(D.species)):
                for nm_ in internal_:
                    sp_ = list(D.species); sp_[i_] = (nm_, sp_[i_][1])
                    try:
                        ho = core.load_py(D, species=sp_, species_resolve_mode='OMA')
                    except Exception:      # noqa
                        continue
                    ex.res.count('oma_mode_loads')
                    b_ = [x for x in orc.wf_problems(ho) if 'leaf' in x]
                    b_ += ['OMA mode: extant genome %r sits on an internal taxon' % g_.name for g_ in ho.get_list_extant_genomes() if not g_.taxon.is_leaf()]
                    if b_:
                        ex.fail(cid + '-oma', D, b_[:4], species=sp_)
    def custom(cid, D, pytags, L, o):
        out = []
        # echo of the theorems' hypotheses / conclusions, evaluated by the model on this case:
        # WF (C02) + registration exact + genome sizes exact (C04), and "the family realises its history" (C03)
        if D.meta.get('wild'):
            # where the model (= the unchanged loader) yields a well-formed analysis, pyham's objects must satisfy C02
            if getattr(o, 'wild_always', None):
                ex.fail(cid, D, o.wild_always[:4])
            if L.get('wf') and L['wf'][0][0] == '1' and getattr(o, 'wild_problems', None):
                ex.fail(cid, D, ['file outside the history domain, well-formed according to the model: ' + x for x in o.wild_problems[:4]])
            elif L.get('wflit') == ['1'] and getattr(o, 'wild_literal', None):
                ex.fail(cid, D, ['file outside the history domain; the model satisfies the level / event / flag clauses of C02, pyham does not: ' + x for x in o.wild_literal[:4]])
            if L.get('wflit') == ['1']:
                ex.res.count('wild_files_checked_against_C02_literally')
            return out
        if D.meta.get('corpus') or D.meta.get('species_level'):
            return out
        if L.get('wf') not in (None, ['111']):
            out.append(('model-wf-regExact-sizesExact', [], L.get('wf')))
        if with_truth and any(x != '1' for x in L.get('real', [])) and not D.meta.get('nested_only_raw'):
            out.append(('model-realises-history', [], L.get('real')))
        if with_truth:
            lf = sorted(x.split('=', 1)[1] for x in L.get('forest', []))
            if lf != sorted(L.get('truth', [])):
                out.append(('model-load-vs-truth', lf[:3], sorted(L.get('truth', []))[:3]))
            pf = sorted(x.split('=', 1)[1] for x in pytags.get('forest', []))
            if pf != sorted(L.get('truth', [])):
                out.append(('pyham-vs-truth', pf[:3], sorted(L.get('truth', []))[:3]))
        return out
    ex.finish(custom)
    ex.close()
    return ex.res

def c01(tier, seed):
    res = explore_load('C01', tier, seed, orc.c01, ['load', 'genes', 'members'], 900, species_level=True)
    if os.environ.get('VERIF_SHARD', '0/1').startswith('0/'):
        # a family nested through 100+ levels of a ladder-like tree: its top-level HOG still holds every referenced gene, each
        # once (r14-C01b: a depth limit in the visitor that is not derived from the tree)
        n_ = 100 + 7 * (seed % 5)
        bad_ = deep_family_navigation(n_)
        res.count('families_nested_through_more_than_100_levels')
        if bad_:
            res.oracle_failures.append(dict(case='C01-deep', clauses=bad_[:4], call='a family with one member in each of %d species of a caterpillar tree, written as %d nested groups' % (n_, n_ - 1),
                                            input=dict(newick='caterpillar of %d species S0..S%d' % (n_, n_ - 1), naming='own', orthoxml='(generated: harness/props.py deep_family_navigation(%d))' % n_), extra=None, _D=None))
    return res

def c02(tier, seed):
    def pyobs(h, o):
        pass
    res = explore_load('C02', tier, seed, orc.c02, ['load', 'forest'], 900, with_truth=True, species_level=True)
    return res

def c03(tier, seed):
    return explore_load('C03', tier, seed, orc.c03, ['load', 'forest', 'members'], 1200, with_truth=True, species_level=True)

def c04(tier, seed):
    return explore_load('C04', tier, seed, orc.c04, ['load', 'genomes', 'agname'], 900, species_level=True)

# ------------------------------------------------------------------------------ comparisons

def tax_q(p):
    return gen.sx_tax(p)

def explore_maps(prop, tier, seed, n_quick, mode):
    ex = Explorer(prop, tier, seed)
    n = budget(tier, n_quick)
    for k in range(n):
        D = respell(ex.rng, std_dataset(ex.rng)) if k >= 2 else large_dataset(ex.rng)
        if k == 1 and D.species:
            # ... one of whose genomes holds more than a thousand genes (family members plus singletons): r10-C07b, a second
            # algorithm above a size threshold
            i_ = max(range(len(D.species)), key=lambda j_: len(D.species[j_][1]))
            D.species[i_] = (D.species[i_][0], list(D.species[i_][1]) + [('zs%d' % j_, [('protId', 'Pzs%d' % j_)]) for j_ in range(1100)])
            ex.res.count('genomes_with_more_than_1000_genes')
        if k == 2 and mode == 'C05':
            # one duplication with 256 (a multiple of 256) copies in one species (r13-C05a: copy numbers kept in 8 bits)
            D = gen.Dataset(('R', (('A', ()), ('B', ()), ('C', ()))), 'own')
            D.species = [('A', [('a%d' % i_, [('protId', 'Pa%d' % i_)]) for i_ in range(256 if seed % 2 == 0 else 512)]), ('B', [('b1', [('protId', 'Pb1')])]), ('C', [('c1', [])])]
            D.groups = [('og', '1', None, [('ref', 'b1', None), ('pg', None, [('ref', g_, None) for g_, _ in D.species[0][1]])])]
            D.families = []; D.base_groups = list(D.groups); D.meta = dict(large=True, wide_duplication=len(D.species[0][1]))
            ex.res.count('duplications_with_256_or_512_copies')
        cid = '%s-%d' % (prop, k)
        ex.note_dataset(D)
        if ex.rng.random() < 0.2:
            # the same files were loaded and compared before in this process (another Ham object): results of THIS analysis
            # must be made of ITS objects
            try:
                h0 = core.load_py(D); p0, g0 = orc.lineage_pairs(h0)
                for a0, d0 in p0[:8]:
                    h0.compare_genomes_vertically(g0[a0], g0[d0])
                h0.create_tree_profile()
                ex.res.count('cases_loaded_and_compared_twice')
            except Exception:      # noqa
                pass
        import contextlib as _clm, io as _iom
        with _clm.redirect_stderr(_iom.StringIO()):
            # (the analysis with the > 1000-gene genome is loaded with progress reporting on: r13-C05b, a batched walk behind a
            # progress bar that drops the last incomplete batch)
            h = load_or_fail(ex, cid, D, **(dict(with_parser_progress=True) if k == 1 else {}))
        if h is None:
            continue
        o = ob.Obs(); o.put('load', 'ok')
        queries = []
        try:
            if ex.rng.random() < 0.3:
                # every taxon gets its genome (the whole-dataset profile creates the missing, empty ones): comparisons
                # with gene-less genomes -- all lost / all gained -- are comparisons too
                h.create_tree_profile()
                ex.res.count('cases_with_all_genomes_created')
            if mode in ('C05', 'C06'):
                pairs, gs = orc.lineage_pairs(h)
                if len(pairs) > 40 and tier == 'quick':
                    allp_ = pairs
                    pairs = ex.rng.sample(pairs, 40)
                    if k == 1:
                        # ... the comparisons that end in the largest genome are always made
                        big_ = max(gs, key=lambda p_: len(gs[p_].genes))
                        pairs += [pr_ for pr_ in allp_ if pr_[1] == big_ and pr_ not in pairs]
                ex.res.count('lineage_pairs', len(pairs))
                ex.res.count('pairs_nonadjacent', sum(1 for a, d in pairs if len(d) - len(a) > 1))
                bad = orc.c05(D, h, pairs) if mode == 'C05' else orc.c06(D, h, pairs)
                for a, d in pairs:
                    v = h.compare_genomes_vertically(gs[a], gs[d]); m = v.map
                    o.put('vmap', ob.vmapS(v))
                    o.put('upmap', ob.upmapS(m))
                    if mode == 'C06' and D.families:
                        # duplicated copies and retained genes of this branch against the top-down walk over the HISTORIES
                        # (theorem C06_reported_count_is_the_history)
                        o.put('hrep', '%s>%s=%d,%d' % (taxS(a), taxS(d), sum(len(x_) for x_ in v.get_duplicated().values()), len(v.get_retained())))
                    if mode == 'C06' and D.families and gen.sub(D.T, d)[1]:
                        # the number of gained genes over this (arbitrary) branch against what the HISTORIES say: lineages at d of
                        # the families that start strictly below a (theorem C06_gained_count_is_the_history; the driver
                        # evaluates the right-hand side on the histories alone)
                        o.put('hgain', '%s>%s=%d' % (taxS(a), taxS(d), len(v.get_gained())))
                        o.put('hlost', '%s>%s=%d' % (taxS(a), taxS(d), len(v.get_lost())))
                        o.put('hndup', '%s>%s=%d' % (taxS(a), taxS(d), v.get_number_duplications()))
                    queries.append('(v %s %s)' % (tax_q(d), tax_q(a)) if ex.rng.random() < 0.5 else '(v %s %s)' % (tax_q(a), tax_q(d)))
            elif mode == 'C07':
                triples, gs = orc.lineage_triples(h)
                if len(triples) > 30 and tier == 'quick':
                    big_ = [t_ for t_ in triples if len(gs[t_[2]].genes) > 1000]
                    triples = (big_[:20] + ex.rng.sample(triples, 30 - min(20, len(big_)))) if big_ else ex.rng.sample(triples, 30)
                ex.res.count('triples', len(triples))
                bad = orc.c07(D, h, triples)
                done = set()
                for a, b, c in triples:
                    for x, y in ((a, c), (b, c), (a, b)):
                        if (x, y) in done:
                            continue
                        done.add((x, y))
                        v = h.compare_genomes_vertically(gs[x], gs[y]); m = v.map
                        o.put('upmap', ob.upmapS(m))
                        o.put('vmap', ob.vmapS(v))
                        queries.append('(v %s %s)' % (tax_q(x), tax_q(y)))
            else:  # C08
                gs = genomes_of(h)
                ps = sorted(gs)
                pairs = [(x, y) for i, x in enumerate(ps) for y in ps[i + 1:]]
                if len(pairs) > 25 and tier == 'quick':
                    pairs = ex.rng.sample(pairs, 25)
                ex.res.count('unordered_pairs', len(pairs))
                ex.res.count('pairs_off_lineage', sum(1 for x, y in pairs if gen.lcp([x, y]) not in (x, y)))
                bad = orc.c08(D, h, pairs)
                for x, y in pairs:
                    for g1, g2 in ((x, y), (y, x)):
                        lm = h.compare_genomes_lateral(gs[g1], gs[g2])
                        per = sorted(ob.hmapS(m) for m in lm.maps.values())
                        o.put('lmap', '%s,%s|anc=%s|%s' % (taxS(g1), taxS(g2), taxS(pathof(lm.ancestor.taxon)), ' # '.join(per)))
                        o.put('lagg', '%s,%s|lost=%s|gained=%s|ret=%s|dup=%s' % (
                            taxS(g1), taxS(g2),
                            ';'.join(sorted(nodekey(k) + '@' + '+'.join(sorted(taxS(pathof(z.taxon)) for z in v)) for k, v in lm.get_lost().items())),
                            ';'.join(sorted(taxS(pathof(k.taxon)) + '@' + '+'.join(sorted(nodekey(z) for z in v)) for k, v in lm.get_gained().items())),
                            ';'.join(sorted(nodekey(k) + '@' + '+'.join(sorted(taxS(pathof(gg.taxon)) + '>' + nodekey(z) for gg, z in v.items())) for k, v in lm.get_retained().items())),
                            ';'.join(sorted(nodekey(k) + '@' + '+'.join(sorted(taxS(pathof(gg.taxon)) + '>' + ','.join(sorted(nodekey(z) for z in zs)) for gg, zs in v.items())) for k, v in lm.get_duplicated().items()))))
                        queries.append('(l %s %s)' % (tax_q(g1), tax_q(g2)))
                        if D.families:
                            # per compared genome: duplicated copies / retained genes against the histories (theorem
                            # C08_lateral_counts_are_the_history)
                            for gq_ in (g1, g2):
                                if gq_ != pathof(lm.ancestor.taxon):
                                    o.put('hlat', '%s,%s>%s=%d,%d' % (taxS(g1), taxS(g2), taxS(gq_),
                                                                      sum(len(v_[gs[gq_]]) for v_ in lm.get_duplicated().values() if gs[gq_] in v_),
                                                                      sum(1 for v_ in lm.get_retained().values() if gs[gq_] in v_)))
                        try:
                            v = h.compare_genomes_vertically(gs[g1], gs[g2]); m = v.map
                            o.put('vmap', ob.vmapS(v)); o.put('upmap', ob.upmapS(m))
                        except Exception as e:      # noqa
                            o.put('verr', '%s,%s=%s' % (taxS(g1), taxS(g2), ob.err_name(e)))
                        queries.append('(v %s %s)' % (tax_q(g1), tax_q(g2)))
        except Exception as e:      # noqa
            bad = ['comparison raised %s: %s' % (type(e).__name__, e)]
        if bad:
            ex.fail(cid, D, bad)
        tags = {'C05': ['vmap'], 'C06': ['vmap', 'upmap', 'hgain', 'hlost', 'hrep', 'hndup'], 'C07': ['upmap'], 'C08': ['lmap', 'lagg', 'vmap', 'verr', 'lerr', 'hlat']}[mode]
        if D.meta.get('large'):
            ex.res.count('large_datasets'); continue
        ex.submit(cid, D, o.tags, ['load'] + tags, queries=queries)
    # ---- files outside the history domain, with the MODEL as reference (C05 / C06 / C07): two separate duplication events on one
    # branch (sibling paralogGroups), species-level groups, files that encode no history.  Wherever the model's comparison is
    # consistent (its RETAINED never overwrites: flag c=1) pyham must return the same clusters and they must partition both genomes.
    if mode in ('C05', 'C06', 'C07'):
        for k in range(max(20, n // 5)):
            kind = ex.rng.choice(['sibling_events', 'sibling_events', 'species_level', 'wild', 'single_member_pg', 'single_member_pg'])
            if kind == 'wild':
                D = gen.wild_dataset(ex.rng)
            elif kind == 'single_member_pg':
                # duplications of which one copy is left in the file (a paralogGroup with a single member): r11-C07a
                D = std_dataset(ex.rng)
                D.groups, nsm = gen.single_member_pgs(ex.rng, D.groups, prob=0.5)
                if not nsm:
                    continue
                D.families = []
            else:
                D = std_dataset(ex.rng, P=dict(dup=0.6, elide=0.7, loss=0.1, multi=0.9))
                if kind == 'sibling_events':
                    D.groups, nsp = gen.split_events(ex.rng, D.groups)
                    if not nsp:
                        continue
                    D.families = []
                else:
                    D = gen.species_wrap(ex.rng, D)
            cid = '%s-x%d' % (prop, k)
            try:
                h = core.load_py(D)
            except Exception:      # noqa
                continue
            ex.res.count('outside_domain_' + kind)
            gated = []; queries = []
            try:
                pairs, gs = orc.lineage_pairs(h)
                for a, d in (pairs if len(pairs) <= 25 else ex.rng.sample(pairs, 25)):
                    v = h.compare_genomes_vertically(gs[a], gs[d])
                    gated.append((taxS(a) + '>' + taxS(d), ob.vmapS(v), orc.c05_pair(h, gs[a], gs[d])))
                    queries.append('(v %s %s)' % (tax_q(a), tax_q(d)))
            except Exception as e:      # noqa
                ex.fail(cid, D, ['comparison raised %s: %s' % (type(e).__name__, e)])
                continue
            o = ob.Obs(); o.put('load', 'ok')
            ex.submit(cid, D, o.tags, ['load'], queries=queries, extra=gated, hist=False)
    def custom(cid, D, pytags, L, gated):
        out = []
        if not isinstance(gated, list):
            return out
        lean = {x.split('|', 1)[0]: x for x in L.get('vmap', [])}
        for key, pystr, bad5 in gated:
            lx = lean.get(key)
            if lx is None or not lx.endswith('|c=1'):
                continue            # the model's own map is inconsistent here (overwrites): iteration order matters, not compared
            ex.res.count('outside_domain_pairs_compared')
            if pystr.rsplit('|', 1)[0] != lx.rsplit('|', 1)[0]:
                out.append(('vmap-where-the-model-is-consistent', [pystr], [lx]))
            if bad5:
                ex.fail(cid, D, ['file outside the history domain, comparison consistent in the model: ' + b for b in bad5[:3]])
        return out
    ex.finish(custom)
    ex.close()
    return ex.res

def c05(tier, seed): return explore_maps('C05', tier, seed, 400, 'C05')
def c06(tier, seed): return explore_maps('C06', tier, seed, 400, 'C06')
def c07(tier, seed): return explore_maps('C07', tier, seed, 300, 'C07')
def c08(tier, seed): return explore_maps('C08', tier, seed, 250, 'C08')

# ---------------------------------------------------------------------------------- profiles

def explore_profiles(prop, tier, seed, n_quick):
    ex = Explorer(prop, tier, seed)
    n = budget(tier, n_quick)
    for k in range(n):
        kw = {}
        if ex.rng.random() < 0.4:
            kw['top_positions'] = 'any'
        D = respell(ex.rng, std_dataset(ex.rng, **kw)) if k >= 2 else large_dataset(ex.rng)
        if k in (3, 4):
            # the smallest species tree: one species, no ancestral level at all ("for every loaded analysis the profile exists":
            # its only node is the root, which carries its genome size).  Singleton genes only.
            D = gen.Dataset(('HUMAN', ()), 'own' if k == 3 else 'synth')
            D.species = [('HUMAN', [('g%d' % i_, [('protId', 'P%d' % i_)]) for i_ in range(1, 2 + k)])]
            D.groups = []; D.families = []; D.base_groups = []; D.meta = dict(single_species=True)
            ex.res.count('single_species_trees')
        if k % 7 == 6:
            # duplications of which a single copy is left in the file (a paralogGroup with one member): outside the
            # spelled-history domain, but the profiles are defined for them and the model computes them
            D.groups, nsm = gen.single_member_pgs(ex.rng, D.groups)
            if nsm:
                D.families = []; D.meta['single_member_pgs'] = nsm
                ex.res.count('cases_with_single_member_paralog_groups')
        cid = '%s-%d' % (prop, k)
        ex.note_dataset(D)
        if D.families and not any(p == () for p, _, _ in D.families):
            ex.res.count('cases_no_family_at_root')
        if D.meta.get('undeclared_species') or any(not g for _, g in D.species):
            ex.res.count('cases_with_geneless_species')
        phylo = ex.rng.random() < 0.25      # TreeProfile re-reads a PhyloXML tree file: another code path
        nwkfile = (not phylo) and ex.rng.random() < 0.15
        ex.res.count('tree_as_phyloxml_file' if phylo else 'tree_as_newick_file' if nwkfile else 'tree_as_newick_string')
        h = load_or_fail(ex, cid, D, **(dict(phyloxml_dir=ex.tmp) if phylo else dict(newick_dir=ex.tmp) if nwkfile else {}))
        if h is None:
            continue
        if nwkfile:
            # an analysis loaded from a Newick file does not go back to the file (another tree may have been written under
            # that name in the meantime): r10-C09b.  (PhyloXML input IS re-read by the unchanged code -- observation D13.)
            with open(os.path.join(ex.tmp, 'tree.nwk'), 'w') as f_:
                f_.write('((ZZ1,ZZ2)ZZ3,ZZ4)ZZ5;')
        o = ob.Obs(); o.put('load', 'ok'); subq = []
        tids9 = [t_ for _, _, t_ in D.families]
        if prop == 'C09' and not phylo and not nwkfile and k % 8 == 5 and len(tids9) >= 2 and all(t_ is not None for t_ in tids9):
            # the SAME input arguments loaded again with another option (a filter): the profile of that second analysis is made
            # of its own comparisons and balances (r10-C09a: maps shared between analyses, keyed by the input files)
            try:
                h.create_tree_profile()
                f9_ = pyham.ParserFilter(); f9_.add_hogs_via_hogId([ex.rng.choice(tids9)])
                hf9_ = core.load_py(D, filter_object=f9_)
                ex.res.count('same_input_loaded_again_with_a_filter')
                b9_ = orc.c09(D, hf9_, ex.tmp)
                if b9_:
                    ex.fail(cid + '-again', D, ['analysis of the same input loaded again through a filter: ' + x for x in b9_[:4]])
            except Exception as e:      # noqa
                ex.fail(cid + '-again', D, ['the same input loaded again through a filter raised %s: %s' % (type(e).__name__, e)])
        if prop == 'C10' and k % 8 == 6 and tids9 and all(t_ is not None for t_ in tids9):
            # the profiles of a FILTERED analysis (one family and one singleton gene named) add up as well (r10-C10b)
            refd_ = set(orc.refs_of(D.groups))
            single_ = [g_ for _, gs_ in D.species for g_, _ in gs_ if g_ not in refd_]
            try:
                f10_ = pyham.ParserFilter(); f10_.add_hogs_via_hogId([ex.rng.choice(tids9)])
                if single_:
                    f10_.add_hogs_via_GeneIntId([ex.rng.choice(single_)])
                hf10_ = core.load_py(D, filter_object=f10_)
                ex.res.count('profiles_of_a_filtered_analysis')
                b10_ = orc.c10(D, hf10_)
                if b10_:
                    ex.fail(cid + '-flt', D, ['filtered analysis (one family, one singleton gene): ' + x for x in b10_[:4]])
            except Exception as e:      # noqa
                ex.fail(cid + '-flt', D, ['profiles of a filtered analysis raised %s: %s' % (type(e).__name__, e)])
        try:
            if ex.rng.random() < 0.3:
                # gene counts WITHOUT singletons were asked for before any profile (r14-C10a: one memo slot for both values of the
                # `singleton` argument)
                for g_ in h.get_list_extant_genomes():
                    g_.get_number_genes(singleton=False)
                ex.res.count('gene_counts_without_singletons_asked_first')
            if ex.rng.random() < 0.2:
                # iHam pages of the families were built before any profile (r13-C10b / C04b: the page builder prunes species
                # without genes of the family -- or without <species> element -- from what it takes for a copy of the clade)
                for t_ in h.get_list_top_level_hogs()[:4]:
                    h.create_iHam(t_)
                ex.res.count('iham_pages_before_the_profiles')
            if ex.rng.random() < 0.4:
                # the profile of some sub-HOG (preferably one written without id) is asked for first
                subs0 = [x for t in h.get_list_top_level_hogs() for x in all_nodes(t) if isinstance(x, ag.HOG) and x.parent is not None]
                if subs0:
                    idless0 = [x for x in subs0 if x.hog_id is None]
                    h.create_tree_profile(hog=ex.rng.choice(idless0 or subs0))
                    ex.res.count('sub_hog_profile_requested_first')
            if ex.rng.random() < 0.3:
                # comparisons with ancestors further up were made before the profile (they share the pair-keyed map cache)
                fp_, fg_ = orc.lineage_pairs(h)
                far_ = [(a_, d_) for a_, d_ in fp_ if len(d_) - len(a_) >= 2]
                for a_, d_ in (far_ if len(far_) <= 8 else ex.rng.sample(far_, 8)):
                    h.compare_genomes_vertically(fg_[a_], fg_[d_])
                ex.res.count('distant_comparisons_before_the_profile', min(8, len(far_)))
            if k % 4 == 1:
                # comparisons of adjacent genomes were made, and their dictionaries READ by subscript (KeyError for genes that are
                # not keys), before the profile: a read does not change what the profile later counts (r11-C09a)
                ap_, ag_ = orc.lineage_pairs(h)
                for a_, d_ in [(x_, y_) for x_, y_ in ap_ if len(y_) - len(x_) == 1][:12]:
                    m_ = h.compare_genomes_vertically(ag_[a_], ag_[d_])
                    for dd_ in (m_.get_duplicated(), m_.get_retained()):
                        for x_ in list(ag_[a_].genes):
                            try:
                                dd_[x_]
                            except KeyError:
                                pass
                ex.res.count('cases_with_subscript_reads_before_the_profile')
            early10 = []
            if prop == 'C10' and k % 2 == 0:
                # the per-family profiles are asked for BEFORE any whole-dataset profile exists (the whole-dataset profile creates
                # the genomes of species that have no <species> element: r11-C10b)
                early10 = [(tid_, ob.profileS(h.create_tree_profile(hog=top_).treemap, pathof(top_.genome.taxon))) for tid_, top_ in h.get_dict_top_level_hogs().items()]
                ex.res.count('family_profiles_before_the_whole_dataset_profile')
            bad = orc.c09(D, h, ex.tmp) if prop == 'C09' else orc.c10(D, h)
            tp = h.create_tree_profile()
            tp_first_read = ob.profileS(tp.treemap)
            o.put('tpfull', tp_first_read)
            if prop == 'C09' and D.families:
                # the five event numbers of every node against the comparison with its parent worked out from the GENERATING
                # HISTORIES (harness/truth.py, independent of pyham and of the Lean model): a profile made of comparisons that are
                # wrong in a way that still balances is a failing input, not only a broken correspondence (r13-C09b)
                roots9_ = [r_ for _, r_ in orc.truth_roots(D)]
                ref9_ = set(orc.refs_of(D.groups))
                txof9_ = {gen.sub(D.T, p_)[0]: p_ for p_ in gen.paths(D.T) if not gen.sub(D.T, p_)[1]}
                singles9_ = [(g_, txof9_[sp_]) for sp_, gs_ in D.species for g_, _ in gs_ if g_ not in ref9_]
                for nd_ in tp.treemap.traverse():
                    if nd_.is_root():
                        continue
                    p_ = ob.pathof_rel(nd_)
                    f_ = dict(x_.split('=', 1) for x_ in tr.classify(roots9_, singles9_, p_[:-1], p_).split('|')[1:])
                    cnt_ = lambda t_: len([y_ for y_ in t_.split(';') if y_])
                    want_ = (cnt_(f_['G']), cnt_(f_['R']), sum(len(y_.split('>', 1)[1].split('+')) for y_ in f_['D'].split(';') if y_), cnt_(f_['L']), int(f_['n']))
                    got_ = (nd_.gain, nd_.retained, nd_.dupl, nd_.lost, nd_.duplication)
                    if got_ != want_:
                        bad.append('profile at %s reports gained / retained / duplicated / lost / duplication events %s, the generating histories give %s' % (taxS(p_), got_, want_))
                        break
            if D.families:
                # the same numbers against what the HISTORIES say about every branch (Lean: copiesInto / eventsInto, computed
                # from the histories alone; theorem C09_profile_numbers_are_the_history)
                for nd_ in tp.treemap.traverse():
                    if not nd_.is_root():
                        o.put('hdup', '%s=%s,%s' % (taxS(ob.pathof_rel(nd_)), nd_.dupl, nd_.duplication))
                        if nd_.is_leaf():
                            # species nodes: number of genes and gained genes against the species sections + histories
                            # (Lean: declaredAtL / unreferencedAtL; theorem C09_leaf_profile_from_dataset)
                            o.put('hleaf', '%s=%s,%s' % (taxS(ob.pathof_rel(nd_)), nd_.nbr_genes, nd_.gain))
            if prop == 'C09':
                if k % 5 == 0:
                    # the documented defaults (as_html=True): an outfile alone gives the HTML export of this very profile
                    h.create_tree_profile(outfile=ex.tmp + '/tpd.html')
                    tp.export_as_html(ex.tmp + '/tpd2.html')
                    if orc.html_tree_data(ex.tmp + '/tpd.html') != orc.html_tree_data(ex.tmp + '/tpd2.html'):
                        bad.append('create_tree_profile(outfile=...) with default arguments does not write the HTML export of the profile')
                tp.export_as_html(ex.tmp + '/tpj.html')
                data = orc.html_tree_data(ex.tmp + '/tpj.html')
                items = []
                def walkj(j, p):
                    ev = j['evolutionaryEvents']
                    items.append(taxS(p) + '=' + str(j['numberGenes']) + ',' + ('false' if ev is False else ','.join(ob.onS(ev[k]) for k in ('retained', 'duplicated', 'gained', 'lost', 'duplication'))))
                    for i, c in enumerate(j.get('children', [])):
                        walkj(c, p + (i,))
                walkj(data, ())
                o.put('tpjson', ' '.join(items))
            if prop == 'C10':
                # profiles of HOGs that are not top-level (sub-HOGs at or below duplications in particular): only the
                # HOG's own subtree counts
                subs_ = [x for t in h.get_list_top_level_hogs() for x in all_nodes(t) if isinstance(x, ag.HOG) and x.parent is not None]
                for x in ex.rng.sample(subs_, min(4, len(subs_))):
                    tpx = h.create_tree_profile(hog=x).treemap
                    o.put('tphogsub', nodekey(x) + '|' + ob.profileS(tpx, pathof(x.genome.taxon)))
                    subq.append('(tphog %s)' % gen.q(nodekey(x)))
                    mine = collections.Counter(gtax(y) for y in all_nodes(x))
                    for nd in tpx.traverse():
                        p_ = pathof(x.genome.taxon) + ob.pathof_rel(nd)
                        if nd.nbr_genes != mine.get(p_, 0):
                            bad.append('profile of the sub-HOG %s: nbr_genes at %s is %s, the HOG has %d members there' % (nodekey(x), taxS(p_), nd.nbr_genes, mine.get(p_, 0)))
                    ex.res.count('sub_hog_profiles')
            # (every third per-family profile is also written to disk through the public entry point: the object handed back is
            # still the whole profile -- r10-C10a prunes the returned tree while exporting it)
            held = [(tid, top, h.create_tree_profile(hog=top, **(dict(outfile=ex.tmp + '/tph.html', as_html=True) if (k + j_) % 3 == 0 else {})))
                    for j_, (tid, top) in enumerate(h.get_dict_top_level_hogs().items())]
            # the whole-dataset profile that was handed out before is an object of its own: building the per-family profiles
            # (those of families rooted at the tree root in particular) leaves its numbers as they were (r12-C09b: one memoised
            # copy of the species tree per root taxon, annotated by every profile rooted there)
            if ob.profileS(tp.treemap) != tp_first_read:
                bad.append('the whole-dataset profile returned earlier shows other numbers after the per-family profiles were built: %s -> %s' % (tp_first_read[:160], ob.profileS(tp.treemap)[:160]))
            for tid, top, tph in held:      # read only after all of them exist
                o.put('tphog', ob.osS(tid) + '|' + ob.profileS(tph.treemap, pathof(top.genome.taxon)))
                for tid0_, s0_ in early10:
                    if tid0_ == tid and s0_ != ob.profileS(tph.treemap, pathof(top.genome.taxon)):
                        bad.append('the profile of family %s computed before the whole-dataset profile differs from the one computed after it: %s vs %s' % (tid, s0_[:120], ob.profileS(tph.treemap, pathof(top.genome.taxon))[:120]))
                q_ = pathof(top.genome.taxon)
                nsub_ = sum(1 for p_ in gen.paths(D.T) if p_[:len(q_)] == q_)
                if prop == 'C10' and sum(1 for _ in tph.treemap.traverse()) != nsub_:
                    bad.append('the profile of family %s reports %d nodes, the species tree has %d nodes at or below its taxon' % (tid, sum(1 for _ in tph.treemap.traverse()), nsub_))
        except Exception as e:      # noqa
            bad = ['tree profile raised %s: %s' % (type(e).__name__, e)]
        if bad:
            ex.fail(cid, D, bad)
        if D.meta.get('large'):
            ex.res.count('large_datasets'); continue
        ex.submit(cid, D, o.tags, ['load', 'tpfull', 'tpjson', 'hdup', 'hleaf'] if prop == 'C09' else ['load', 'tpfull', 'tphog', 'tphogsub', 'hdup', 'hleaf'], emit=['profiles'], queries=subq)
    ex.finish()
    ex.close()
    return ex.res

def c09(tier, seed): return explore_profiles('C09', tier, seed, 400)
def c10(tier, seed): return explore_profiles('C10', tier, seed, 400)

# ------------------------------------------------------------------------------------ C11

def canon_int(x):
    return x.isascii() and x.isdigit() and str(int(x)) == x

def selected_families(D, hog_ids, int_ids, ext_ids):
    decl = core.declared_map(D)
    named = set(int_ids)
    for g, xr in decl.items():
        if g in ext_ids or any(v in ext_ids for _, v in xr):
            named.add(g)
    named &= set(decl)
    fams = []
    for p, l, tid in D.families:
        if tid in hog_ids or set(gen.genes_of(l)) & named:
            fams.append(tid)
    return fams, named

def c11(tier, seed):
    ex = Explorer('C11', tier, seed)
    n = budget(tier, 300)
    carried = None; next_carried = None
    for k in range(n):
        carried = next_carried
        D = respell(ex.rng, std_dataset(ex.rng, nfam=ex.rng.choice([2, 3, 4, 5, 6]), no_idless=True))   # filters address families by id
        cid = 'C11-%d' % k
        ex.note_dataset(D)
        full = load_or_fail(ex, cid, D)
        if full is None:
            continue
        fo = ob.Obs()
        try:
            ob.observe_load(full, fo)
        except Exception as e:      # noqa
            ex.fail(cid, D, ['observing the loaded analysis raised %s: %s' % (type(e).__name__, e)])
            continue
        full_forest = dict(x.split('=', 1) for x in fo.tags.get('forest', []))
        decl = core.declared_map(D)
        allg = list(decl)
        tids = [tid for _, _, tid in D.families]
        o = ob.Obs(); queries = []; bad = []; sax_tags = []
        nflt = 4 if tier == 'quick' else 8
        for fk in range(nflt + 1):
            kind = ex.rng.choice(['hog', 'int', 'ext', 'union', 'nothing', 'all', 'intid'])
            hog_ids = []; int_ids = []; ext_ids = []
            f = None
            if fk == nflt:
                # the ParserFilter OBJECT used for the previous dataset, applied unchanged to this (different) file
                if carried is None:
                    continue
                f, hog_ids, int_ids, ext_ids = carried
                kind = 'carried_over_from_previous_file'
            if kind in ('hog', 'union'):
                hog_ids = [t for t in tids if ex.rng.random() < 0.5]
            if kind in ('int', 'union'):
                int_ids = [g for g in allg if ex.rng.random() < 0.15]
            if kind in ('ext', 'union'):
                ext_ids = [v for g in allg for _, v in decl[g] if ex.rng.random() < 0.1]
            if kind == 'nothing':
                hog_ids = ['nope']; int_ids = ['zzz']; ext_ids = ['qqq']
            if kind == 'all':
                hog_ids = list(tids)
            ex.res.count('filter_' + kind)
            if f is None:
                f = pyham.ParserFilter()
                # integer-typed selectors where the id looks like an integer (the API accepts both); the selectors are added
                # in one call or one by one (several calls to the same method accumulate)
                as_int = lambda xs: [int(x) if canon_int(x) and ex.rng.random() < 0.5 else x for x in xs]
                for meth, ids_ in ((f.add_hogs_via_hogId, as_int(hog_ids)), (f.add_hogs_via_GeneIntId, as_int(int_ids)), (f.add_hogs_via_GeneExtId, list(ext_ids))):
                    if len(ids_) >= 2 and ex.rng.random() < 0.5:
                        for one_ in ids_:
                            meth([one_])
                        ex.res.count('selectors_added_one_by_one')
                    else:
                        # the ids are handed over as a list, or as some other iterable: tuple, set-free generator, iterator, dict
                        # keys (the documented type is "list", every one of these worked on the unchanged tree; r9-C11b peeks
                        # at the first element of a one-shot iterator)
                        shape_ = ex.rng.choice(['list', 'list', 'tuple', 'generator', 'iter', 'dictkeys'])
                        ex.res.count('selectors_as_' + shape_)
                        meth(ids_ if shape_ == 'list' else tuple(ids_) if shape_ == 'tuple' else (x_ for x_ in ids_) if shape_ == 'generator'
                             else iter(ids_) if shape_ == 'iter' else dict.fromkeys(ids_).keys())
                if kind in ('hog', 'int', 'ext', 'union'):
                    next_carried = (f, list(hog_ids), list(int_ids), list(ext_ids))
            want_fams, named = selected_families(D, set(hog_ids), set(int_ids), set(ext_ids))
            pfx = 'F%d.' % fk
            queries.append('(filter %d (hog %s) (ext %s) (int %s))' % (fk, ' '.join(map(gen.q, hog_ids)), ' '.join(map(gen.q, ext_ids)), ' '.join(map(gen.q, int_ids))))
            core.saxtrace.reset()
            try:
                transport = ex.rng.choice(['string', 'string', 'file', 'gz'])
                ex.res.count('filter_transport_' + transport)
                if transport == 'string':
                    if ex.rng.random() < 0.3:
                        # with progress reporting (the bars follow the groups that are BUILT: r13-C11b, a bar closed after as many
                        # groups as families were selected while sub-groups with ids still update it)
                        import contextlib as _cl11, io as _io11
                        ex.res.count('filtered_loads_with_progress_reporting')
                        with _cl11.redirect_stderr(_io11.StringIO()):
                            hf = core.load_py(D, filter_object=f, with_parser_progress=True)
                    else:
                        hf = core.load_py(D, filter_object=f)
                else:
                    # the first (indexing) pass and the second pass both read the file (plain or gzip)
                    path = os.path.join(ex.tmp, 'flt.orthoxml' + ('.gz' if transport == 'gz' else ''))
                    xml = gen.orthoxml(D.species, D.groups)
                    if transport == 'gz':
                        with gzip.open(path, 'wt') as fh:
                            fh.write(xml)
                    else:
                        with open(path, 'w') as fh:
                            fh.write(xml)
                    hf = pyham.Ham(tree_file=core.nwk_of(D), hog_file=path, use_internal_name=(D.naming == 'own'), filter_object=f)
            except Exception as e:      # noqa
                bad.append('filtered load raised %s: %s' % (type(e).__name__, e))
                o.put(pfx + 'load', 'err:' + ob.err_name(e))
                continue
            # the second pass in lock step with the stack machine (skip mode included): the calls the XML library made, the
            # selection the first pass handed over, the state of the parser object after every call
            sq_, st_ = core.sax_of_last_load(o.tags)
            queries += sq_; sax_tags = st_ or sax_tags
            ex.res.count('parser_calls_compared_in_lock_step', sum(len(x.split(' (')) for x in sq_))
            o.put(pfx + 'load', 'ok')
            try:
                ob.observe_load(hf, o, pfx)
            except Exception as e:      # noqa
                bad.append('observing the filtered analysis raised %s: %s' % (type(e).__name__, e))
                continue
            if fk == 0:
                # a filtered analysis is an analysis: comparisons partition its genomes, its whole-dataset profile balances
                try:
                    fp_, fgs_ = orc.lineage_pairs(hf)
                    bad += ['on the filtered analysis: ' + b for b in orc.c05(D, hf, fp_ if len(fp_) <= 6 else ex.rng.sample(fp_, 6))]
                    bad += ['on the filtered analysis: ' + b for b in orc.c09(D, hf, ex.tmp)]
                    ex.res.count('filtered_analyses_compared_and_profiled')
                except Exception as e:      # noqa
                    bad.append('comparison / profile on the filtered analysis raised %s: %s' % (type(e).__name__, e))
            # the property itself: projection of the full load
            if sorted(hf.get_dict_top_level_hogs()) != sorted(want_fams):
                bad.append('filter %s/%s/%s selected %s, expected %s' % (hog_ids, int_ids, ext_ids, sorted(hf.get_dict_top_level_hogs()), sorted(want_fams)))
            for tid, top in hf.get_dict_top_level_hogs().items():
                pr = []
                if tid in full_forest and ob.forestS(top, pr) != full_forest[tid]:
                    bad.append('family %s differs between filtered and full load' % tid)
            want_genes = set(named)
            for p, l, tid in D.families:
                if tid in want_fams:
                    want_genes |= set(gen.genes_of(l))
            if set(hf.get_dict_extant_genes()) != want_genes:
                bad.append('filtered load holds genes %s, expected %s' % (sorted(hf.get_dict_extant_genes())[:8], sorted(want_genes)[:8]))
            for tid in tids:
                if tid not in want_fams:
                    try:
                        hf.get_hog_by_id(tid); bad.append('unselected family %s can be looked up' % tid)
                    except KeyError:
                        pass
            for g in allg:
                if g not in want_genes:
                    try:
                        hf.get_gene_by_id(g); bad.append('gene %s of an unselected family can be looked up' % g)
                    except KeyError:
                        pass
            # ... nor through their cross-references: a value answers with exactly the SELECTED genes that carry it, KeyError if
            # none does -- also when it differs from a selected gene's value by letter case only (r11-C11b)
            xsel_ = collections.defaultdict(list)
            for g_ in want_genes:
                for _, v_ in decl.get(g_, []):
                    xsel_[v_].append(g_)
            for v_ in sorted(set(v2_ for g_ in allg for _, v2_ in decl[g_]))[:40]:
                try:
                    got_ = sorted(x_.unique_id for x_ in hf.get_genes_by_external_id(v_))
                except KeyError:
                    got_ = None
                want_ = sorted(set(xsel_.get(v_, []))) or None
                if (sorted(set(got_)) if got_ else None) != want_:
                    bad.append('filtered analysis: cross-reference %r answers %s, the selected genes carrying it are %s' % (v_, got_, want_))
            bad += ['filtered: ' + x for x in orc.wf_problems(hf)]
        if bad:
            ex.fail(cid, D, bad)
        tags = []
        for fk in range(8):
            tags += ['F%d.%s' % (fk, t) for t in ('load', 'genes', 'members', 'forest', 'genomes')]
        ex.submit(cid, D, o.tags, tags + sax_tags, queries=queries)
    ex.finish()
    ex.close()
    return ex.res

# ------------------------------------------------------------------------------------ C12

def unflag_top(s):
    return re.sub(r'^(H\[\S+ )[+-]( \{)', r'\1-\2', s)

def c12(tier, seed):
    ex = Explorer('C12', tier, seed)
    n = budget(tier, 120)
    from lxml import etree
    for k in range(n):
        if k % 6 == 5:
            D = gen.deep_chain_dataset(ex.rng)      # duplications whose copies are long single-child chains
            ex.res.count('deep_chain_cases')
        elif k % 6 == 3:
            D = gen.chain_above_dup_dataset(ex.rng)     # single-child levels above a HOG whose only content is one duplication
            ex.res.count('chain_above_duplication_cases')
        elif k % 6 == 4:
            D = std_dataset(ex.rng)                 # paralogGroups with a single member: exported and re-loaded like any other
            D.groups, nsm = gen.single_member_pgs(ex.rng, D.groups)
            if nsm:
                D.families = []; D.meta['single_member_pgs'] = nsm
                ex.res.count('cases_with_single_member_paralog_groups')
        else:
            D = respell(ex.rng, std_dataset(ex.rng))
        cid = 'C12-%d' % k
        ex.note_dataset(D)
        phylo12 = ex.rng.random() < 0.25          # species tree supplied as a PhyloXML file
        ex.res.count('tree_as_phyloxml_file' if phylo12 else 'tree_as_newick_string')
        h = load_or_fail(ex, cid, D, **(dict(phyloxml_dir=ex.tmp) if phylo12 else {}))
        if h is None:
            continue
        o = ob.Obs(); o.put('load', 'ok'); bad = []
        nwk = core.nwk_of(D)
        held12 = []
        if k % 4 == 1:
            # the lazy per-genome clusterings were filled before any page is built (r11-C12a: a getter that starts from a cached
            # list and extends it in place)
            for g_ in h.get_list_ancestral_genomes():
                g_.get_ancestral_clustering()
            ex.res.count('cases_with_clusterings_before_the_pages')
        for top in h.get_list_top_level_hogs():
            for nd in all_nodes(top):
                if not isinstance(nd, ag.HOG):
                    continue
                key = nodekey(nd)
                try:
                    xs = ob.OrthoXML_manager(nd).get_orthoxml_str()
                except Exception as e:      # noqa
                    bad.append('export of %s raised %s' % (key, type(e).__name__)); continue
                root = etree.fromstring(xs.encode())
                ns = '{http://orthoXML.org/2011/}'
                grp = root.find(ns + 'groups')
                o.put('ixml', key + '|' + ' '.join(sorted(ob.xml_struct(c) for c in grp)))
                decl = []
                declared = collections.Counter()
                for sp in root.findall(ns + 'species'):
                    gl = []
                    for g in sp.iter(ns + 'gene'):
                        gl.append(g.get('id') + '/' + 'protId=' + str(g.get('protId')))
                        declared[(g.get('id'), sp.get('name'))] += 1
                    decl.append(sp.get('name') + ':' + ','.join(sorted(gl)))
                o.put('idecl', key + '|' + ';'.join(sorted(decl)))
                members = collections.Counter((g.unique_id, g.genome.name) for g in nd.get_all_descendant_genes())
                if declared != members:
                    bad.append('export of %s declares %s, members are %s' % (key, sorted(declared), sorted(members)))
                refs = collections.Counter(x.get('id') for x in grp.iter(ns + 'geneRef'))
                if refs != collections.Counter(g for g, _ in members.elements()):
                    bad.append('export of %s references %s' % (key, sorted(refs.elements())))
                if len(nd.children) >= 2:
                    ex.res.count('roundtrips')
                    try:
                        h2 = pyham.Ham(tree_file=nwk, hog_file=xs, orthoXML_as_string=True, use_internal_name=(D.naming == 'own'))
                        tl = h2.get_list_top_level_hogs()
                        pr = []
                        got = sorted(ob.forestS(t, pr) for t in tl)
                        o.put('irt', key + '|' + ' '.join(got))
                        want = unflag_top(ob.forestS(nd, pr))
                        if len(tl) != 1 or got[0] != want:
                            bad.append('re-loading the export of %s gives %s, expected %s' % (key, got, want))
                    except Exception as e:      # noqa
                        o.put('irt', key + '|err:' + ob.err_name(e))
                        bad.append('re-loading the export of %s raised %s: %s' % (key, type(e).__name__, e))
                try:
                    # (file names are the caller's: braces, blanks, percent signs are characters like any other -- r13-C12b)
                    outn_ = ex.tmp + '/' + ex.rng.choice(['iham.html', 'iham.html', 'hog_{}.html', 'family{7}.html', 'set{a,b} 100%.html', 'open{.html'])
                    vis = h.create_iHam(nd, outfile=outn_)
                    html = vis.HTML
                    if open(outn_).read() != html:
                        bad.append('create_iHam(outfile=...) of %s wrote something else than the page it returns' % key)
                    sub_nwk = h.taxonomy.get_newick_from_tree(nd.genome.taxon)
                    if xs.split('<groups>')[-1] not in html and ob.OrthoXML_manager(nd).get_orthoxml_str().split('<groups')[-1] not in html:
                        bad.append('iHam page of %s does not embed the orthoXML' % key)
                    if sub_nwk not in html:
                        bad.append('iHam page of %s does not embed the species subtree' % key)
                    # ... and it is THE subtree of this analysis' species tree below the HOG's taxon (rendered here from
                    # the generating tree, not by pyham)
                    want_nwk = gen.newick_named(D.T, pathof(nd.genome.taxon), D.naming) + ';'
                    if vis.newick_str != want_nwk or want_nwk not in html:
                        bad.append('iHam page of %s embeds the tree %r, the species subtree is %r' % (key, vis.newick_str, want_nwk))
                    fd = json.loads(vis.famdata)
                    o.put('ifam', key + '|' + ';'.join(sorted('%s/%s/%s' % (r['id'], r['taxon']['species'], ob.osS(r['protid'])) for r in fd)))
                    if sorted(r['id'] for r in fd) != sorted(g.unique_id for g in nd.get_all_descendant_genes()):
                        bad.append('iHam page of %s: family data records differ from the members' % key)
                    if vis.famdata not in html:
                        bad.append('iHam page of %s does not embed the family data' % key)
                    held12.append((key, vis, members))
                except Exception as e:      # noqa
                    bad.append('create_iHam(%s) raised %s: %s' % (key, type(e).__name__, e))
                nd.hogvis = None
        # a page that was handed out does not change when other pages / exports (of sub-HOGs, of ancestors sharing its genes)
        # are built afterwards: read every held page again
        for key, vis, members in held12[:40]:
            try:
                xs2 = vis.orthoxml.get_orthoxml_str()
                root2 = etree.fromstring(xs2.encode())
                ns = '{http://orthoXML.org/2011/}'
                declared2 = collections.Counter((g.get('id'), sp.get('name')) for sp in root2.findall(ns + 'species') for g in sp.iter(ns + 'gene'))
                ex.res.count('pages_read_again_after_later_exports')
                if declared2 != members:
                    bad.append('the page of %s built earlier now declares %s, members are %s' % (key, sorted(declared2), sorted(members)))
                if xs2.split('<groups')[-1] not in vis.HTML:
                    bad.append('the page of %s built earlier no longer embeds its own orthoXML' % key)
            except Exception as e:      # noqa
                bad.append('re-reading the page of %s raised %s: %s' % (key, type(e).__name__, e))
        if bad:
            ex.fail(cid, D, bad)
        ex.submit(cid, D, o.tags, ['load', 'idecl', 'irt', 'ifam'], emit=['iham'], extra=o)
    def custom(cid, D, pytags, L, o):
        d = core.diff_tags(pytags, L, ['ixml'])
        if d:
            ex.res.count('warn_ixml_spelling_differs')
        # echo of the round-trip theorem's ingredients on every exported HOG: export = encode(spell), wfh,
        # recoverable, the stripped HOG realises the spelling
        if D.meta.get('single_member_pgs'):
            return []           # (outside the theorem's domain: a duplication with one copy is not a well-formed history)
        badsp = [x for x in L.get('ispell', []) if not x.endswith('|11111')]
        ex.res.count('compared_ispell', len(L.get('ispell', [])))
        return [('model-export-spelling', [], badsp[:3])] if badsp else []
    ex.finish(custom)
    ex.close()
    return ex.res

# ------------------------------------------------------------------------------------ C16

def deep_family_navigation(n):
    """caterpillar tree of n species, one family with a member in every species, written as n-1 nested groups; the
    navigation lists of the top-level HOG must hold every gene / HOG / level exactly once (iterative checks only)"""
    nwk = 'S0'
    for i in range(1, n):
        nwk = '(%s,S%d)N%d' % (nwk, i, i)
    nwk += ';'
    sp = ''.join('<species name="S%d" NCBITaxId="%d"><database name="d" version="1"><genes><gene id="%d" protId="P%d"/></genes></database></species>' % (i, i + 1, i + 1, i) for i in range(n))
    grp = '<orthologGroup id="c1"><geneRef id="1"/><geneRef id="2"/></orthologGroup>'
    for i in range(2, n):
        grp = '<orthologGroup id="c%d">%s<geneRef id="%d"/></orthologGroup>' % (i, grp, i + 1)
    xml = ('<?xml version="1.0" encoding="UTF-8"?><orthoXML xmlns="http://orthoXML.org/2011/" version="0.3" origin="verif" originVersion="1">'
           + sp + '<groups>' + grp + '</groups></orthoXML>')
    bad = []
    try:
        h = pyham.Ham(tree_file=nwk, hog_file=xml, orthoXML_as_string=True, use_internal_name=True)
        tops = h.get_list_top_level_hogs()
        if len(tops) != 1:
            return ['deep family: %d top-level HOGs' % len(tops)]
        top = tops[0]
        for rnd in (1, 2):
            dg = top.get_all_descendant_genes()
            if len(dg) != n or len(set(map(id, dg))) != n:
                bad.append('deep family (pass %d): descendant genes lists %d entries, %d distinct, the family has %d genes' % (rnd, len(dg), len(set(map(id, dg))), n))
            dh = top.get_all_descendant_hogs()
            if len(dh) != n - 1 or len(set(map(id, dh))) != n - 1:
                bad.append('deep family (pass %d): descendant HOGs lists %d entries, %d distinct, the family has %d HOGs' % (rnd, len(dh), len(set(map(id, dh))), n - 1))
            lv = top.get_all_descendant_hog_levels()
            if len(lv) != n - 1 or len(set(map(id, lv))) != n - 1:
                bad.append('deep family (pass %d): level list has %d entries, %d distinct' % (rnd, len(lv), len(set(map(id, lv)))))
            bysp = top.get_all_descendant_genes_clustered_by_species()
            if len(bysp) != n or any(len(v) != 1 for v in bysp.values()):
                bad.append('deep family (pass %d): per-species clustering has %d species, sizes %s' % (rnd, len(bysp), sorted(set(len(v) for v in bysp.values()))))
        g0 = h.get_gene_by_id(1)
        if g0.get_top_level_hog() is not top:
            bad.append('deep family: the deepest gene reports another top-level HOG')
        mid = dh[len(dh) // 2]
        got = g0.get_at_level(mid.genome)
        if len(got) != 1 or got[0] is not mid:
            bad.append('deep family: get_at_level of the deepest gene at a middle level returns %d objects' % len(got))
    except Exception as e:      # noqa
        bad.append('deep family raised %s: %s' % (type(e).__name__, str(e)[:200]))
    return bad

def c16(tier, seed):
    ex = Explorer('C16', tier, seed)
    n = budget(tier, 500)
    for k in range(n):
        if k % 8 == 7:
            # species-level groups (dissolved by the loader): navigation inside the family must be self-consistent there too
            D = gen.species_wrap(ex.rng, std_dataset(ex.rng)); ex.res.count('species_level_group_files')
        elif k == 0:
            D = large_dataset(ex.rng); ex.res.count('large_datasets')
        else:
            D = respell(ex.rng, std_dataset(ex.rng))
        cid = 'C16-%d' % k
        ex.note_dataset(D)
        if k == 1:
            # a family nested several hundred levels deep (one species joining per level of a caterpillar tree): the
            # visitor recurses once per level -- oracle only
            bd_ = deep_family_navigation(650)
            ex.res.count('deep_family_650_levels')
            if bd_:
                ex.fail(cid + '-deep', D, bd_, call='caterpillar of 650 species, one family nested 649 levels deep')
        h = load_or_fail(ex, cid, D)
        if h is None:
            continue
        o = ob.Obs(); o.put('load', 'ok')
        queries = []
        try:
            bad = orc.c16(D, h)
            ob.observe_nav(h, o)
            gs = genomes_of(h)
            members = [x for top in h.get_list_top_level_hogs() for x in all_nodes(top)]
            for _ in range(min(12, len(members))):
                m = ex.rng.choice(members)
                p, g = ex.rng.choice(sorted(gs.items()))
                b, txt = orc.c16_atlevel(h, m, g)
                bad += b
                o.put('atlevel', '%s@%s=%s' % (nodekey(m), taxS(p), txt))
                queries.append('(atlevel %s %s)' % (gen.q(nodekey(m)), tax_q(p)))
                ex.res.count('atlevel_' + ('err' if txt.startswith('err') else 'ok'))
            if k % 3 == 1 and D.naming == 'own' and not bad:
                # species_resolve_mode="OMA" (a <species> named after a clade is attached to the clade's only code-like leaf), then a
                # whole-dataset profile: the genomes the analysis lists are the genomes its genes live in, and asking a member for
                # such a genome answers as before (r11-C16a: a second, empty genome object bound to the leaf)
                import re as _re16
                for p16 in gen.paths(D.T):
                    t16 = gen.sub(D.T, p16)
                    codes16 = [i_ for i_, k_ in enumerate(t16[1]) if len(k_[0]) == 5 and _re16.match(r'[A-Z][A-Z0-9]{4}', k_[0])]
                    if not (t16[1] and len(codes16) == 1 and not t16[1][codes16[0]][1]):
                        continue
                    leaf16 = t16[1][codes16[0]][0]
                    idx16 = [i_ for i_, (n_, _) in enumerate(D.species) if n_ == leaf16]
                    if len(idx16) != 1:
                        continue
                    sp16 = list(D.species); sp16[idx16[0]] = (t16[0], sp16[idx16[0]][1])
                    try:
                        ho = core.load_py(D, species=sp16, species_resolve_mode='OMA')
                    except Exception:      # noqa
                        break
                    ho.create_tree_profile()
                    ex.res.count('oma_mode_navigation_after_profile')
                    listed16 = ho.get_list_extant_genomes()
                    for g16 in ho.get_list_extant_genes():
                        if not any(g16.genome is x_ for x_ in listed16) or ho.get_extant_genome_by_name(g16.genome.name) is not g16.genome:
                            bad.append('OMA mode, after a tree profile: gene %s lives in a genome object the analysis does not list / return by name' % g16.unique_id); break
                    for top16 in ho.get_list_top_level_hogs()[:3]:
                        for m16 in list(all_nodes(top16))[:6]:
                            for gen16 in listed16:
                                b16, _ = orc.c16_atlevel(ho, m16, gen16)
                                bad += ['OMA mode, after a tree profile: ' + x_ for x_ in b16]
                    break
            if k % 5 == 3 and not bad:
                # navigation asked for from INSIDE a walk (a visit() callback that itself navigates): same answers as outside
                for top_ in h.get_list_top_level_hogs()[:3]:
                    want_ = {id(x_): sorted(g_.unique_id for g_ in x_.get_all_descendant_genes()) for x_ in all_nodes(top_) if isinstance(x_, ag.HOG)}
                    seen_ = {}
                    def cb_(cur_, elem_):          # (function_prefix is called with the current HOG and the carried object)
                        seen_[id(cur_)] = sorted(g_.unique_id for g_ in cur_.get_all_descendant_genes())
                        cur_.get_top_level_hog(); cur_.get_all_descendant_hog_levels()
                        return elem_
                    try:
                        top_.visit([], function_prefix=cb_)
                        if any(want_.get(k_) != v_ for k_, v_ in seen_.items()):
                            bad.append('navigation from inside a visit() callback differs from the same navigation outside (family %s)' % nodekey(top_))
                        ex.res.count('nested_navigation_inside_visit')
                    except Exception as e:      # noqa
                        bad.append('navigation from inside a visit() callback raised %s: %s' % (type(e).__name__, e))
            if k % 4 == 2 and not bad:
                # "for every HOG": also one whose children were edited through the public API (remove_child / add_child) after it
                # had been navigated -- the views of every HOG of the family must again describe the same subtree.  Last use
                # of this analysis.
                hogs_ = [x for x in members if isinstance(x, ag.HOG)]
                cands_ = [(x1, g_) for x1 in hogs_ if len(x1.children) >= 2 for g_ in x1.children if isinstance(g_, ag.Gene) and not g_.arose_by_duplication]
                if cands_ and len(hogs_) >= 2:
                    x1, g_ = ex.rng.choice(cands_)
                    x2 = ex.rng.choice([x for x in hogs_ if x is not x1 and x.get_top_level_hog() is x1.get_top_level_hog()] or [None])
                    if x2 is not None:
                        x1.remove_child(g_); x2.add_child(g_)
                        ex.res.count('navigated_again_after_an_edit')
                        bad += ['after moving gene %s from %s to %s with remove_child / add_child: %s' % (g_.unique_id, nodekey(x1), nodekey(x2), b_)
                                for b_ in orc.c16_views(h)]
        except Exception as e:      # noqa
            bad = ['navigation raised %s: %s' % (type(e).__name__, e)]
        if bad:
            ex.fail(cid, D, bad)
        if D.meta.get('large'):
            continue
        ex.submit(cid, D, o.tags, ['load', 'nav', 'aclust', 'atlevel'], emit=['nav'], queries=queries, hist=not D.meta.get('species_level'))
    ex.finish()
    ex.close()
    return ex.res

# ------------------------------------------------------------------------------------ C19

def c19(tier, seed):
    ex = Explorer('C19', tier, seed)
    n = budget(tier, 600)
    for k in range(n):
        D = respell(ex.rng, std_dataset(ex.rng, P=dict(ann=0.5, subid=0.5, label=0.4, loft=0.4)))
        if ex.rng.random() < 0.5:
            D.groups = gen.add_og_attrs(ex.rng, D.groups)      # `og` attributes next to (or instead of) ids
            ex.res.count('cases_with_og_attributes')
        elif D.naming == 'synth' and not D.meta.get('nested') and all(gen.sub(D.T, p_)[0] for p_ in gen.paths(D.T)) and ex.rng.random() < 0.6:
            # TaxRange values written with the tree's own clade names while the analysis synthesises its names: the property
            # of a group is what the FILE says, whatever the level is called in the analysis
            D.groups = [g_ for p_, l_, _ in D.families for g_ in gen.encode(D.T, 'own', p_, l_)]
            D.meta['labels_own'] = True
            ex.res.count('cases_with_labels_in_other_names')
        cid = 'C19-%d' % k
        if k % 10 == 7 and not D.meta.get('nested') and not D.meta.get('labels_own'):
            D.groups, nw_ = gen.redundant_wrappers(ex.rng, D.groups)
            if nw_:
                D.meta['wrapped'] = nw_; ex.res.count('cases_with_redundant_wrapper_groups')
        ex.note_dataset(D)
        if k == 1:
            # gzip transport of a document with long runs of two-byte characters in attribute values (cross-reference ids): a
            # reader that decodes block by block splits a character at some block boundary (r10-C19a)
            try:
                import gzip as _gz
                spz_ = [(n_, [(g_, list(xr_)) for g_, xr_ in gs_]) for n_, gs_ in D.species]
                donez_ = 0
                for n_, gs_ in spz_:
                    for j_, (g_, xr_) in enumerate(gs_):
                        if donez_ < 2:
                            gs_[j_] = (g_, [(k_, v_) for k_, v_ in xr_ if k_ != 'protId'] + [('protId', ('x' * donez_) + 'é' * 40000)]); donez_ += 1
                xmlz_ = gen.orthoxml(spz_, D.groups, style=dict(D.meta.get('style') or {}, latin1=False, late_species=None))
                pz_ = os.path.join(ex.tmp, 'c19big.orthoxml.gz')
                with _gz.open(pz_, 'wb') as fz_:
                    fz_.write(xmlz_.encode('utf-8'))
                hz_ = pyham.Ham(tree_file=core.nwk_of(D), hog_file=pz_, use_internal_name=(D.naming == 'own'))
                wantz_ = {g_: dict(xr_) for _, gs_ in spz_ for g_, xr_ in gs_}
                badz_ = [g_.unique_id for g_ in hz_.get_list_extant_genes() if g_.prot_id != wantz_[g_.unique_id].get('protId')]
                ex.res.count('gzip_document_with_long_non_ascii_values')
                if badz_:
                    ex.fail(cid + '-gz', D, ['gzip transport: the protId of gene(s) %s is not the declared one (a two-byte character split at a block boundary?)' % badz_[:3]])
            except Exception as e:      # noqa
                ex.fail(cid + '-gz', D, ['gzip transport of a document with long non-ASCII values raised %s: %s' % (type(e).__name__, e)])
        h = load_or_fail(ex, cid, D)
        if h is None:
            continue
        o = ob.Obs(); o.put('load', 'ok')
        try:
            ob.observe_load(h, o); ob.observe_ann(h, o)
        except Exception as e:      # noqa
            ex.fail(cid, D, ['observing the loaded analysis raised %s: %s' % (type(e).__name__, e)])
            continue
        bad = []
        import re as _re19
        if k % 3 == 0 and any(_re19.fullmatch(r'[A-Z][A-Z0-9]{4}', gen.sub(D.T, p_)[0] or '') for p_ in gen.paths(D.T) if not gen.sub(D.T, p_)[1]):
            # species_resolve_mode="OMA" (species named by OMA codes): every species of this file names a leaf, so the mode
            # changes nothing -- every group keeps its HOG with its id, scores and properties (theorem
            # C20_oma_mode_conservative; r13-C19b: groups labelled with the clade above a code leaf dissolved in this mode)
            try:
                ho_ = core.load_py(D, species_resolve_mode='OMA')
                oo_ = ob.Obs(); ob.observe_load(ho_, oo_); ob.observe_ann(ho_, oo_)
                ex.res.count('oma_mode_loads')
                dd_ = core.diff_tags(o.tags, oo_.tags, ['forest', 'annall', 'loft', 'genes'])
                if dd_:
                    bad.append('loaded with species_resolve_mode="OMA" the annotated hierarchy differs: %s' % (dd_[0],))
            except Exception as e:      # noqa
                bad.append('load with species_resolve_mode="OMA" raised %s: %s' % (type(e).__name__, e))
        # the property, from the generating histories
        nf = orc.name_fn(D)
        tops = h.get_dict_top_level_hogs()
        decl = core.declared_map(D)
        for tid, root in orc.truth_roots(D):
            if tid not in tops:
                bad.append('family %s missing' % tid); continue
            byk = {nodekey(x): x for x in all_nodes(tops[tid])}
            for tn in tr.nodes(root):
                x = byk.get(tr.key(tn))
                if x is None:
                    bad.append('no object for %s' % tr.key(tn)); continue
                if tn.gene is not None:
                    if getattr(x, 'hog_id', None) != tn.loft:
                        bad.append('LOFT id of %s is %r, expected %r' % (tn.gene, getattr(x, 'hog_id', None), tn.loft))
                    continue
                sc = getattr(x, 'scores', {})
                if tn.written:
                    ex.res.count('written_groups')
                    if {k: float(v) for k, v in tn.scores.items()} != dict(sc):
                        bad.append('scores of %s: %s, written %s' % (tr.key(tn), dict(sc), tn.scores))
                    if tn.props != dict(x._properties):
                        bad.append('properties of %s: %s, written %s' % (tr.key(tn), dict(x._properties), tn.props))
                    for sid in ('Completeness', 'bootstrap', 'TreeCertainty'):
                        try:
                            v = x.score(sid)
                            if sid not in tn.scores or float(tn.scores[sid]) != v:
                                bad.append('score(%s) of %s returned %r' % (sid, tr.key(tn), v))
                        except KeyError:
                            if sid in tn.scores:
                                bad.append('score(%s) of %s raised KeyError although written' % (sid, tr.key(tn)))
                    for pn in ['Note', 'Color', 'Source', 'TaxRange'] + gen.ATTR_LIKE_NAMES:
                        try:
                            v = x[pn]
                            if tn.props.get(pn) != v:
                                bad.append('property %s of %s returned %r' % (pn, tr.key(tn), v))
                        except KeyError:
                            if pn in tn.props:
                                bad.append('property %s of %s raised KeyError although written' % (pn, tr.key(tn)))
                    if tn.hid is not None and x.hog_id != tn.hid:
                        bad.append('group id of %s is %r, written %r' % (tr.key(tn), x.hog_id, tn.hid))
                    if tn.scores and ex.rng.random() < 0.3:
                        # a (shallow) copy of the HOG object carries the same annotations
                        import copy as _copy
                        try:
                            x2 = _copy.copy(x)
                            for sid_, v_ in tn.scores.items():
                                if x2.score(sid_) != float(v_):
                                    bad.append('copy.copy of %s: score(%s) = %r' % (tr.key(tn), sid_, x2.score(sid_)))
                            if x2.hog_id != x.hog_id or dict(x2._properties) != dict(x._properties):
                                bad.append('copy.copy of %s loses id / properties' % tr.key(tn))
                        except KeyError:
                            bad.append('copy.copy of %s: a written score raises KeyError on the copy' % tr.key(tn))
                    if tn.hid is not None:
                        r = repr(x)
                        if 'id=%s' % tn.hid not in r or 'level=%s' % nf(tn.tx) not in r:
                            bad.append('display string %s lacks id/level of %s' % (r, tr.key(tn)))
                    else:
                        # a group written without an id: the display string falls back to the enclosing id
                        try:
                            r = repr(x)
                            if 'level=%s' % nf(tn.tx) not in r:
                                bad.append('display string %s lacks the level of %s' % (r, tr.key(tn)))
                            ex.res.count('display_strings_of_idless_groups')
                        except Exception as e:      # noqa
                            bad.append('display string of %s raised %s' % (tr.key(tn), type(e).__name__))
                else:
                    ex.res.count('synthesised_groups')
                    if dict(sc) or dict(x._properties):
                        bad.append('synthesised HOG %s carries annotations' % tr.key(tn))
                    # ... and answers KeyError to every property name (names that happen to be attributes of the object included)
                    for pn in ['Note', 'TaxRange'] + gen.ATTR_LIKE_NAMES:
                        try:
                            bad.append('synthesised HOG %s returns %r for the property %r' % (tr.key(tn), x[pn], pn))
                        except KeyError:
                            pass
                    try:
                        r = repr(x)
                        if 'level=%s' % nf(tn.tx) not in r:
                            bad.append('display string %s lacks the level of %s' % (r, tr.key(tn)))
                    except Exception as e:      # noqa
                        bad.append('display string of %s raised %s' % (tr.key(tn), type(e).__name__))
        if ex.rng.random() < 0.3:
            # rendering a family does not touch the genes' ids
            try:
                for t_ in h.get_list_top_level_hogs()[:2]:
                    h.create_iHam(t_)
                ex.res.count('genes_checked_after_iham')
            except Exception as e:      # noqa
                bad.append('create_iHam raised %s' % type(e).__name__)
        for g in h.get_list_extant_genes():
          try:
            xr = dict(decl.get(g.unique_id, []))
            if g.get_dict_xref() is None:
                bad.append('get_dict_xref of gene %s returns None' % g.unique_id); continue
            if (g.gene_id, g.prot_id, g.transcript_id) != (xr.get('geneId'), xr.get('protId'), xr.get('transcriptId')):
                bad.append('cross references of gene %s' % g.unique_id)
            gx = g.get_dict_xref()
            if gx != dict(xr, id=g.unique_id):
                bad.append('get_dict_xref of gene %s' % g.unique_id)
            # what the caller does with the returned dict does not change the gene
            try:
                gx.pop('id', None); gx['protId'] = 'overwritten-by-caller'
                if g.get_dict_xref() != dict(xr, id=g.unique_id) or g.prot_id != xr.get('protId'):
                    bad.append('gene %s: cross-references changed after the caller modified the dict returned by get_dict_xref()' % g.unique_id)
            except TypeError:
                pass
            # "each gene keeps all its cross-reference ids": every one of them still leads to the gene -- also when the value
            # happens to be the internal id of another gene
            for k_, v_ in xr.items():
                try:
                    if not any(x_ is g for x_ in h.get_genes_by_external_id(v_)):
                        bad.append('gene %s is not found under its cross-reference %s=%r' % (g.unique_id, k_, v_))
                except KeyError:
                    bad.append('gene %s: its cross-reference %s=%r raises KeyError' % (g.unique_id, k_, v_))
            try:
                if g.unique_id not in repr(g):
                    bad.append('display string of gene %s lacks its id' % g.unique_id)
            except Exception as e:      # noqa
                bad.append('display string of gene %s raised %s' % (g.unique_id, type(e).__name__))
          except Exception as e:      # noqa
            bad.append('reading the ids of gene %s raised %s: %s' % (g.unique_id, type(e).__name__, e)); break
        if bad:
            ex.fail(cid, D, bad)
        ex.submit(cid, D, o.tags, ['load', 'genes', 'loft'], emit=['ann'], extra=o, hist=not (D.meta.get('labels_own') or D.meta.get('wrapped')))
    def custom(cid, D, pytags, L, o):
        out = []
        py = {x.split('|', 1)[0]: x for x in pytags.get('annall', [])}
        for line in L.get('ann', []):
            k = line.split('|', 1)[0]
            if py.get(k) != line:
                out.append(('ann', [py.get(k)], [line]))
        for k in L.get('syn', []):
            x = py.get(k)
            if x is None or not x.endswith('||'):
                out.append(('syn-ann', [x], [k + ' (no annotations expected)']))
        return out
    ex.finish(custom)
    ex.close()
    return ex.res

# ------------------------------------------------------------------------------------ C20

def fault_variants(rng, D, limit):
    """single-fault corruptions of a consistent dataset: (kind, species, groups)"""
    out = []
    leaves_decl = [i for i, (sp, _) in enumerate(D.species)]
    internal = [gen.display_name(D.T, p, D.naming) for p in gen.paths(D.T) if gen.sub(D.T, p)[1]]
    for i in leaves_decl:
        sp = list(D.species); sp[i] = ('NoSuchSpecies', sp[i][1]); out.append(('unknown-species', sp, D.groups))
        if internal:
            sp = list(D.species); sp[i] = (rng.choice(internal), sp[i][1]); out.append(('internal-as-species', sp, D.groups))
    # positions inside the groups
    def positions(es, path=()):
        for i, e in enumerate(es):
            yield path + (i,), e
            if e[0] == 'og':
                yield from positions(e[3], path + (i, 3))
            elif e[0] == 'pg':
                yield from positions(e[2], path + (i, 2))
    def replace(es, path, new):
        es = list(es)
        i = path[0]
        if len(path) == 1:
            if new is None:
                del es[i]
            else:
                es[i] = new
            return es
        e = list(es[i]); e[path[1]] = replace(e[path[1]], path[2:], new); es[i] = tuple(e)
        return es
    def insert(es, path, new):
        es = list(es)
        if len(path) == 1:
            es.insert(path[0], new); return es
        i = path[0]
        e = list(es[i]); e[path[1]] = insert(e[path[1]], path[2:], new); es[i] = tuple(e)
        return es
    for path, e in positions(D.groups):
        if e[0] == 'ref':
            out.append(('undeclared-geneRef', D.species, replace(D.groups, path, ('ref', 'no-such-gene', None))))
        if e[0] in ('og', 'pg'):
            inner = path + ((3,) if e[0] == 'og' else (2,)) + (rng.randint(0, len(e[3] if e[0] == 'og' else e[2])),)
            out.append(('empty-orthologGroup', D.species, insert(D.groups, inner, ('og', None, None, []))))
            out.append(('empty-paralogGroup', D.species, insert(D.groups, inner, ('pg', None, []))))
            if internal:
                # an empty group that still carries its annotations (TaxRange naming an existing clade, a score)
                out.append(('empty-annotated-orthologGroup', D.species, insert(D.groups, inner,
                            ('og', None, None, [('prop', 'TaxRange', rng.choice(internal)), ('score', 'bootstrap', '1.0')]))))
    out.append(('empty-orthologGroup', D.species, list(D.groups) + [('og', 'E1', None, [])]))
    # a TOP-LEVEL group labelled with the species all its members belong to: there is no enclosing group to dissolve it into
    if D.species:
        i = rng.randrange(len(D.species))
        sp = list(D.species); sp[i] = (sp[i][0], list(sp[i][1]) + [('zz1', [('protId', 'Pzz1')]), ('zz2', [('protId', 'Pzz2')])])
        out.append(('top-level-species-level-group', sp, list(D.groups) + [('og', 'SPL', None, [('prop', 'TaxRange', sp[i][0]), ('ref', 'zz1', None), ('ref', 'zz2', None)])]))
    if len(out) > limit:
        out = rng.sample(out, limit)
    return out

def c20(tier, seed):
    ex = Explorer('C20', tier, seed)
    n = budget(tier, 60)
    for k in range(n):
        D = std_dataset(ex.rng, maxleaves=ex.rng.choice([3, 4, 5, 6, 8]))
        ex.note_dataset(D)
        # no silent drop on the successful load
        h = load_or_fail(ex, 'C20-%d' % k, D)
        if h is not None:
            bad = orc.c01(D, h)
            if bad:
                ex.fail('C20-%d' % k, D, ['successful load dropped something: ' + b for b in bad])
        # ... nor on a load from a gzip file made of several members (cat a.gz b.gz, bgzip): everything after the first member is
        # part of the document (r13-C20a: a block-wise inflater that stops at the end of the first member)
        def multi_gz_(xml_, name_):
            import gzip as _gz
            raw_ = xml_.encode(); c1_, c2_ = len(raw_) // 3, 2 * len(raw_) // 3
            path_ = os.path.join(ex.tmp, name_)
            with open(path_, 'wb') as f_:
                f_.write(_gz.compress(raw_[:c1_]) + _gz.compress(raw_[c1_:c2_]) + _gz.compress(raw_[c2_:]))
            return path_
        if k % 3 == 1:
            try:
                hz_ = pyham.Ham(tree_file=core.nwk_of(D), hog_file=multi_gz_(gen.orthoxml(D.species, D.groups), 'c20m.orthoxml.gz'), use_internal_name=(D.naming == 'own'))
                ex.res.count('loads_from_a_multi_member_gzip_file')
                bad = orc.c01(D, hz_)
                if bad:
                    ex.fail('C20-%d-gz' % k, D, ['load from a gzip file of three members dropped something: ' + b for b in bad])
            except Exception as e:      # noqa
                ex.fail('C20-%d-gz' % k, D, ['load from a gzip file of three members raised %s: %s' % (type(e).__name__, e)])
        # ... also when species-level groups are dissolved into their parents
        Dw = gen.species_wrap(ex.rng, std_dataset(ex.rng, maxleaves=ex.rng.choice([3, 4, 5, 6])))
        hw, e_ = core.try_load(Dw)
        ex.res.count('species_level_group_files')
        if hw is not None:
            bad = orc.c01(Dw, hw)
            if bad:
                ex.fail('C20-%d-w' % k, Dw, ['successful load dropped something: ' + b for b in bad])
        # ... and when one gene is referenced by two groups (two families, or a sub-group and a later group): if such a
        # file loads, every group still holds every member it references
        tops_ = [g for g in D.groups if g[0] == 'og']
        refs_all = orc.refs_of(D.groups)
        if len(tops_) >= 2 and refs_all:
            gdup = ex.rng.choice(refs_all)
            tgt = ex.rng.choice([i for i, g in enumerate(D.groups) if g[0] == 'og' and gdup not in orc.refs_of([g])] or [None])
            if tgt is not None:
                gr2 = list(D.groups); e_ = gr2[tgt]
                gr2[tgt] = ('og', e_[1], e_[2], list(e_[3]) + [('ref', gdup, None)])
                ex.res.count('double_reference_files')
                o2 = ob.Obs()
                try:
                    h2 = core.load_py(D, groups=gr2)
                    o2.put('load', 'ok')
                    for hid_, top_ in h2.get_dict_top_level_hogs().items():
                        o2.put('members', ob.osS(hid_) + '=' + ','.join(sorted(leaves(top_))))
                        want_ = sorted(orc.refs_of([g for g in gr2 if g[0] == 'og' and g[1] == hid_]))
                        if sorted(leaves(top_)) != want_:
                            ex.fail('C20-%d-dr' % k, D, ['a gene referenced by two groups: family %s holds %s, its group references %s' % (hid_, sorted(leaves(top_)), want_)], groups=gr2)
                except Exception as e:      # noqa
                    o2.put('load', 'err')
                ex.submit('C20-%d-dr' % k, D, o2.tags, ['members'] if o2.tags.get('load') == ['ok'] else [], groups=gr2, hist=False, extra=None)
        for j, (kind, sp, gr) in enumerate(fault_variants(ex.rng, D, 25 if tier == 'quick' else 80)):
            cid = 'C20-%d-%d' % (k, j)
            ex.res.count('fault_' + kind)
            o = ob.Obs()
            ret = None
            late_kw = {}
            if kind in ('unknown-species', 'internal-as-species') and ex.rng.random() < 0.5:
                # the faulty <species> element written after the <groups> section (its genes are then unreferenced ones)
                bad_i = [i_ for i_, (a_, b_) in enumerate(zip(sp, D.species)) if a_[0] != b_[0]]
                refd_ = set(orc.refs_of(gr))
                if bad_i and not any(g_ in refd_ for g_, _ in sp[bad_i[0]][1]):
                    sp = [x for i_, x in enumerate(sp) if i_ != bad_i[0]] + [sp[bad_i[0]]]
                    D_style = dict(D.meta.get('style') or {}, late_species=[len(sp) - 1])
                    late_kw = dict(style=D_style); ex.res.count('faulty_species_after_groups')
            try:
                if late_kw:
                    ret = pyham.Ham(tree_file=core.nwk_of(D), hog_file=gen.orthoxml(sp, gr, **late_kw), orthoXML_as_string=True, use_internal_name=(D.naming == 'own'))
                else:
                    ret = core.load_py(D, groups=gr, species=sp)
                o.put('rejected', 'no')
                ex.fail(cid, D, ['%s accepted: an analysis object was returned' % kind], groups=gr, species=sp)
            except Exception as e:      # noqa
                o.put('rejected', 'yes')
                ex.res.count('pyham_' + kind + '_' + ob.err_name(e))
            # the calls up to the one that raised, in lock step with the stack machine: the same call raises, with the same
            # exception class, after the same sequence of parser states ("wherever in the file the fault occurs")
            sq20, st20 = ([], []) if late_kw else core.sax_of_last_load(o.tags)
            ex.res.count('parser_calls_compared_in_lock_step', sum(len(x.split(' (')) for x in sq20))
            if not late_kw and j % 5 == 2:
                # the same faulty file as a gzip file of several members: rejected wherever the fault lies
                try:
                    pyham.Ham(tree_file=core.nwk_of(D), hog_file=multi_gz_(gen.orthoxml(sp, gr), 'c20f.orthoxml.gz'), use_internal_name=(D.naming == 'own'))
                    ex.fail(cid + '-gz', D, ['%s accepted when the file is a gzip file of three members' % kind], groups=gr, species=sp)
                except Exception:      # noqa
                    pass
                ex.res.count('faults_in_a_multi_member_gzip_file')
            q20 = []
            tids20 = [g[1] for g in gr if g[0] == 'og' and g[1] is not None]
            if kind not in ('unknown-species', 'internal-as-species') and tids20 and len(tids20) == len([g for g in gr if g[0] == 'og']) and j % 3 == 0:
                # the same faulty file loaded through a filter that selects every family: still rejected, nothing skipped
                f20 = pyham.ParserFilter(); f20.add_hogs_via_hogId(tids20)
                try:
                    core.load_py(D, groups=gr, species=sp, filter_object=f20)
                    o.put('frejected', 'no')
                    ex.fail(cid + '-f', D, ['%s accepted by a filtered load that selects the faulty family' % kind], groups=gr, species=sp)
                except Exception:      # noqa
                    o.put('frejected', 'yes')
                ex.res.count('faults_also_loaded_through_a_filter')
                q20 = ['(filter 0 (hog %s) (ext) (int))' % ' '.join(map(gen.q, tids20))]
            if not late_kw and j % 4 == 1:
                # ... the same faulty file with progress reporting switched on (the bars are opened and closed around the very
                # elements that raise: r9-C20b), and -- header faults -- through filters that select no family at all (a query
                # matching nothing; a query naming only a singleton gene): the species section is validated all the same (r9-C20a)
                import contextlib as _cl, io as _io
                routes_ = [('with progress reporting', dict(with_parser_progress=True))]
                if kind in ('unknown-species', 'internal-as-species'):
                    fe_ = pyham.ParserFilter(); fe_.add_hogs_via_hogId(['no-such-family'])
                    routes_.append(('through a filter that selects nothing', dict(filter_object=fe_)))
                    refd_ = set(orc.refs_of(gr))
                    single_ = [g_ for _, gs_ in sp for g_, _ in gs_ if g_ not in refd_]
                    if single_:
                        fs_ = pyham.ParserFilter(); fs_.add_hogs_via_GeneIntId([ex.rng.choice(single_)])
                        routes_.append(('through a filter naming one singleton gene', dict(filter_object=fs_)))
                for what_, kw_ in routes_:
                    ex.res.count('faults_' + what_.replace(' ', '_'))
                    try:
                        with _cl.redirect_stderr(_io.StringIO()):
                            core.load_py(D, groups=gr, species=sp, **kw_)
                        ex.fail(cid + '-r', D, ['%s accepted %s: an analysis object was returned' % (kind, what_)], groups=gr, species=sp)
                    except Exception:      # noqa
                        pass
            ex.submit(cid, D, o.tags, list(st20), groups=gr, species=sp, hist=False, extra=(kind, o), queries=q20 + sq20)
    # ---- the same in species_resolve_mode="OMA" (a clade named as species resolves to its only child that looks like
    # an OMA species code; everything else as in the default mode)
    import re as _re
    def is_code(s):
        return len(s) == 5 and _re.match(r'[A-Z][A-Z0-9]{4}', s) is not None
    def oma_resolves(D, name):
        """None = rejected, else the leaf name the species ends up at (independent of pyham and of the model)"""
        hits = [p for p in gen.paths(D.T) if gen.display_name(D.T, p, D.naming) == name]
        if len(hits) != 1:
            return None
        t = gen.sub(D.T, hits[0])
        if not t[1]:
            return name
        cand = [i for i, k in enumerate(t[1]) if is_code(gen.display_name(D.T, hits[0] + (i,), D.naming))]
        if len(cand) == 1 and not t[1][cand[0]][1]:
            return gen.display_name(D.T, hits[0] + (cand[0],), D.naming)
        return None
    for k in range(budget(tier, 40)):
        D = std_dataset(ex.rng, maxleaves=ex.rng.choice([3, 4, 5, 6, 8]))
        if D.naming != 'own':
            continue
        ex.note_dataset(D)
        internal = [gen.display_name(D.T, p, D.naming) for p in gen.paths(D.T) if gen.sub(D.T, p)[1]]
        variants = [('oma-unchanged', D.species)]
        for i in range(len(D.species)):
            for nm_ in ex.rng.sample(internal, min(3, len(internal))):
                sp = list(D.species); sp[i] = (nm_, sp[i][1]); variants.append(('oma-internal-as-species', sp))
            sp = list(D.species); sp[i] = ('NOSUC', sp[i][1]); variants.append(('oma-unknown-species', sp))
            # the same leaf declared twice: once by its code, once (later or earlier) by the name of a clade that resolves to it
            for nm_ in internal:
                if oma_resolves(D, nm_) == D.species[i][0]:
                    extra_ = (nm_, [('ox%d' % i, [('protId', 'Pox%d' % i)]), ('oy%d' % i, [])])
                    sp = list(D.species)
                    sp.insert(i + 1 if ex.rng.random() < 0.5 else i, extra_)
                    variants.append(('oma-one-leaf-declared-twice', sp)); break
        ex.rng.shuffle(variants)
        for j, (kind, sp) in enumerate(variants[:14 if tier == 'quick' else 40]):
            cid = 'C20-oma-%d-%d' % (k, j)
            ex.res.count('fault_' + kind)
            o = ob.Obs()
            want_ok = all(oma_resolves(D, n_) is not None for n_, _ in sp)
            # two species resolving to the same leaf share one genome; the model follows the code there
            try:
                h = core.load_py(D, species=sp, species_resolve_mode='OMA')
                o.put('oma.load', 'ok')
                ob.observe_load(h, o, 'oma.')
                if not want_ok:
                    ex.fail(cid, D, ['%s accepted in OMA mode although a species name resolves to no leaf' % kind], species=sp)
                else:
                    ex.res.count('oma_resolved_to_code_child', sum(1 for n_, _ in sp if oma_resolves(D, n_) != n_))
                    got = sorted((g.unique_id, g.genome.name) for g in h.get_list_extant_genes())
                    want = sorted((g, oma_resolves(D, n_)) for n_, genes in sp for g, _ in genes)
                    if got != want:
                        ex.fail(cid, D, ['OMA mode: genes attached to %s, expected %s' % (got[:6], want[:6])], species=sp)
                    # each leaf has ONE genome, and it lists exactly the genes declared for it (in whatever elements)
                    for g_ in h.get_list_extant_genomes():
                        mine_ = sorted(x for x, n2 in want if n2 == g_.name)
                        if sorted(x.unique_id for x in g_.genes) != mine_ or g_.taxon.genome is not g_:
                            ex.fail(cid, D, ['OMA mode: genome %r lists %s, declared for that leaf: %s' % (g_.name, sorted(x.unique_id for x in g_.genes), mine_)], species=sp)
                    if any(x.genome.taxon.genome is not x.genome for x in h.get_list_extant_genes()):
                        ex.fail(cid, D, ['OMA mode: a gene belongs to a genome that is not the genome of its leaf'], species=sp)
            except Exception as e:      # noqa
                o.put('oma.load', 'err:' + ob.err_name(e))
                if want_ok and kind != 'oma-unchanged':
                    pass        # may legitimately fail later (e.g. a gene now lives at another leaf than its group says)
                if want_ok and kind == 'oma-unchanged':
                    ex.fail(cid, D, ['consistent file rejected in OMA mode: %s: %s' % (type(e).__name__, e)], species=sp)
            ex.submit(cid, D, o.tags, ['oma.load', 'oma.genes', 'oma.members', 'oma.forest'], species=sp, hist=False, queries=['(oma)'], extra=None)
    def custom(cid, D, pytags, L, extra):
        out = []
        if extra is None:
            return out
        kind, o = extra
        lean_rej = 'yes' if L.get('load', ['ok'])[0].startswith('err:') else 'no'
        if pytags.get('rejected') != [lean_rej]:
            out.append(('rejected', pytags.get('rejected'), [lean_rej + ' ' + str(L.get('load'))]))
        if pytags.get('frejected'):
            lean_f = 'yes' if L.get('F0.load', ['ok'])[0].startswith('err:') else 'no'
            if pytags['frejected'] != [lean_f]:
                out.append(('rejected-under-a-filter', pytags.get('frejected'), [lean_f + ' ' + str(L.get('F0.load'))]))
        return out
    ex.finish(custom)
    ex.close()
    return ex.res
