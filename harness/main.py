"""./check <PROP> [--tier quick|thorough] [--replay FILE]

exit 0: the property held on everything explored (proof obligations discharged + correspondence)
exit 1: VIOLATION property=<id> replay=<path>   (a listed known finding prints KNOWN-FINDING and does not fail)
exit 2: infrastructure problem (never a violation)
"""
import sys, os, json, time, argparse, traceback

HERE = os.path.dirname(os.path.abspath(__file__))
VERIF = os.path.dirname(HERE)
sys.path.insert(0, HERE)

ALLOWED_AXIOMS = {'propext', 'Classical.choice', 'Quot.sound'}

def _shrink(prop, f):
    """minimise a failing dataset: drop families / singleton genes while the property's oracle still fails"""
    import core, gen, oracles as orc
    table = {'C01': orc.c01, 'C02': orc.c02, 'C03': orc.c03, 'C04': orc.c04, 'C05': orc.c05, 'C06': orc.c06,
             'C07': orc.c07, 'C08': orc.c08, 'C10': orc.c10, 'C16': orc.c16}
    D = f.get('_D')
    if D is None or prop not in table or not D.families or D.meta.get('nested'):
        return f
    oracle = table[prop]
    def still_fails(E):
        try:
            h = core.load_py(E)
        except Exception:      # noqa
            return None
        try:
            return oracle(E, h)
        except Exception:      # noqa
            return None
    import copy as _copy
    cur = D; cur_bad = f['clauses']
    changed = True
    while changed and len(cur.families) > 1:
        changed = False
        for i in range(len(cur.families)):
            E = gen.Dataset(cur.T, cur.naming)
            E.families = cur.families[:i] + cur.families[i + 1:]
            E.species = cur.species
            E.groups = [g for p, l, _ in E.families for g in gen.encode(cur.T, cur.naming, p, l)]
            E.meta = dict(cur.meta)
            bad = still_fails(E)
            if bad:
                cur, cur_bad, changed = E, bad, True
                break
    if cur is not D:
        f = dict(f, input=core.dataset_payload(cur), clauses=cur_bad[:5], shrunk='families dropped: %d -> %d' % (len(D.families), len(cur.families)))
    return f

def _run_shard(prop, tier, seed, k=0, shards=1):
    os.environ['VERIF_SHARD'] = '%d/%d' % (k, shards)
    import props, props2
    for mod in (props, props2):
        f = getattr(mod, 'c' + prop[1:], None)
        if f is not None:
            return f(tier, seed)
    raise RuntimeError('no such property ' + prop)

def main():
    ap = argparse.ArgumentParser()
    ap.add_argument('prop')
    ap.add_argument('--tier', default=os.environ.get('VERIF_TIER', 'quick'))
    ap.add_argument('--replay', default=None)
    ap.add_argument('--no-build', action='store_true')
    a = ap.parse_args()
    if a.tier not in ('quick', 'thorough'):
        a.tier = 'quick'
    seed = int(os.environ.get('VERIF_SEED', '0') or 0)
    t0 = time.time()
    # a run that does not finish is an infrastructure problem (exit 2), never a verdict
    import signal
    def _timeout(signum, frame):
        print('INFRA: timeout after %s s' % os.environ.get('VERIF_TIMEOUT', ''))
        os._exit(2)
    signal.signal(signal.SIGALRM, _timeout)
    limit = int(os.environ.get('VERIF_TIMEOUT', '900' if a.tier == 'quick' else '5400'))
    os.environ['VERIF_TIMEOUT'] = str(limit)
    signal.alarm(limit)
    os.makedirs(os.path.join(VERIF, '.work'), exist_ok=True)
    os.environ.setdefault('VERIF_WORK', os.path.join(VERIF, '.work'))
    try:
        import core
        import props, props2
        table = {}
        for mod in (props, props2):
            for k in dir(mod):
                if len(k) == 3 and k[0] == 'c' and k[1:].isdigit():
                    table['C' + k[1:]] = getattr(mod, k)
        prop = a.prop.upper()
        if prop not in table:
            print('unknown property', prop); return 2
        thm = json.load(open(os.path.join(VERIF, 'theorems.json')))
        spec = thm.get(prop, {'theorems': []})

        if a.replay:
            import replay
            return replay.run(prop, a.replay)

        # ---- 1. proof obligations: build, forbidden constructs, axiom audit
        proof_problems = []
        build_ok, build_log, build_s = (True, '', 0.0) if a.no_build else core.lean_build()
        if not build_ok:
            proof_problems.append('lake build failed: ' + build_log[-800:])
        hits = core.lean_grep()
        if hits:
            proof_problems.append('forbidden constructs in Lean sources: %s' % hits[:5])
        audit, arc, alog = core.lean_audit() if build_ok else ({}, 1, '')
        obligations = [t['name'] for t in spec['theorems']]
        discharged = []
        for t in obligations:
            if t in audit and set(audit[t]) <= ALLOWED_AXIOMS:
                discharged.append(t)
            else:
                proof_problems.append('theorem %s not discharged (%s)' % (t, audit.get(t, 'missing from audit')))

        if a.tier == 'thorough' and build_ok:
            # independent re-check of the compiled proofs of the property theorems' module
            import subprocess
            pc = subprocess.run(['lake', 'env', 'leanchecker', 'PyhamModel.Props'], cwd=core.LEAN_DIR, stdout=subprocess.PIPE, stderr=subprocess.STDOUT, text=True)
            if pc.returncode != 0:
                proof_problems.append('leanchecker rejected PyhamModel.Props: ' + pc.stdout[-400:])

        # ---- 2. correspondence + oracles
        if a.tier == 'thorough':
            # 8 independent shards (derived seeds) on separate processes, results merged
            import multiprocessing as mp
            shards = int(os.environ.get('VERIF_SHARDS', '8'))
            with mp.get_context('fork').Pool(shards) as pool:
                parts = pool.starmap(_run_shard, [(prop, a.tier, (seed * 1009 + k * 7919) if k else seed, k, shards) for k in range(shards)])
            res = parts[0]
            for r in parts[1:]:
                res.evaluations += r.evaluations
                res.nontrivial |= r.nontrivial
                res.mismatches += r.mismatches
                res.oracle_failures += r.oracle_failures
                res.infra += r.infra
                res.traces_validated += r.traces_validated
                res.notes += r.notes
                for k2, v in r.hist.items():
                    res.hist[k2] = res.hist.get(k2, 0) + v
            res.notes.append('thorough tier: %d shards with derived seeds' % shards)
        else:
            res = table[prop](a.tier, seed)

        # ---- 3. verdict
        known = [k for k in core.load_known_findings() if k.get('property') == prop and k.get('status') == 'open']
        violations = 0
        exit_code = 0
        lines = []
        if res.infra and not res.oracle_failures and not res.mismatches:
            for x in res.infra[:5]:
                print('INFRA:', x)
            exit_code = 2
        def is_known(f):
            txt = json.dumps(f, default=str)
            for k in known:
                if k.get('signature') and k['signature'] in txt:
                    return k
            return None
        reported_known = set()
        new_fail = []
        for f in res.oracle_failures:
            k = is_known(f)
            if k:
                if k['signature'] not in reported_known:
                    reported_known.add(k['signature'])
                    lines.append('KNOWN-FINDING: property=%s %s' % (prop, k.get('what', k['signature'])))
            else:
                new_fail.append(f)
        if new_fail:
            # report the smallest failing input found, then try to shrink it further
            new_fail.sort(key=lambda x: len(x['input'].get('orthoxml', '')) + len(x['input'].get('newick', '')))
            f = new_fail[0]
            f = _shrink(prop, f)
            path = core.write_replay(prop, seed, f['case'], dict(kind='property-fails-on-implementation', clauses=f['clauses'], shrunk=f.get('shrunk'),
                                                                  call=f.get('call'), input=f['input'], n_failing_cases=len(new_fail)))
            lines.append('VIOLATION property=%s replay=%s' % (prop, path))
            violations = len(new_fail); exit_code = 1
        elif res.mismatches or proof_problems:
            what = []
            if proof_problems:
                what += proof_problems
            m = res.mismatches[0] if res.mismatches else None
            if m:
                what.append('correspondence %s/%s no longer checks: pyham and the Lean model differ on tag %s' % (prop, m['tag'], m['tag']))
            path = core.write_replay(prop, seed, m['case'] if m else 'proof', dict(
                kind='no-failing-input-found', broken=what, mismatch=m, n_mismatching_cases=len(res.mismatches),
                note='the property is no longer shown to hold; the oracle found no input on which the implementation violates it'))
            lines.append('VIOLATION property=%s replay=%s no-failing-input-found' % (prop, path))
            violations = max(1, len(res.mismatches)); exit_code = 1
        for ln in lines:
            print(ln)

        # ---- 4. evidence
        man = {c['property_id']: c for c in json.load(open(os.path.join(VERIF, 'MANIFEST.json')))['checks']}
        level = man.get(prop, {}).get('level_claimed', {}).get('category', 'proof')
        cov = dict(
            obligations=max(1, len(obligations)) if obligations else 0,
            discharged=len(discharged),
            theorems=[dict(name=t['name'], says=t.get('says', ''), axioms=audit.get(t['name'])) for t in spec['theorems']],
            not_proved=spec.get('not_proved', ''),
            checker_cmd='cd lean && lake build && lake env lean PyhamModel/Audit.lean  (Lean 4.33.0 kernel; #print axioms parsed)',
            trusted_base=['Lean 4.33.0 kernel', 'axioms: propext, Classical.choice, Quot.sound only',
                          'hand-written model lean/PyhamModel/Model/*.lean tied to /repo by the correspondence run below',
                          'harness (generator, XML/Newick rendering, abstraction step, canonicaliser)',
                          'ete3, xml.etree/lxml, CPython dict/set semantics are modelled, not verified'],
            evaluations=res.evaluations, distinct_nontrivial=len(res.nontrivial),
            rule='random spelled histories over random trees (2-12 leaves, polytomies, caterpillars, stars); a case is '
                 'non-trivial when it contains a duplication, an elided level or a polytomy; distinct = distinct hash of (tree, naming, groups, species)',
            samples=res.samples or [dict(note='no dataset samples for this property; see histogram')],
            traces_validated_against_impl=res.traces_validated,
            programs=res.traces_validated, disagreements_checked=len(res.mismatches),
            histogram=res.hist, mismatches=len(res.mismatches), oracle_failures=len(res.oracle_failures),
            known_findings_hit=sorted(reported_known), proof_problems=proof_problems, infra=res.infra[:5],
            explanation=spec.get('explanation', ''), lean_build_s=round(build_s, 1), notes=res.notes,
            source_functions_changed_since_model_baseline=props.source_changed()[:40])
        if not obligations:
            cov.pop('obligations'); cov.pop('discharged')
        ev = dict(property_id=prop, tier=a.tier, seed=seed, level=level, coverage=cov,
                  assumptions=['agreement of model and implementation outside the explored cases is assumed',
                               'the compiled driver executes the model definitions faithfully'],
                  wall_s=round(time.time() - t0, 2), violations=violations)
        # (evaluations of seeded changes against a scratch checkout write their evidence elsewhere: VERIF_EVIDENCE_DIR)
        evdir = os.environ.get('VERIF_EVIDENCE_DIR') or os.path.join(VERIF, 'evidence')
        os.makedirs(evdir, exist_ok=True)
        with open(os.path.join(evdir, prop + '.json'), 'w') as f:
            json.dump(ev, f, indent=1, default=str)
        print('%s tier=%s seed=%d cases=%d nontrivial=%d validated=%d mismatches=%d oracle_failures=%d theorems=%d/%d wall=%.1fs -> exit %d' % (
            prop, a.tier, seed, res.evaluations, len(res.nontrivial), res.traces_validated, len(res.mismatches),
            len(res.oracle_failures), len(discharged), len(obligations), time.time() - t0, exit_code))
        return exit_code
    except Exception as e:      # noqa
        traceback.print_exc()
        # An exception that comes out of pyham's own code at a place where the harness expects none (every such call returns on
        # the unchanged tree) is a behavioural difference, not an infrastructure problem: the correspondence no longer checks.
        try:
            import observe
            repo = os.path.realpath(observe.REPO)
            frames = traceback.extract_tb(e.__traceback__)
            inside = [fr for fr in frames if os.path.realpath(fr.filename).startswith(repo + os.sep)]
            if inside:
                import core
                prop = a.prop.upper()
                path = core.write_replay(prop, seed, 'exception', dict(
                    kind='no-failing-input-found',
                    broken=['correspondence %s: pyham raised %s: %s at %s:%d (%s) where the unchanged implementation returns' % (
                        prop, type(e).__name__, e, os.path.relpath(inside[-1].filename, repo), inside[-1].lineno, inside[-1].name)],
                    traceback=traceback.format_exc()[-4000:],
                    note='the check stopped at this call; the property is no longer shown to hold'))
                print('VIOLATION property=%s replay=%s no-failing-input-found' % (prop, path))
                return 1
        except Exception:      # noqa
            pass
        print('INFRA: %s' % e)
        return 2

if __name__ == '__main__':
    sys.exit(main())
