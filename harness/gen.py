"""Generators: species trees, spelled histories (the type SL of the Lean model), datasets,
and their renderings (orthoXML text, Newick, PhyloXML, s-expressions for the Lean driver).

Every random choice comes from the random.Random instance that is passed in.

tree     := (name, [tree...])
taxon    := tuple of child indices, ROOT FIRST on the Python side ("r.0.1" in canonical text)
SL       := ('g', id, loft) | ('grp', written, hid, label, [sub...])
sub      := ('one', i, SL) | ('dup', i, pgid, [SL...]) | ('ann', elem)
elem     := ('ref', id, loft) | ('score', id, v) | ('prop', n, v) | ('og', hid, og, [elem]) | ('pg', pgid, [elem])
"""
import itertools

SCORE_LITERALS = ['0.5', '1.0', '0.25', '2.75', '100.0', '0.125', '0.0']
NAME_CHARS_EXTRA = [' ', '_', '-', '.', '/']

# ----------------------------------------------------------------------------------------- trees

def sub(T, p):
    for i in p:
        T = T[1][i]
    return T

def paths(T, p=()):
    yield p
    for i, k in enumerate(T[1]):
        yield from paths(k, p + (i,))

def leaf_names(T):
    if not T[1]:
        return [T[0]]
    out = []
    for k in T[1]:
        out += leaf_names(k)
    return out

def display_name(T, p, naming):
    n = sub(T, p)
    if not n[1] or naming == 'own':
        return n[0]
    return '/'.join(leaf_names(n))

def newick(T, with_internal=True):
    if not T[1]:
        return T[0]
    return '(' + ','.join(newick(k, with_internal) for k in T[1]) + ')' + (T[0] if with_internal else '')

def rand_shape(rng, nleaves, maxar=4):
    """random rooted tree shape with `nleaves` leaves, arity >= 2"""
    if nleaves == 1:
        return [None, []]
    k = min(rng.choice([2, 2, 2, 3, 3, 4, 5][:maxar + 2]), nleaves)
    cuts = sorted(rng.sample(range(1, nleaves), k - 1))
    parts = [b - a for a, b in zip([0] + cuts, cuts + [nleaves])]
    return [None, [rand_shape(rng, p, maxar) for p in parts]]

def caterpillar(n):
    t = [None, []]
    for _ in range(n - 1):
        t = [None, [t, [None, []]]]
    return t

def star(n):
    return [None, [[None, []] for _ in range(n)]]

def all_shapes(n, _memo={}):
    """all unordered rooted tree shapes with n leaves and arity >= 2, as nested lists"""
    if n in _memo:
        return _memo[n]
    if n == 1:
        res = [[None, []]]
    else:
        res = []
        def parts(total, maxpart):
            if total == 0:
                yield []
                return
            for first in range(min(total, maxpart), 0, -1):
                for rest in parts(total - first, first):
                    yield [first] + rest
        for part in parts(n, n - 1):
            if len(part) < 2:
                continue
            choices = [all_shapes(k) for k in part]
            for combo in itertools.product(*choices):
                # avoid duplicates for equal part sizes by canonical ordering
                key = [repr(c) for c in combo]
                ok = True
                for a in range(len(part) - 1):
                    if part[a] == part[a + 1] and key[a] < key[a + 1]:
                        ok = False
                if ok:
                    res.append([None, [clone(c) for c in combo]])
    _memo[n] = res
    return res

def clone(t):
    return [t[0], [clone(k) for k in t[1]]]

def name_tree(rng, shape, fancy=False):
    """give names to a shape; returns immutable tuple tree"""
    lc = [0]; ic = [0]
    oma = (not fancy) and rng.random() < 0.5          # OMA-style five-letter species codes
    def nm(prefix, k):
        base = '%s%d' % (prefix, k)
        if fancy and rng.random() < 0.4:
            base = base[0] + rng.choice(NAME_CHARS_EXTRA) + base[1:] if rng.random() < 0.6 else base + rng.choice(['.x', '-b', '_1', ' sp', '/', '/z'])
        return base
    casepairs = (not fancy) and (not oma) and rng.random() < 0.08        # species names that differ only in case: L1, l1, L2, l2 ...
    numeric = (not fancy) and (not oma) and (not casepairs) and rng.random() < 0.06     # species named by digits only (NCBI taxon ids)
    def rec(t):
        if not t[1]:
            lc[0] += 1
            if casepairs:
                return (('L%d' if lc[0] % 2 else 'l%d') % ((lc[0] + 1) // 2), ())
            if numeric:
                return (str(30000 + 7 * lc[0]), ())
            if oma and rng.random() < 0.2:
                # near-misses of an OMA species code: five characters but not a code, or a code followed by more characters
                return (rng.choice(['Sp%03d', 'sP%03d', 'SP%03dX', 'S-%03d']) % lc[0], ())
            return (nm('L', lc[0]) if fancy else ('SP%03d' % lc[0] if oma else 'L%d' % lc[0]), ())
        ic[0] += 1
        me = nm('I', ic[0]) if fancy else ('CL%03d' % ic[0] if (oma and rng.random() < 0.25) else 'I%d' % ic[0])   # some clades named like OMA codes
        return (me, tuple(rec(k) for k in t[1]))
    return rec(shape)

def rand_tree(rng, nleaves=None, maxleaves=8, fancy=False, cat=0.08, unary=0.0):
    if nleaves is None:
        nleaves = rng.randint(2, maxleaves)
    r = rng.random()
    if r < cat and nleaves >= 3:
        shape = caterpillar(nleaves)
    elif r < cat + 0.08 and nleaves >= 3:
        shape = star(nleaves)
    else:
        shape = rand_shape(rng, nleaves)
    shape = shuffle_shape(rng, shape)
    if unary:
        shape = add_unary(rng, shape, unary)
    return name_tree(rng, shape, fancy)

def add_unary(rng, t, p):
    """insert single-child internal nodes (a clade with one sub-clade: legal Newick, e.g. '((A,B)X)Y'); only usable
    with the tree's own internal names, synthesised names of such a node and its child coincide"""
    ks = [add_unary(rng, k, p) for k in t[1]]
    ks = [[None, [k]] if rng.random() < p else k for k in ks]
    return [t[0], ks]

def has_unary(T):
    return (len(T[1]) == 1) or any(has_unary(k) for k in T[1])

def shuffle_shape(rng, t):
    ks = [shuffle_shape(rng, k) for k in t[1]]
    rng.shuffle(ks)
    return [t[0], ks]

# ----------------------------------------------------------------------------- spelled histories

class Ids:
    def __init__(self, int_ids=False):
        self.n = 0
        self.int_ids = int_ids
        self.h = 0
        self.last = None
        self.used = set()
        self.clash = False
    def gene(self, rng=None):
        self.n += 1
        if self.int_ids:
            # integer-looking ids in several spellings: "7" and "07" are different ids
            if rng is not None and self.last and rng.random() < 0.15:
                g = '0' + self.last
                if g not in self.used:
                    self.used.add(g); self.last = g
                    return g
            g = str(self.n)
            self.used.add(g); self.last = g
            return g
        if rng is not None and rng.random() < 0.04:
            return 'g\u00e8ne%d' % self.n          # ids are arbitrary strings: not ASCII here
        if rng is not None and rng.random() < 0.06:
            return str(5000 + self.n)              # ... or purely numeric next to non-numeric ones
        return 'g%d' % self.n
    def hog(self):
        self.h += 1
        if self.clash:
            return str(1 + (self.h * 7) % 5)        # small integers: the same namespace as the top-level family ids
        return 'S%d' % self.h

def gen_lineage(rng, T, p, ids, P):
    """simulate one ancestral gene entering taxon p"""
    node = sub(T, p)
    if not node[1]:
        loft = ('HOG:%d.%s' % (rng.randint(1, 9), rng.choice('abc'))) if rng.random() < P['loft'] else None
        return ('g', ids.gene(rng), loft)
    while True:
        subs = []
        only = rng.randrange(len(node[1])) if rng.random() < P.get('chainy', 0) else None
        for i in range(len(node[1])):
            if only is not None and i != only:
                continue
            if only is None and rng.random() < P['loss']:
                continue
            if rng.random() < P['dup']:
                n = rng.choice([3, 3, 4, 4, 5]) if rng.random() < P.get('multi', 0) else rng.choice([2, 2, 2, 3, 3, 4])
                P2 = dict(P); P2['dup'] = P['dup'] * 0.6
                pgid = ('pg%d' % rng.randint(1, 99)) if rng.random() < 0.2 else None
                subs.append(('dup', i, pgid, [gen_lineage(rng, T, p + (i,), ids, P2) for _ in range(n)]))
            else:
                subs.append(('one', i, gen_lineage(rng, T, p + (i,), ids, P)))
        if subs:
            break
    rng.shuffle(subs)
    written = not (len(subs) == 1 and rng.random() < P['elide'])
    hid = None; label = False
    if written:
        if rng.random() < P['subid']:
            hid = ids.hog()
        label = rng.random() < P['label']
        if hid is not None and rng.random() < 0.3:
            # LOFT ids equal to the id of the directly enclosing group (OMA writes the HOG id there for every gene that is not
            # a fresh copy): a LOFT id like any other (r11-C19a)
            subs = [('one', s_[1], ('g', s_[2][1], hid)) if (s_[0] == 'one' and s_[2][0] == 'g' and rng.random() < 0.6) else s_ for s_ in subs]
        nann = 0
        while rng.random() < P['ann'] and nann < 3:
            nann += 1
            if rng.random() < 0.5:
                e = ('score', rng.choice(['Completeness', 'bootstrap', 'TreeCertainty']), rng.choice(SCORE_LITERALS))
            else:
                e = ('prop', rng.choice(['Note', 'Color', 'Source'] + (ATTR_LIKE_NAMES if rng.random() < 0.25 else [])), rng.choice(['x', 'y z', '42', 'A&B', 'x<y>z', "O'Neil", 'say "hi"', 'gr\u00fcn', '', 'kinase, putative ', ' x', ' ', '007', '1e3']))
            subs.insert(rng.randint(0, len(subs)), ('ann', e))
    return ('grp', written, hid, label, subs)

# property names that coincide with attributes of pyham's HOG objects: they are names like any other (r13-C19a: `hog[name]`
# falling back to the object's attributes)
ATTR_LIKE_NAMES = ['genome', 'og', 'children', 'parent', 'hog_id', 'duplications', 'score']

def taxid_of(name):
    """the NCBITaxId written for a species: a handful of values, so that different species regularly share one (strains, breeds,
    sub-species; r13-C02b: genomes compared by their taxon id)"""
    return str(9600 + sum(map(ord, name)) % 5)

DEFAULT_P = dict(loss=0.25, dup=0.3, elide=0.5, subid=0.3, label=0.3, ann=0.25, loft=0.15, unary_trees=0.1, idless_top=0.08, species_split=0.1, dbsplit=0.1, unnamed_root=0.08, notes=0.12, wrap=0.1, latin1=0.1, subid_clash=0.15, late_species=0.12, xref_is_other_id=0.2, zero_pad_top=0.1)

def force_written(l):
    return ('grp', True) + tuple(l[2:])

# -- port of the Lean definitions (History.lean); the driver echoes the Lean values, the harness
# -- compares, so a divergence between the two shows up as an infrastructure error, not silently.

def encode(T, naming, p, l):
    if l[0] == 'g':
        return [('ref', l[1], l[2])]
    _, w, hid, label, subs = l
    items = encode_subs(T, naming, p, subs)
    if w:
        pre = [('prop', 'TaxRange', display_name(T, p, naming))] if label else []
        return [('og', hid, None, pre + items)]
    return items

def encode_subs(T, naming, p, subs):
    out = []
    for s in subs:
        if s[0] == 'one':
            out += encode(T, naming, p + (s[1],), s[2])
        elif s[0] == 'dup':
            cs = []
            for c in s[3]:
                cs += encode(T, naming, p + (s[1],), c)
            out.append(('pg', s[2], cs))
        else:
            out.append(s[1])
    return out

def app_taxa(p, l):
    if l[0] == 'g' or l[1]:
        return [p]
    return app_taxa_subs(p, l[4])

def app_taxa_subs(p, subs):
    out = []
    for s in subs:
        if s[0] == 'one':
            out += app_taxa(p + (s[1],), s[2])
        elif s[0] == 'dup':
            for c in s[3]:
                out += app_taxa(p + (s[1],), c)
    return out

def spill(p, l):
    if l[0] == 'grp' and not l[1]:
        return spill_subs(p, l[4])
    return []

def spill_subs(p, subs):
    out = []
    for s in subs:
        if s[0] == 'one':
            out += spill(p + (s[1],), s[2])
        elif s[0] == 'dup':
            out.append(p)
    return out

def lcp(ts):
    r = []
    for xs in zip(*ts):
        if all(x == xs[0] for x in xs):
            r.append(xs[0])
        else:
            break
    return tuple(r)

def dedup(xs):
    out = []
    for x in xs:
        if x not in out:
            out.append(x)
    return out

def rule_dup(taxa):
    d = dedup(taxa)
    if not d:
        return None
    if len(d) == 1:
        return d[0][:-1] if len(d[0]) else None
    m = lcp(d)
    return m[:-1] if len(m) else None

def rule_level(taxa, duplevels):
    d = dedup(taxa)
    if not d:
        return None
    if len(d) == 1:
        if not len(d[0]):
            return None
        b = d[0][:-1]
    else:
        b = lcp(d)
    for m in duplevels:
        if len(m) < len(b) and b[:len(m)] == m:
            b = m
    return b

def real_subs(subs):
    return sum(1 for s in subs if s[0] != 'ann')

def recoverable(p, l):
    if l[0] == 'g':
        return True
    _, w, hid, label, subs = l
    if not recoverable_subs(p, subs):
        return False
    if w:
        return rule_level(app_taxa_subs(p, subs), spill_subs(p, subs)) == p
    return real_subs(subs) == 1

def recoverable_subs(p, subs):
    for s in subs:
        if s[0] == 'one':
            if not recoverable(p + (s[1],), s[2]):
                return False
        elif s[0] == 'dup':
            q = p + (s[1],)
            taxa = []
            for c in s[3]:
                if not recoverable(q, c) or spill(q, c):
                    return False
                taxa += app_taxa(q, c)
            if rule_dup(taxa) != p:
                return False
    return True

def set_written(l):
    """spell the group out (a group written by the generator keeps its id/label/annotations)"""
    if l[0] == 'g' or l[1]:
        return l
    return ('grp', True, None, False, l[4])

def repair(p, l):
    """make a history recoverable by spelling out as few elided groups as needed (bottom-up)"""
    if l[0] == 'g':
        return l
    _, w, hid, label, subs = l
    new = []
    for s in subs:
        if s[0] == 'one':
            new.append(('one', s[1], repair(p + (s[1],), s[2])))
        elif s[0] == 'dup':
            q = p + (s[1],)
            cs = [repair(q, c) for c in s[3]]
            cs = [repair(q, set_written(c)) if spill(q, c) else c for c in cs]
            k = 0
            while True:
                taxa = []
                for c in cs:
                    taxa += app_taxa(q, c)
                if rule_dup(taxa) == p or k >= len(cs):
                    break
                cs[k] = repair(q, set_written(cs[k])); k += 1
            new.append(('dup', s[1], s[2], cs))
        else:
            new.append(s)
    if not w and real_subs(new) != 1:
        w = True
    if w:
        k = 0
        while rule_level(app_taxa_subs(p, new), spill_subs(p, new)) != p and k < len(new):
            s = new[k]
            if s[0] == 'one':
                new[k] = ('one', s[1], repair(p + (s[1],), set_written(s[2])))
            elif s[0] == 'dup':
                new[k] = ('dup', s[1], s[2], [repair(p + (s[1],), set_written(c)) for c in s[3]])
            k += 1
    return ('grp', w, hid if w else None, label if w else False, new)

def genes_of(l):
    if l[0] == 'g':
        return [l[1]]
    out = []
    for s in l[4]:
        if s[0] == 'one':
            out += genes_of(s[2])
        elif s[0] == 'dup':
            for c in s[3]:
                out += genes_of(c)
    return out

def gene_taxa(p, l):
    """[(gene id, leaf taxon)]"""
    if l[0] == 'g':
        return [(l[1], p)]
    out = []
    for s in l[4]:
        if s[0] == 'one':
            out += gene_taxa(p + (s[1],), s[2])
        elif s[0] == 'dup':
            for c in s[3]:
                out += gene_taxa(p + (s[1],), c)
    return out

def stats_of(l, st=None, depth=0):
    """shape statistics of a history (for the evidence histogram and the non-triviality rule)"""
    if st is None:
        st = dict(genes=0, groups=0, dups=0, elided=0, multicopy=0, deepdup=0, soledup=0, anns=0, maxdepth=0, widedup=0)
    st['maxdepth'] = max(st['maxdepth'], depth)
    if l[0] == 'g':
        st['genes'] += 1
        return st
    _, w, hid, label, subs = l
    st['groups'] += 1
    if not w:
        st['elided'] += 1
    rs = [s for s in subs if s[0] != 'ann']
    st['anns'] += len(subs) - len(rs)
    if w and len(rs) == 1 and rs[0][0] == 'dup':
        st['soledup'] += 1
    for s in rs:
        if s[0] == 'one':
            stats_of(s[2], st, depth + 1)
        else:
            st['dups'] += 1
            if len(s[3]) > 2:
                st['multicopy'] += 1
                if len(set(len(t) for c in s[3] for t in app_taxa((), c))) > 1 or any(c[0] == 'grp' and not c[1] for c in s[3]):
                    st['widedup'] = st.get('widedup', 0) + 1
            if not w:
                st['deepdup'] += 1
            for c in s[3]:
                stats_of(c, st, depth + 1)
    return st

# ------------------------------------------------------- bounded-exhaustive small histories

def enum_lineages(T, p, dups_left, ids):
    """all histories of one ancestral gene entering taxon p: per child branch loss / one copy / duplication
    with two copies (at most `dups_left` duplications in total), every elision pattern.  Yields (SL, dups used);
    gene ids are placeholders renumbered by the caller."""
    node = sub(T, p)
    if not node[1]:
        yield ('g', '?', None), 0
        return
    def branches(i, left):
        """yield (list of subs for children i.., dups used)"""
        if i == len(node[1]):
            yield [], 0
            return
        for rest, used in branches(i + 1, left):
            yield rest, used                                        # loss on branch i
            for l, u in enum_lineages(T, p + (i,), left - used, ids):
                yield [('one', i, l)] + rest, used + u
            if left - used >= 1:
                for l1, u1 in enum_lineages(T, p + (i,), left - used - 1, ids):
                    for l2, u2 in enum_lineages(T, p + (i,), left - used - 1 - u1, ids):
                        yield [('dup', i, None, [l1, l2])] + rest, used + 1 + u1 + u2
    for subs, used in branches(0, dups_left):
        if not subs:
            continue
        yield ('grp', True, None, False, subs), used
        if len(subs) == 1:
            yield ('grp', False, None, False, subs), used

def renumber(l, counter):
    if l[0] == 'g':
        counter[0] += 1
        return ('g', 'g%d' % counter[0], None)
    _, w, hid, label, subs = l
    new = []
    for s2 in subs:
        if s2[0] == 'one':
            new.append(('one', s2[1], renumber(s2[2], counter)))
        elif s2[0] == 'dup':
            new.append(('dup', s2[1], s2[2], [renumber(c, counter) for c in s2[3]]))
        else:
            new.append(s2)
    return ('grp', w, hid, label, new)

def exhaustive_datasets(max_leaves=4, max_dups=2, naming='own'):
    """every recoverable single-family dataset rooted at the tree root, on every tree shape up to max_leaves"""
    import random as _r
    rng = _r.Random(0)
    for n in range(2, max_leaves + 1):
        for shape in all_shapes(n):
            T = name_tree(rng, shape)
            for l, _ in enum_lineages(T, (), max_dups, None):
                if l[0] != 'grp' or not l[1]:
                    continue
                l = renumber(l, [0])
                if not recoverable((), l):
                    continue
                D = Dataset(T, naming)
                l = ('grp', True, '1') + tuple(l[3:])
                D.families = [((), l, '1')]
                per_leaf = {}
                for g, t in gene_taxa((), l):
                    per_leaf.setdefault(t, []).append(g)
                for t in paths(T):
                    if not sub(T, t)[1]:
                        D.species.append((sub(T, t)[0], [(g, [('protId', 'P' + g)]) for g in per_leaf.get(t, [])]))
                D.groups = encode(T, naming, (), l)
                D.base_groups = list(D.groups)
                D.meta = dict(exhaustive=True)
                yield D

# -------------------------------------------------------------------------------------- datasets

class Dataset(object):
    """tree + naming + species declarations + families (spelled histories) + raw groups"""
    def __init__(self, T, naming):
        self.T = T
        self.naming = naming
        self.families = []        # [(taxon, SL, top id)]
        self.species = []         # [(leaf name, [(gene id, [(attr, value)...])])]  document order
        self.groups = []          # raw elems actually written (normally = encodings of the families)
        self.base_groups = []     # encodings of the families before any re-spelling
        self.meta = {}

def rand_xrefs(rng, gid):
    x = []
    if rng.random() < 0.9:
        x.append(('protId', 'P' + gid))
    if rng.random() < 0.4:
        # (gene symbols: 'shared' by several genes, or spelled 'Hoxa1' / 'HOXA1' / 'hoxa1' -- different values)
        x.append(('geneId', 'G' + gid if rng.random() < 0.7 else rng.choice(['shared', 'shared', 'Hoxa1', 'HOXA1', 'hoxa1'])))
    if rng.random() < 0.2:
        x.append(('transcriptId', 'T' + gid))
    if x and rng.random() < 0.06:
        # values that need escaping in XML / are not ASCII
        k_, v_ = x[0]
        x[0] = (k_, v_ + rng.choice(['&co', '<1>', "'s", '"q"', '\u00e9']))
    if x and rng.random() < 0.12:
        # two attributes of one <gene> carrying the same value (geneId == protId is common in real files), or a
        # cross-reference equal to the gene's own id
        if len(x) >= 2 and rng.random() < 0.6:
            x[-1] = (x[-1][0], x[0][1])
        else:
            x[0] = (x[0][0], gid)
    return x

def mislabel(rng, T, groups, prob=0.5):
    """replace TaxRange labels by the name of a proper ancestor of the labelled level (own names).  The level rule never
    reads the label of a multi-species group, so the file keeps its meaning; returns (groups, number of labels changed)"""
    name_to_path = {display_name(T, p, 'own'): p for p in paths(T) if sub(T, p)[1]}
    changed = [0]
    def rec(e):
        if e[0] == 'og':
            items = []
            for x in e[3]:
                if x[0] == 'prop' and x[1] == 'TaxRange' and name_to_path.get(x[2]) and rng.random() < prob:
                    q = name_to_path[x[2]]
                    up = q[:rng.randint(0, len(q) - 1)]
                    items.append(('prop', 'TaxRange', display_name(T, up, 'own'))); changed[0] += 1
                else:
                    items.append(rec(x))
            return ('og', e[1], e[2], items)
        if e[0] == 'pg':
            return ('pg', e[1], [rec(x) for x in e[2]])
        return e
    return [rec(g) for g in groups], changed[0]

def add_og_attrs(rng, elems, prob=0.3):
    """give some orthologGroups an `og` attribute (OMA writes one): different from the id, sometimes shared by nested
    groups of one family; groups without id get their id from it"""
    fam = ['OG_%04d' % rng.randint(1, 9999)]
    def rec(es):
        out = []
        for e in es:
            if e[0] == 'og':
                og = e[2]
                if og is None and rng.random() < prob:
                    og = fam[0] if rng.random() < 0.5 else 'OG_%04d' % rng.randint(1, 9999)
                out.append(('og', e[1], og, rec(e[3])))
            elif e[0] == 'pg':
                out.append(('pg', e[1], rec(e[2])))
            else:
                out.append(e)
        return out
    res = []
    for e in elems:
        fam[0] = 'OG_%04d' % rng.randint(1, 9999)
        if e[0] == 'og' and e[1] is None:
            res.append(('og', None, e[2], rec(e[3])))      # a top-level group without id keeps the key None
        else:
            res += rec([e])
    return res

def make_dataset(rng, T=None, naming=None, nfam=None, P=None, maxleaves=8, int_ids=None, top_positions='any',
                 fancy=False, max_tries=200):
    P = dict(DEFAULT_P, **(P or {}))
    if T is None:
        T = rand_tree(rng, maxleaves=maxleaves, fancy=fancy, cat=(0.35 if P.get('chainy', 0) > 0.3 else 0.08),
                      unary=(0.15 if (naming in (None, 'own') and rng.random() < P.get('unary_trees', 0.0)) else 0.0))
    if has_unary(T):
        naming = 'own'
    if naming is None:
        naming = rng.choice(['own', 'synth'])
    if naming == 'own' and rng.random() < P.get('unnamed_root', 0.0):
        T = ('', T[1])           # a Newick tree whose root carries no label: its own name is the empty string
    if int_ids is None:
        int_ids = rng.random() < 0.3
    ids = Ids(int_ids)
    ids.clash = rng.random() < P.get('subid_clash', 0.0)
    D = Dataset(T, naming)
    internal = [p for p in paths(T) if sub(T, p)[1]]
    if nfam is None:
        nfam = rng.choice([1, 1, 2, 2, 3, 4, 6]) if rng.random() > 0.04 else 0      # (sometimes no family at all: singletons only)
    fam_no = 0
    id_offset = rng.choice([-1, 0, 0, 1])            # (-1: the first family is called "0")
    idless_at = rng.randint(1, nfam) if (nfam and rng.random() < P.get('idless_top', 0.0)) else 0
    for _ in range(nfam):
        for _try in range(max_tries):
            save = (ids.n, ids.h)
            p = () if (top_positions == 'root' or rng.random() < 0.3) else rng.choice(internal)
            l = repair(p, force_written(gen_lineage(rng, T, p, ids, P)))
            if recoverable(p, l):
                break
            ids.n, ids.h = save
        else:
            continue
        fam_no += 1
        topid = str(fam_no + id_offset) if rng.random() < 0.7 else 'HOG:%07d' % fam_no
        num_ = [t for _, _, t in D.families if t is not None and t.isascii() and t.isdigit()]
        if num_ and rng.random() < P.get('zero_pad_top', 0.0):
            # family ids that are equal as integers but are different ids: "7" and "07" (ids are strings)
            cand_ = '0' + rng.choice(num_)
            if cand_ not in [t for _, _, t in D.families]:
                topid = cand_
        if rng.random() < P.get('odd_digit_ids', 0.03):
            # ids made of "digits" that are not decimal digits (superscripts: str.isdigit() is true, int() refuses; r14-C12b)
            topid = str(fam_no + id_offset) + rng.choice(['\u00b2', '\u00b3', '\u00b9'])
        if fam_no == idless_at:
            topid = None         # one top-level group without id (the schema allows it; it is listed under the key None)
        l = ('grp', True, topid) + tuple(l[3:])
        D.families.append((p, l, topid))
    # species declarations
    per_leaf = {}
    for p, l, _ in D.families:
        for g, t in gene_taxa(p, l):
            per_leaf.setdefault(t, []).append(g)
    leaves = [p for p in paths(T) if not sub(T, p)[1]]
    nsingle = 0
    for t in leaves:
        for _ in range(rng.choice([0, 0, 0, 1, 2])):
            per_leaf.setdefault(t, []).append(ids.gene(rng)); nsingle += 1
    order = list(leaves)
    rng.shuffle(order)
    undeclared = 0
    for t in order:
        gs = per_leaf.get(t, [])
        if not gs and rng.random() < 0.3:
            undeclared += 1
            continue          # species element absent altogether
        gs = list(gs)
        rng.shuffle(gs)
        D.species.append((sub(T, t)[0], [(g, rand_xrefs(rng, g)) for g in gs]))
    # a cross-reference value that happens to be the internal id of ANOTHER gene (numeric Entrez-style geneIds next to
    # numeric internal ids)
    allg_ = [g for _, gs in D.species for g, _ in gs]
    if len(allg_) >= 2 and rng.random() < P.get('xref_is_other_id', 0.0):
        si = rng.randrange(len(D.species))
        if D.species[si][1]:
            gi = rng.randrange(len(D.species[si][1]))
            g0, xr0 = D.species[si][1][gi]
            other = rng.choice([g for g in allg_ if g != g0])
            gl = list(D.species[si][1]); gl[gi] = (g0, [(k, v) for k, v in xr0 if k != 'geneId'] + [('geneId', other)])
            D.species[si] = (D.species[si][0], gl)
    # every gene of one family carrying the same, single cross-reference (a gene symbol shared by orthologs and paralogs):
    # different genes that are indistinguishable by their cross-references (r12-C16b: value equality for Gene objects)
    if D.families and rng.random() < P.get('same_xrefs', 0.1):
        fam_genes_ = set(genes_of(rng.choice(D.families)[1]))
        D.species = [(n_, [(g_, [('protId', 'RAD51')] if g_ in fam_genes_ else xr_) for g_, xr_ in gs_]) for n_, gs_ in D.species]
    for p, l, _ in D.families:
        D.groups += encode(T, naming, p, l)
    D.base_groups = list(D.groups)
    D.meta = dict(singletons=nsingle, undeclared_species=undeclared, int_ids=int_ids)
    # the same species declared in two <species> elements (e.g. one per source database): pyham merges them into one genome
    if rng.random() < P.get('species_split', 0.0):
        cand = [i for i, (_, gs) in enumerate(D.species) if len(gs) >= 2]
        if cand:
            i = rng.choice(cand)
            name, gs = D.species[i]
            k = rng.randint(1, len(gs) - 1)
            D.species[i] = (name, gs[:k])
            D.species.insert(rng.randint(i + 1, len(D.species)), (name, gs[k:]))
            D.meta['species_split'] = name
    D.meta['dbsplit'] = rng.random() < P.get('dbsplit', 0.0)
    D.meta['style'] = dict(dbsplit=D.meta['dbsplit'], notes=rng.random() < P.get('notes', 0.0), wrap=rng.random() < P.get('wrap', 0.0),
                           latin1=rng.random() < P.get('latin1', 0.0), breaks=rng.random() < P.get('breaks', 0.12))
    if rng.random() < P.get('late_species', 0.0):
        refd = set(g for p_, l_, _ in D.families for g in genes_of(l_))
        cand = [i for i, (_, gs) in enumerate(D.species) if not any(g in refd for g, _ in gs)]
        if cand:
            D.species.append(D.species.pop(rng.choice(cand)))          # D.species stays in file order
            D.meta['style']['late_species'] = [len(D.species) - 1]
    return D

def deep_chain_dataset(rng, depth=None):
    """a duplication whose copies are long chains of single-child HOGs: caterpillar tree of the given depth, one
    family at the root with a 2-3 copy duplication on the inner branch, every copy surviving (almost) only in the
    deepest cherry, all levels spelled out.  Exercises exporters / re-loaders on chains of >= 3 single-child levels."""
    d = depth or rng.randint(3, 7)
    T = ('I0', (('LA', ()), ('LB', ())))
    for k in range(1, d + 1):
        T = ('I%d' % k, (T, ('L%d' % k, ())))
    ids = Ids(False)
    def chain(k):
        if k == 0:
            return ('grp', True, ids.hog() if rng.random() < 0.7 else None, rng.random() < 0.5,
                    [('one', 0, ('g', ids.gene(rng), None)), ('one', 1, ('g', ids.gene(rng), None))])
        subs = [('one', 0, chain(k - 1))]
        if rng.random() < 0.12:
            subs.append(('one', 1, ('g', ids.gene(rng), None)))
        return ('grp', True, ids.hog() if rng.random() < 0.7 else None, rng.random() < 0.5, subs)
    subs = [('dup', 0, None, [chain(d - 1) for _ in range(rng.choice([2, 2, 3]))])]
    if rng.random() < 0.5:
        subs.append(('one', 1, ('g', ids.gene(rng), None)))
    l = ('grp', True, '1', rng.random() < 0.5, subs)
    D = Dataset(T, rng.choice(['own', 'synth']))
    D.families = [((), l, '1')]
    per_leaf = {}
    for g, t in gene_taxa((), l):
        per_leaf.setdefault(t, []).append(g)
    for t in [p for p in paths(T) if not sub(T, p)[1]]:
        D.species.append((sub(T, t)[0], [(g, rand_xrefs(rng, g)) for g in per_leaf.get(t, [])]))
    D.groups = encode(T, D.naming, (), l)
    D.base_groups = list(D.groups)
    D.meta = dict(singletons=0, undeclared_species=0, int_ids=False, deep_chain=d)
    return D

def chain_above_dup_dataset(rng, depth=None):
    """single-child levels ABOVE a duplication: caterpillar tree, one family at the root that survives in the inner clade
    only for several levels, then a HOG whose only content is one duplication (2-3 copies, all in the inner child clade).
    Exercises the exporter's elision rules where a group written around a single child holds a sole-duplication HOG."""
    d = depth or rng.randint(3, 6)
    T = ('I0', (('LA', ()), ('LB', ())))
    for k in range(1, d + 1):
        T = ('I%d' % k, (T, ('L%d' % k, ())))
    ids = Ids(False)
    def full(k):
        if k == 0:
            return ('grp', True, ids.hog() if rng.random() < 0.7 else None, rng.random() < 0.5,
                    [('one', 0, ('g', ids.gene(rng), None)), ('one', 1, ('g', ids.gene(rng), None))])
        subs = [('one', 0, full(k - 1))]
        if rng.random() < 0.6:
            subs.append(('one', 1, ('g', ids.gene(rng), None)))
        return ('grp', True, ids.hog() if rng.random() < 0.7 else None, rng.random() < 0.5, subs)
    def chain_to(top_level):
        # single-child levels from `top_level` down to a HOG whose only content is one duplication
        j = rng.randint(1, max(1, top_level - 1))      # level of the sole-duplication HOG
        l_ = ('grp', True, ids.hog() if rng.random() < 0.7 else None, rng.random() < 0.5,
              [('dup', 0, None, [full(j - 1) for _ in range(rng.choice([2, 2, 3]))])])
        for k in range(j + 1, top_level + 1):
            subs = [('one', 0, l_)]
            if k < top_level and rng.random() < 0.15:
                subs.append(('one', 1, ('g', ids.gene(rng), None)))
            l_ = ('grp', True, ids.hog() if rng.random() < 0.7 else None, rng.random() < 0.5, subs)
        return l_
    if rng.random() < 0.5:
        l = chain_to(d)                                # the family itself is such a chain
    else:
        # ... or the chains are the copies of an older duplication at the root (a copy that is a single-child HOG is
        # written inside its paralogGroup, and so must be the sole-duplication HOG below it)
        subs = [('dup', 0, None, [chain_to(d - 1) for _ in range(2)])]
        if rng.random() < 0.5:
            subs.append(('one', 1, ('g', ids.gene(rng), None)))
        l = ('grp', True, '1', rng.random() < 0.5, subs)
    l = ('grp', True, '1') + tuple(l[3:])
    D = Dataset(T, rng.choice(['own', 'synth']))
    D.families = [((), l, '1')]
    per_leaf = {}
    for g, t in gene_taxa((), l):
        per_leaf.setdefault(t, []).append(g)
    for t in [p for p in paths(T) if not sub(T, p)[1]]:
        D.species.append((sub(T, t)[0], [(g, rand_xrefs(rng, g)) for g in per_leaf.get(t, [])]))
    D.groups = encode(T, D.naming, (), l)
    D.base_groups = list(D.groups)
    D.meta = dict(singletons=0, undeclared_species=0, int_ids=False, chain_above_dup=d)
    return D

def redundant_wrappers(rng, groups, prob=0.5):
    """wrap some nested, labelled orthologGroups (whose XML parent is an orthologGroup) into one more group carrying the SAME
    TaxRange label plus annotations of its own -- a producer working on a tree with an extra unary level writes such
    wrappers.  The loader dissolves them (children in one genome, TaxRange = that genome); the inner group's HOG keeps its
    own annotations and must not answer the wrapper's."""
    n = [0]
    def rec(e, parent_is_og, top):
        if e[0] == 'og':
            items = [rec(x, True, False) for x in e[3]]
            new = ('og', e[1], e[2], items)
            lab = [x[2] for x in e[3] if x[0] == 'prop' and x[1] == 'TaxRange']
            if not top and parent_is_og and lab and rng.random() < prob:
                n[0] += 1
                return ('og', 'WRAP%d' % n[0], None, [('prop', 'TaxRange', lab[0]), ('prop', 'WrapNote', 'w%d' % n[0]), ('score', 'TreeCertainty', '0.125'), new])
            return new
        if e[0] == 'pg':
            return ('pg', e[1], [rec(x, False, False) for x in e[2]])
        return e
    out = [rec(g, False, True) for g in groups]
    return out, n[0]

def wild_dataset(rng, maxleaves=7):
    """a file that is NOT the encoding of a history: groups built clade by clade but with members, sub-groups and
    paralogGroups taken from anywhere below the clade (several levels skipped, several paralogGroups at one elided
    level, paralogGroups with one member, groups of one species ...).  Many of these are rejected by the loader or
    load into hierarchies no property speaks about; they are used to compare the loader with its model (the model
    claims to follow the code on EVERY input) and, where the model's result is well-formed, to check C02 literally."""
    T = rand_tree(rng, maxleaves=maxleaves, cat=0.3)
    naming = rng.choice(['own', 'synth'])
    D = Dataset(T, naming)
    ids = Ids(False)
    per_leaf = {}
    def leaves_under(q):
        return [p for p in paths(T) if p[:len(q)] == q and not sub(T, p)[1]]
    def internal_under(q):
        return [p for p in paths(T) if p[:len(q)] == q and len(p) > len(q) and sub(T, p)[1]]
    def ref_in(q):
        t = rng.choice(leaves_under(q))
        g = ids.gene(rng)
        per_leaf.setdefault(t, []).append(g)
        return ('ref', g, None)
    def og(q, depth, hid=None):
        items = []
        n = rng.choice([1, 2, 2, 3, 3, 4])
        for _ in range(n):
            items.append(item(q, depth))
        return ('og', hid if hid is not None else (ids.hog() if rng.random() < 0.6 else None), None, items)
    def item(q, depth):
        r = rng.random()
        sub_int = internal_under(q)
        if r < 0.45 or depth <= 0:
            return ref_in(q)
        if r < 0.75 and sub_int:
            return og(rng.choice(sub_int), depth - 1)
        if r < 0.8:
            return og(q, depth - 1)                     # a sub-group spanning the same clade
        # a paralogGroup: members from one sub-clade (mostly) or from anywhere below q
        where = rng.choice(sub_int) if sub_int and rng.random() < 0.7 else q
        k = rng.choice([1, 2, 2, 2, 3])
        mem = []
        for _ in range(k):
            w_int = internal_under(where)
            if w_int and rng.random() < 0.4 and depth > 0:
                mem.append(og(rng.choice(w_int + [where]) if where != q else rng.choice(w_int), depth - 1))
            else:
                mem.append(ref_in(where))
        return ('pg', None, mem)
    internal = [p for p in paths(T) if sub(T, p)[1]]
    for f in range(rng.choice([1, 1, 2, 3])):
        q = () if rng.random() < 0.5 else rng.choice(internal)
        D.groups.append(og(q, rng.choice([1, 2, 3]), hid=str(f + 1)))
    for t in [p for p in paths(T) if not sub(T, p)[1]]:
        D.species.append((sub(T, t)[0], [(g, rand_xrefs(rng, g)) for g in per_leaf.get(t, [])]))
    D.base_groups = list(D.groups)
    D.families = []
    D.meta = dict(wild=True, singletons=0, undeclared_species=0, int_ids=False)
    return D

# ---------------------------------------------------------------- re-spellings on raw elements

def nest_paralogs(rng, elems, prob=0.7):
    """rewrite flat paralogGroups with >= 3 members as directly nested ones (same event)"""
    out = []
    for e in elems:
        if e[0] == 'og':
            out.append(('og', e[1], e[2], nest_paralogs(rng, e[3], prob)))
        elif e[0] == 'pg':
            items = nest_paralogs(rng, list(e[2]), prob)
            refs = [x for x in items]
            rng.shuffle(refs)
            out.append(('pg', e[1], _nest(rng, refs, prob)))
        else:
            out.append(e)
    return out

def _nest(rng, items, prob):
    if len(items) >= 3 and rng.random() < prob:
        k = rng.randint(2, len(items) - 1)
        inner = ('pg', None, _nest(rng, items[:k], prob))
        rest = items[k:]
        pos = rng.randint(0, len(rest))
        return rest[:pos] + [inner] + rest[pos:]
    if len(items) >= 4 and rng.random() < prob * 0.5:
        return [('pg', None, items[:2]), ('pg', None, items[2:])]
    return items

def split_events(rng, elems, prob=0.7):
    """rewrite a paralogGroup with >= 4 members as two SIBLING paralogGroups (two separate events, possibly on one branch).
    This changes the meaning of the file and leaves the spelled-history domain; used only where the model itself is the
    reference.  Returns (elems, number of groups split)"""
    n = [0]
    def rec(es):
        out = []
        for e in es:
            if e[0] == 'og':
                out.append(('og', e[1], e[2], rec(e[3])))
            elif e[0] == 'pg':
                items = rec(list(e[2]))
                mem = [x for x in items if x[0] in ('ref', 'og')]
                if len(mem) >= 4 and len(mem) == len(items) and rng.random() < prob:
                    k = rng.randint(2, len(items) - 2)
                    out += [('pg', e[1], items[:k]), ('pg', None, items[k:])]; n[0] += 1
                else:
                    out.append(('pg', e[1], items))
            else:
                out.append(e)
        return out
    return rec(elems), n[0]

def single_member_pgs(rng, elems, prob=0.25):
    """wrap single members of orthologGroups into a paralogGroup of their own (a duplication of which one copy survives
    in the data, e.g. after the file was cut down to a species subset).  Outside the spelled-history domain (a
    duplication there has >= 2 copies); pyham loads and re-exports such files.  Returns (elems, count)"""
    n = [0]
    def rec(es, top):
        out = []
        for e in es:
            if e[0] == 'og':
                e = ('og', e[1], e[2], rec(e[3], False))
            elif e[0] == 'pg':
                e = ('pg', e[1], rec(e[2], False))
            if not top and e[0] in ('ref', 'og') and rng.random() < prob:
                out.append(('pg', None, [e])); n[0] += 1
            else:
                out.append(e)
        return out
    return rec(elems, True), n[0]

def species_wrap(rng, D, prob=0.35):
    """secondary stream: wrap gene references into species-level groups (TaxRange = species name),
    optionally with an in-paralog of the same species.  Such files are outside the spelled-history
    domain (a leaf has no child clades); pyham dissolves these groups while loading."""
    sp_of = {g: name for name, genes in D.species for g, _ in genes}
    extra = {}
    counter = [0]
    def rec(es, in_pg):
        out = []
        for e in es:
            if e[0] == 'ref' and e[1] in sp_of and rng.random() < prob:
                name = sp_of[e[1]]
                r_ = rng.random()
                if r_ < 0.5:
                    counter[0] += 1
                    g2 = 'ip%d' % counter[0]
                    extra.setdefault(name, []).append((g2, [('protId', 'P' + g2)]))
                    # in-paralogs inside a paralogGroup, or (a third of these) simply side by side
                    inner = [('pg', None, [e, ('ref', g2, None)])] if r_ < 0.34 or in_pg else [e, ('ref', g2, None)]
                else:
                    inner = [e]
                out.append(('og', None, None, [('prop', 'TaxRange', name)] + inner))
            elif e[0] == 'og':
                out.append(('og', e[1], e[2], rec(e[3], False)))
            elif e[0] == 'pg':
                out.append(('pg', e[1], rec(e[2], True)))
            else:
                out.append(e)
        return out
    D.groups = [('og', g[1], g[2], rec(g[3], False)) if g[0] == 'og' else g for g in D.groups]
    D.species = [(name, genes + extra.pop(name, [])) for name, genes in D.species]    # (pop: a species may have two elements)
    D.families = []
    (D.meta.get('style') or {}).pop('late_species', None)      # (genes were added: no species may come after the groups now)
    D.meta['species_level'] = counter[0] + 1
    return D

def shuffle_members(rng, elems):
    out = []
    for e in elems:
        if e[0] == 'og':
            ks = shuffle_members(rng, e[3])
            anns = [(i, x) for i, x in enumerate(ks) if x[0] in ('score', 'prop')]
            # keep annotation *relative* order (dict overwrite semantics), move everything else
            rest = [x for x in ks if x[0] not in ('score', 'prop')]
            rng.shuffle(rest)
            merged = list(rest)
            for _, a in anns:
                merged.insert(rng.randint(0, len(merged)), a)
            # restore relative order of annotations
            apos = [i for i, x in enumerate(merged) if x[0] in ('score', 'prop')]
            for i, (_, a) in zip(apos, anns):
                merged[i] = a
            out.append(('og', e[1], e[2], merged))
        elif e[0] == 'pg':
            ks = shuffle_members(rng, e[2])
            rng.shuffle(ks)
            out.append(('pg', e[1], ks))
        else:
            out.append(e)
    return out

# ------------------------------------------------------------------------------------- rendering

def xml_escape(s):
    return s.replace('&', '&amp;').replace('<', '&lt;').replace('>', '&gt;').replace('"', '&quot;')

def xml_elems(es):
    out = []
    for e in es:
        if e[0] == 'ref':
            out.append('<geneRef id="%s"%s/>' % (xml_escape(e[1]), (' LOFT="%s"' % xml_escape(e[2])) if e[2] else ''))
        elif e[0] == 'score':
            out.append('<score id="%s" value="%s"/>' % (xml_escape(e[1]), e[2]))
        elif e[0] == 'prop':
            out.append('<property name="%s" value="%s"/>' % (xml_escape(e[1]), xml_escape(e[2])))
        elif e[0] == 'og':
            a = ''
            if e[1] is not None:
                a += ' id="%s"' % xml_escape(e[1])
            if e[2] is not None:
                a += ' og="%s"' % xml_escape(e[2])
            body = xml_elems(e[3])
            out.append('<orthologGroup%s>%s</orthologGroup>' % (a, body) if body else '<orthologGroup%s/>' % a)
        else:
            a = (' og="%s"' % xml_escape(e[1])) if e[1] is not None else ''
            body = xml_elems(e[2])
            out.append('<paralogGroup%s>%s</paralogGroup>' % (a, body) if body else '<paralogGroup%s/>' % a)
    return ''.join(out)

DBSPLIT = [False]      # write the genes of a species in two <database> blocks (same meaning; set per dataset by core.load_py)

def orthoxml(species, groups, newlines=True, dbsplit=None, style=None):
    """style (all meaning-preserving): dbsplit = genes of a species in two <database> blocks; notes = <notes> elements
    holding foreign-namespace elements that are CALLED gene / geneRef / property; wrap = attributes separated by line
    breaks; latin1 = the XML declaration names ISO-8859-1 (for a document handed over as a Python string the declaration
    is irrelevant)"""
    style = style or {}
    nl = '\n' if newlines else ''
    if dbsplit is None:
        dbsplit = DBSPLIT[0] or bool(style.get('dbsplit'))
    s = '<?xml version="1.0" encoding="%s"?>' % ('ISO-8859-1' if style.get('latin1') else 'UTF-8') + nl
    s += '<orthoXML xmlns="http://orthoXML.org/2011/" version="0.3" origin="verif" originVersion="1">' + nl
    late = ''
    for si, (name, genes) in enumerate(species):
        if si in (style.get('late_species') or ()):
            # this <species> element is written AFTER the <groups> section (none of its genes is referenced)
            late += '<species name="%s" NCBITaxId="%s"><database name="d" version="1"><genes>' % (xml_escape(name), taxid_of(name)) + nl
            for gid, xr in genes:
                late += '<gene id="%s"%s/>' % (xml_escape(gid), ''.join(' %s="%s"' % (k, xml_escape(v)) for k, v in xr)) + nl
            late += '</genes></database></species>' + nl
            continue
        blocks = [genes[:len(genes) // 2], genes[len(genes) // 2:]] if (dbsplit and len(genes) >= 2) else [genes]
        s += '<species name="%s" NCBITaxId="%s">' % (xml_escape(name), taxid_of(name))
        for bi, block in enumerate(blocks):
            s += '<database name="d%d" version="1"><genes>' % bi + nl
            for gj, (gid, xr) in enumerate(block):
                s += '<gene id="%s"%s/>' % (xml_escape(gid), ''.join(' %s="%s"' % (k, xml_escape(v)) for k, v in xr)) + (nl if not (style.get('breaks') and gj % 3 != 2) else '')
            s += '</genes></database>'
        if style.get('notes'):
            s += '<notes>curated; see <c:gene xmlns:c="urn:curation" id="ZZ-not-a-gene" protId="zz"/></notes>'
        s += '</species>' + nl
    s += '<scores><scoreDef id="Completeness" desc="x"/></scores>' + nl
    s += '<groups>' + nl
    allrefs = [e[1] for g in groups for e in _flat_refs(g)]
    for gi, g in enumerate(groups):
        x = xml_elems([g])
        if style.get('notes') and g[0] == 'og' and allrefs:
            other = allrefs[(gi * 7 + 3) % len(allrefs)]
            note = ('<notes>checked against <c:geneRef xmlns:c="urn:curation" id="%s"/><c:property xmlns:c="urn:curation" '
                    'name="TaxRange" value="nowhere"/><c:score xmlns:c="urn:curation" id="bootstrap" value="0.5"/></notes>' % xml_escape(other))
            k = x.rfind('</orthologGroup>')
            if k >= 0:      # (an empty top-level group is written <orthologGroup/>: there is no inside to put a note into)
                x = x[:k] + note + x[k:]
        if style.get('breaks') and newlines:
            # line breaks INSIDE a group: before every annotation element and before every second member, so that lines start
            # with <property ...>, <score ...> or <geneRef ...> and go on with other elements (legal white space; r11-C11a / C01a:
            # line-oriented fast paths)
            x = x.replace('<property ', '\n<property ').replace('<score ', '\n<score ')
            parts = x.split('<geneRef ')
            x = parts[0] + ''.join((('\n' if i_ % 2 else '') + '<geneRef ' + q_) for i_, q_ in enumerate(parts[1:]))
        s += x + nl
    s += '</groups>' + nl + late + '</orthoXML>' + nl
    if style.get('wrap'):
        s = s.replace('" ', '"\n')
    return s

def _flat_refs(e):
    if e[0] == 'ref':
        return [e]
    if e[0] == 'og':
        return [r for x in e[3] for r in _flat_refs(x)]
    if e[0] == 'pg':
        return [r for x in e[2] for r in _flat_refs(x)]
    return []

def newick_named(T, p, naming):
    """Newick text of the subtree at path p with every node labelled by its display name (what ete3 writes with format=8)"""
    t = sub(T, p)
    nm = display_name(T, p, naming) or 'NoName'          # ete3's spelling of an unlabelled node
    if not t[1]:
        return nm
    return '(' + ','.join(newick_named(T, p + (i,), naming) for i in range(len(t[1]))) + ')' + nm

def phyloxml(T, leaf_tag='taxonomy_scientific_name', internal_tag='taxonomy_scientific_name', internal_names=True):
    def clade(t):
        leaf = not t[1]
        tag = leaf_tag if leaf else internal_tag
        s = '<clade>'
        if leaf or internal_names:
            if tag == 'clade_name':
                s += '<name>%s</name>' % xml_escape(t[0])
                # taxonomy element still present (pyham reads node.phyloxml_clade.taxonomy[0] only for the other tags)
            elif tag == 'taxonomy_scientific_name':
                s += '<taxonomy><scientific_name>%s</scientific_name></taxonomy>' % xml_escape(t[0])
            else:
                s += '<taxonomy><code>%s</code></taxonomy>' % xml_escape(t[0])
        for k in t[1]:
            s += clade(k)
        return s + '</clade>'
    return ('<?xml version="1.0" encoding="UTF-8"?>\n<phyloxml xmlns:xsi="http://www.w3.org/2001/XMLSchema-instance" '
            'xmlns="http://www.phyloxml.org" xsi:schemaLocation="http://www.phyloxml.org http://www.phyloxml.org/1.10/phyloxml.xsd">\n'
            '<phylogeny rooted="true">' + clade(T) + '</phylogeny>\n</phyloxml>\n')

# ---- s-expressions for the Lean driver

def q(s):
    return '"' + s.replace('\\', '\\\\').replace('"', '\\"') + '"'

def qo(s):
    return 'nil' if s is None else q(s)

def sx_tree(T):
    return '(n %s%s)' % (q(T[0]), ''.join(' ' + sx_tree(k) for k in T[1]))

def sx_tax(p):
    return '(' + ' '.join(str(i) for i in p) + ')'

def sx_elem(e):
    if e[0] == 'ref':
        return '(ref %s%s)' % (q(e[1]), (' ' + q(e[2])) if e[2] else '')
    if e[0] == 'score':
        return '(score %s %s)' % (q(e[1]), q(e[2]))
    if e[0] == 'prop':
        return '(prop %s %s)' % (q(e[1]), q(e[2]))
    if e[0] == 'og':
        return '(og %s %s%s)' % (qo(e[1]), qo(e[2]), ''.join(' ' + sx_elem(x) for x in e[3]))
    return '(pg %s%s)' % (qo(e[1]), ''.join(' ' + sx_elem(x) for x in e[2]))

def sx_sl(l):
    if l[0] == 'g':
        return '(g %s%s)' % (q(l[1]), (' ' + q(l[2])) if l[2] else '')
    _, w, hid, label, subs = l
    return '(grp %d %s %d%s)' % (1 if w else 0, qo(hid), 1 if label else 0, ''.join(' ' + sx_sub(s) for s in subs))

def sx_sub(s):
    if s[0] == 'one':
        return '(one %d %s)' % (s[1], sx_sl(s[2]))
    if s[0] == 'dup':
        return '(dup %d %s%s)' % (s[1], qo(s[2]), ''.join(' ' + sx_sl(c) for c in s[3]))
    return '(ann %s)' % sx_elem(s[1])

def sx_species(species):
    return ''.join(' (sp %s%s)' % (q(n), ''.join(' (gene %s%s)' % (q(g), ''.join(' (%s %s)' % (q(k), q(v)) for k, v in xr))
                                                  for g, xr in genes)) for n, genes in species)

def sx_case(cid, T, naming, species, groups, histories=(), emit=(), queries=()):
    s = '(case %s (tree %s) (naming %s) (species%s) (groups%s)' % (
        q(cid), sx_tree(T), naming, sx_species(species), ''.join(' ' + sx_elem(g) for g in groups))
    if histories:
        s += ' (histories%s)' % ''.join(' (%s %s)' % (sx_tax(p), sx_sl(l)) for p, l in histories)
    if emit:
        s += ' (emit %s)' % ' '.join(emit)
    if queries:
        s += ' (queries %s)' % ' '.join(queries)
    return s + ')'

def elem_raw(e):
    """same text as Driver.elemRaw"""
    def os(x):
        return 'None' if x is None else "'" + x + "'"
    if e[0] == 'ref':
        return '(ref ' + e[1] + ((' ' + e[2]) if e[2] else '') + ')'
    if e[0] == 'score':
        return '(score %s %s)' % (e[1], e[2])
    if e[0] == 'prop':
        return '(prop %s %s)' % (e[1], e[2])
    if e[0] == 'og':
        return '(og %s %s%s)' % (os(e[1]), os(e[2]), ''.join(' ' + elem_raw(x) for x in e[3]))
    return '(pg %s%s)' % (os(e[1]), ''.join(' ' + elem_raw(x) for x in e[2]))
