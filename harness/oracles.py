"""The properties themselves as executable predicates over pyham's objects (DESIGN 4.3).
They do not decide a property; they turn a broken correspondence / proof into a replayable
failing input.  Each returns a list of failing clauses (empty = holds on this case)."""
import collections, json, re, itertools
import gen, truth as tr
import observe as ob
from observe import pyham, ag, pathof, taxS, nodekey, gtax, leaves, all_nodes, genomes_of

def name_fn(D):
    return lambda p: gen.display_name(D.T, p, D.naming)

def truth_roots(D):
    # (the TaxRange labels of the file may be written with the tree's own names although the analysis synthesises its names)
    nf = (lambda p: gen.display_name(D.T, p, 'own')) if D.meta.get('labels_own') else name_fn(D)
    return [(tid, tr.truth(nf, p, l)) for p, l, tid in D.families]

def refs_of(elems):
    out = []
    for e in elems:
        if e[0] == 'ref':
            out.append(e[1])
        elif e[0] == 'og':
            out += refs_of(e[3])
        elif e[0] == 'pg':
            out += refs_of(e[2])
    return out

# ---------------------------------------------------------------------------------------- C01
def c01(D, h):
    bad = []
    decl = [(g, sp) for sp, genes in D.species for g, _ in genes]
    got = sorted((g.unique_id, g.genome.name) for g in h.get_list_extant_genes())
    if got != sorted(decl):
        bad.append('extant genes differ from the declarations: %s vs %s' % (got[:5], sorted(decl)[:5]))
    tops = h.get_dict_top_level_hogs()
    want_tops = {}
    for g in D.groups:
        if g[0] == 'og':
            want_tops[g[1]] = sorted(refs_of([g]))
    if set(tops) != set(want_tops) or len(tops) != len(want_tops):
        bad.append('top-level ids %s, expected %s' % (sorted(tops, key=str), sorted(want_tops, key=str)))
    seen = collections.Counter()
    for tid, top in tops.items():
        if top.is_singleton() is not False:
            bad.append('is_singleton() of the top-level HOG %s is %r' % (tid, top.is_singleton()))
        lst_ = top.get_all_descendant_genes()
        m = sorted(x.unique_id for x in lst_)
        seen.update(m)
        # the list handed out is the caller's: taking the query gene out of it, or pooling it with another list, does not
        # change the family (r9-C01a)
        spoil(lst_)
        if sorted(x.unique_id for x in top.get_all_descendant_genes()) != m:
            bad.append('members of %s change after the caller modified the list returned by get_all_descendant_genes()' % tid)
        if tid in want_tops and m != want_tops[tid]:
            bad.append('members of %s: %s, expected %s' % (tid, m, want_tops[tid]))
    for g, c in seen.items():
        if c != 1:
            bad.append('gene %s occurs %d times in the families' % (g, c))
    # ... and the analysis agrees when asked the other way round: the family of a member gene is the family that lists it
    for tid, top in tops.items():
        for x in top.get_all_descendant_genes()[:30]:
            try:
                if h.get_hog_by_gene(x) is not top:
                    bad.append('get_hog_by_gene(%s) is not the family %s that lists the gene' % (x.unique_id, tid))
            except Exception as e:      # noqa
                bad.append('get_hog_by_gene(%s) raised %s' % (x.unique_id, type(e).__name__))
    referenced = set(refs_of(D.groups))
    for g in h.get_list_extant_genes():
        if (g.unique_id not in referenced) != g.is_singleton():
            bad.append('singleton status of %s wrong' % g.unique_id)
        if g.unique_id not in referenced and g.parent is not None:
            bad.append('unreferenced gene %s has a parent' % g.unique_id)
    return bad

# ---------------------------------------------------------------------------------------- C02
def wf_problems(h, literal=False):
    """the predicate WF of the Lean development, evaluated on pyham's objects"""
    bad = []
    o = ob.Obs()
    for hid, top in h.get_dict_top_level_hogs().items():
        ob.forestS(top, o.problems)
        if top.parent is not None:
            bad.append('top-level HOG %s has a parent' % hid)
        for n in all_nodes(top):
            if isinstance(n, ag.Gene):
                if not n.genome.taxon.is_leaf():
                    bad.append('gene %s not at a leaf' % n.unique_id)
                continue
            if n.genome.taxon.is_leaf():
                bad.append('HOG at a leaf: %s' % nodekey(n))
            if len(n.children) < 1:
                bad.append('HOG without children: %s' % nodekey(n))
            for c in n.children:
                if c.genome is None or c.genome.taxon.up is not n.genome.taxon:
                    bad.append('child %s of %s is not one level below' % (nodekey(c), nodekey(n)))
            for d in n.duplications:
                if len(d.children) < 2:
                    bad.append('duplication with < 2 children at %s' % nodekey(n))
                if len(set(id(c.genome) for c in d.children)) != 1:
                    bad.append('duplication children at different taxa at %s' % nodekey(n))
                if d.MRCA is not n.genome:
                    bad.append('duplication level differs from its HOG at %s' % nodekey(n))
            for c in n.children:
                cnt = sum(1 for d in n.duplications for x in d.children if x is c)
                if (c.arose_by_duplication != False) != (cnt == 1) or cnt > 1:   # noqa: E712
                    bad.append('flag/event mismatch for child %s of %s' % (nodekey(c), nodekey(n)))
            # paralog discipline: per child taxon either one unflagged child or only flagged ones
            per = collections.defaultdict(list)
            for c in n.children:
                per[id(c.genome)].append(c)
            for cs in per.values():
                unfl = [c for c in cs if c.arose_by_duplication == False]    # noqa: E712
                if len(cs) > 1 and unfl and (not literal or len(unfl) < len(cs)):
                    # (literal: only the case the event clauses of C02 exclude -- a flagged and an unflagged child share
                    # a branch; several unflagged children on one branch violate the paralog discipline only)
                    bad.append('several children of %s at one child taxon, not all from a duplication' % nodekey(n))
                if len(set(id(c.arose_by_duplication) for c in cs if c.arose_by_duplication != False)) > 1:  # noqa
                    bad.append('two duplication events of %s on one branch' % nodekey(n))
    return bad + o.problems

def c02(D, h):
    return wf_problems(h)

# ---------------------------------------------------------------------------------------- C03
def skipped_levels_single_child(h):
    """C03 literally: every level the file skips between a HOG and a member is materialised as a single-child HOG
    (pyham marks the HOGs it creates for skipped levels with `_missing_in_xml`)"""
    bad = []
    for top in h.get_list_top_level_hogs():
        for n in all_nodes(top):
            if isinstance(n, ag.HOG) and hasattr(n, '_missing_in_xml') and len(n.children) != 1:
                bad.append('the HOG materialised for the skipped level %s has %d children' % (nodekey(n), len(n.children)))
    return bad

def no_orphans(h):
    """C04 literally, for any loaded file: each ancestral genome lists exactly the HOGs placed at its taxon that are
    reachable from a listed top-level HOG, each once (theorem C04_registration_exact holds for ANY successful load)"""
    bad = []
    per = collections.defaultdict(list)
    for top in h.get_list_top_level_hogs():
        for n in all_nodes(top):
            if isinstance(n, ag.HOG):
                per[id(n.genome)].append(n)
    for p, g in genomes_of(h).items():
        if g.taxon.is_leaf():
            continue
        if collections.Counter(map(id, g.genes)) != collections.Counter(map(id, per.get(id(g), []))):
            bad.append('ancestral genome at %s lists %d HOGs, %d are placed there and reachable from a top-level HOG' % (taxS(p), len(g.genes), len(per.get(id(g), []))))
    return bad

def c03(D, h):
    bad = skipped_levels_single_child(h)
    tops = h.get_dict_top_level_hogs()
    for tid, root in truth_roots(D):
        if tid not in tops:
            bad.append('family %s missing' % tid)
            continue
        probs = []
        got = ob.forestS(tops[tid], probs)
        want = tr.forestS(root)
        if got != want:
            bad.append('family %s differs from the top-down interpretation: got %s want %s' % (tid, got, want))
    return bad

# ---------------------------------------------------------------------------------------- C04
def c04(D, h):
    bad = []
    decl = collections.defaultdict(list)
    for sp, genes in D.species:
        for g, _ in genes:
            decl[sp].append(g)
    referenced = set(refs_of(D.groups))
    per_tax = collections.defaultdict(list)
    for top in h.get_list_top_level_hogs():
        for n in all_nodes(top):
            if isinstance(n, ag.HOG):
                per_tax[id(n.genome)].append(n)
    seen_nodes = set()
    for t in h.taxonomy.tree.traverse():
        if 'genome' not in t.features:
            continue
        g = t.genome
        if g.taxon is not t:
            bad.append('genome at %s bound to another node' % t.name)
        if id(t) in seen_nodes:
            bad.append('node visited twice')
        seen_nodes.add(id(t))
        if t.is_leaf():
            if sorted(x.unique_id for x in g.genes) != sorted(decl.get(t.name, [])):
                bad.append('extant genome %s lists %s, declared %s' % (t.name, sorted(x.unique_id for x in g.genes), sorted(decl.get(t.name, []))))
            if g.name != t.name:
                bad.append('extant genome name %s != leaf %s' % (g.name, t.name))
            nref = sum(1 for x in decl.get(t.name, []) if x in referenced)
            if g.get_number_genes() != len(decl.get(t.name, [])) or g.get_number_genes(singleton=False) != nref:
                bad.append('gene counts of extant genome %s: %s with / %s without singletons, declared %d / referenced %d' % (
                    t.name, g.get_number_genes(), g.get_number_genes(singleton=False), len(decl.get(t.name, [])), nref))
        else:
            want = per_tax.get(id(g), [])
            if collections.Counter(map(id, g.genes)) != collections.Counter(map(id, want)):
                bad.append('ancestral genome %s lists %d HOGs, %d placed there and reachable' % (t.name, len(g.genes), len(want)))
            if g.name != t.name:
                bad.append('ancestral genome name %r != node name %r' % (g.name, t.name))
            if g.get_number_genes() != len(want):
                bad.append('ancestral gene count at %s' % t.name)
    # number of ancestral genes = number of family lineages crossing the taxon (from the histories)
    cross = collections.Counter()
    for _, root in truth_roots(D):
        for n in tr.nodes(root):
            if n.gene is None:
                cross[n.tx] += 1
    for p, g in genomes_of(h).items():
        if not g.taxon.is_leaf() and len(g.genes) != cross.get(p, 0):
            bad.append('ancestral genes at %s: %d, lineages crossing: %d' % (taxS(p), len(g.genes), cross.get(p, 0)))
    for p, c in cross.items():
        if p not in genomes_of(h):
            bad.append('no genome at %s although %d lineages cross it' % (taxS(p), c))
    return bad

# ---------------------------------------------------------------------------------------- C05
def lineage_pairs(h):
    gs = genomes_of(h)
    ps = sorted(p for p, g in gs.items())
    return [(a, d) for a in ps for d in ps if len(a) < len(d) and d[:len(a)] == a], gs

def c05_pair(h, ga, gd):
    bad = []
    m = ob._PubView(h.compare_genomes_vertically(ga, gd))      # through get_lost / get_gained / get_retained / get_duplicated
    dl = [x for v in m.DUPLICATE.values() for x in v]
    if collections.Counter(map(id, gd.genes)) != collections.Counter(map(id, list(m.GAIN) + list(m.RETAINED.values()) + dl)):
        bad.append('descendant genome not partitioned (%s vs %s)' % (ga.name, gd.name))
    if collections.Counter(map(id, ga.genes)) != collections.Counter(map(id, list(m.LOSS) + list(m.RETAINED) + list(m.DUPLICATE))):
        bad.append('ancestral genome not partitioned (%s vs %s)' % (ga.name, gd.name))
    if len(gd.genes) != len(m.GAIN) + len(m.RETAINED) + len(dl):
        bad.append('descendant size identity (%s vs %s)' % (ga.name, gd.name))
    if len(ga.genes) != len(m.LOSS) + len(m.RETAINED) + len(m.DUPLICATE):
        bad.append('ancestor size identity (%s vs %s)' % (ga.name, gd.name))
    if m.ancestor is not ga or m.descendant is not gd:
        bad.append('ancestor/descendant roles wrong (%s vs %s)' % (ga.name, gd.name))
    # looking genes up in the returned dictionaries (a miss raises KeyError) changes nothing
    before = (set(map(id, m.DUPLICATE)), set(map(id, m.RETAINED)))
    v2 = h.compare_genomes_vertically(ga, gd)
    for x in list(ga.genes):
        for d_ in (v2.get_duplicated(), v2.get_retained()):
            try:
                d_[x]
            except KeyError:
                pass
    m2 = ob._PubView(h.compare_genomes_vertically(ga, gd))
    if (set(map(id, m2.DUPLICATE)), set(map(id, m2.RETAINED))) != before:
        bad.append('the comparison %s vs %s lists other ancestors after genes were looked up in its dictionaries' % (ga.name, gd.name))
    return bad

def c05(D, h, pairs=None):
    bad = []
    allp, gs = lineage_pairs(h)
    # "every gene of the descendant genome": for a species these are the genes the file declares for it (r14-C05b: genes skipped
    # from the genome's list are placed nowhere while the comparison's own numbers still add up)
    decl = {}
    loaded_ = set(h.get_dict_extant_genes())        # (a filtered analysis holds the selected genes only)
    for n_, gs_ in D.species:
        decl.setdefault(n_, []).extend(g_ for g_, _ in gs_ if g_ in loaded_)
    for a, d in (pairs if pairs is not None else allp):
        bad += c05_pair(h, gs[a], gs[d])
        if not gen.sub(D.T, d)[1] and gen.sub(D.T, d)[0] in decl:
            v = h.compare_genomes_vertically(gs[a], gs[d])
            placed = sorted([x.unique_id for x in v.get_gained()] + [x.unique_id for x in v.get_retained().values()] +
                            [x.unique_id for xs in v.get_duplicated().values() for x in xs])
            if placed != sorted(decl[gen.sub(D.T, d)[0]]):
                bad.append('comparison %s>%s places the genes %s, the species declares %s' % (taxS(a), taxS(d), placed[:8], sorted(decl[gen.sub(D.T, d)[0]])[:8]))
    return bad

# ---------------------------------------------------------------------------------------- C06
def c06(D, h, pairs=None):
    bad = []
    roots = [r for _, r in truth_roots(D)]
    ref = set(refs_of(D.groups))
    tx_of = {}
    for p in gen.paths(D.T):
        if not gen.sub(D.T, p)[1]:
            tx_of[gen.sub(D.T, p)[0]] = p
    singles = [(g, tx_of[sp]) for sp, genes in D.species for g, _ in genes if g not in ref]
    allp, gs = lineage_pairs(h)
    for a, d in (pairs if pairs is not None else allp):
        v = h.compare_genomes_vertically(gs[a], gs[d])
        got = ob.vmapS(v).rsplit('|', 1)[0]
        want = tr.classify(roots, singles, a, d)
        if got != want:
            bad.append('classification %s>%s differs from the generating history: got %s want %s' % (taxS(a), taxS(d), got, want))
        # gained = the family is younger than the ancestral genome (theorem C06_gained_iff_family_younger): the gained genes are
        # the members of the descendant genome whose top-level HOG (the gene itself for a singleton) sits strictly below `a`
        try:
            def root_path(x):
                while x.parent is not None:
                    x = x.parent
                return ob.gtax(x)
            young = set(id(x) for x in gs[d].genes if not (len(root_path(x)) <= len(a)))
            if set(id(x) for x in v.get_gained()) != young:
                bad.append('comparison %s>%s: the gained genes are not the members of the descendant genome whose family is rooted strictly below the ancestor' % (taxS(a), taxS(d)))
        except Exception as e:         # noqa
            bad.append('reading the family roots of %s raised %s' % (taxS(d), type(e).__name__))
        try:
            n = v.get_number_duplications()
            if n != sum(len(x) - 1 for x in v.get_duplicated().values()):
                bad.append('number of duplications != sum(copies-1) for %s>%s' % (taxS(a), taxS(d)))
        except Exception as e:         # noqa
            bad.append('get_number_duplications raised %s' % type(e).__name__)
    return bad

# ---------------------------------------------------------------------------------------- C07
def lineage_triples(h):
    gs = genomes_of(h)
    ps = sorted(gs)
    return [(a, b, c) for a in ps for b in ps for c in ps
            if len(a) < len(b) < len(c) and b[:len(a)] == a and c[:len(b)] == b], gs

def c07(D, h, triples=None):
    bad = []
    allt, gs = lineage_triples(h)
    for a, b, c in (triples if triples is not None else allt):
        ac = h.compare_genomes_vertically(gs[a], gs[c]).map
        bc = h.compare_genomes_vertically(gs[b], gs[c]).map
        ab = h.compare_genomes_vertically(gs[a], gs[b]).map
        for g in gs[c].genes:
            x1, f1 = ac.upMap[g]; y, f2 = bc.upMap[g]
            if y is None:
                exp = (None, None)
            else:
                xx, f3 = ab.upMap[y]
                exp = (xx, bool(f2) or bool(f3)) if xx is not None else (None, None)
            if exp[0] is not x1 or (x1 is not None and bool(f1) != exp[1]):
                bad.append('composition fails for %s along %s>%s>%s' % (nodekey(g), taxS(a), taxS(b), taxS(c)))
        # consequences on the cluster level
        gain_ac = set(map(id, ac.GAIN))
        chained = set(id(g) for g in gs[c].genes if bc.upMap[g][0] is None or ab.upMap[bc.upMap[g][0]][0] is None)
        if gain_ac != chained:
            bad.append('gains over %s>%s not determined by chaining through %s' % (taxS(a), taxS(c), taxS(b)))
        dup_ac = set(id(g) for v in ac.DUPLICATE.values() for g in v)
        dup_chained = set(id(g) for g in gs[c].genes if bc.upMap[g][0] is not None and ab.upMap[bc.upMap[g][0]][0] is not None
                          and (bool(bc.upMap[g][1]) or bool(ab.upMap[bc.upMap[g][0]][1])))
        if dup_ac != dup_chained:
            bad.append('duplicated set over %s>%s not determined by chaining through %s' % (taxS(a), taxS(c), taxS(b)))
        ret_ac = set(id(g) for g in ac.RETAINED.values())
        ret_chained = set(id(g) for g in gs[c].genes if bc.upMap[g][0] is not None and ab.upMap[bc.upMap[g][0]][0] is not None
                          and not (bool(bc.upMap[g][1]) or bool(ab.upMap[bc.upMap[g][0]][1])))
        if ret_ac != ret_chained:
            bad.append('retained set over %s>%s not determined by chaining through %s' % (taxS(a), taxS(c), taxS(b)))
        lost_ac = set(map(id, ac.LOSS))
        reach = set(id(ab.upMap[bc.upMap[g][0]][0]) for g in gs[c].genes if bc.upMap[g][0] is not None and ab.upMap[bc.upMap[g][0]][0] is not None)
        if lost_ac != set(map(id, gs[a].genes)) - reach:
            bad.append('losses over %s>%s not determined by chaining through %s' % (taxS(a), taxS(c), taxS(b)))
    return bad

# ---------------------------------------------------------------------------------------- C08
def vres(m):
    return ob.hmapS(m)

def c08(D, h, pairs=None):
    bad = []
    gs = genomes_of(h)
    ps = sorted(gs)
    allp = [(x, y) for i, x in enumerate(ps) for y in ps[i + 1:]]
    for x, y in (pairs if pairs is not None else allp):
        gx, gy = gs[x], gs[y]
        anc = gen.lcp([x, y])
        on_lineage = anc == x or anc == y
        res = []
        if not on_lineage:
            # refused with TypeError -- asked BEFORE any lateral comparison gives the common ancestor a genome (r13-C08b: an error
            # message that reads the name of that genome)
            for g1, g2 in ((gx, gy), (gy, gx)):
                try:
                    h.compare_genomes_vertically(g1, g2)
                    bad.append('vertical comparison accepted genomes not on one lineage: %s,%s' % (taxS(x), taxS(y)))
                except TypeError:
                    pass
                except Exception as e:      # noqa
                    bad.append('vertical comparison of %s,%s (not on one lineage) raised %s, not TypeError' % (taxS(x), taxS(y), type(e).__name__))
        for g1, g2 in ((gx, gy), (gy, gx)):
            lm = h.compare_genomes_lateral(g1, g2)
            if pathof(lm.ancestor.taxon) != anc:
                bad.append('lateral reference is not the MRCA for %s,%s' % (taxS(x), taxS(y)))
            per = {}
            for g in (g1, g2):
                if pathof(g.taxon) == anc:
                    continue
                vm = ob._PubView(h.compare_genomes_vertically(lm.ancestor, g))
                lost = sorted(nodekey(k) for k, v in lm.get_lost().items() if any(z is g for z in v))
                gained = sorted(nodekey(k) for k in lm.get_gained().get(g, []))
                ret = sorted((nodekey(k), nodekey(v[g])) for k, v in lm.get_retained().items() if g in v)
                dup = sorted((nodekey(k), sorted(nodekey(z) for z in v[g])) for k, v in lm.get_duplicated().items() if g in v)
                vv = (sorted(nodekey(k) for k in vm.LOSS), sorted(nodekey(k) for k in vm.GAIN),
                      sorted((nodekey(k), nodekey(v)) for k, v in vm.RETAINED.items()),
                      sorted((nodekey(k), sorted(nodekey(z) for z in v)) for k, v in vm.DUPLICATE.items()))
                if (lost, gained, ret, dup) != vv:
                    bad.append('lateral %s,%s restricted to %s differs from the vertical comparison' % (taxS(x), taxS(y), taxS(pathof(g.taxon))))
                per[pathof(g.taxon)] = (lost, gained, ret, dup)
            extra = set(map(id, lm.get_gained())) - set(id(g) for g in (g1, g2))
            if extra:
                bad.append('lateral map reports a genome that was not compared')
            res.append(per)
        if res[0] != res[1]:
            bad.append('lateral comparison depends on argument order for %s,%s' % (taxS(x), taxS(y)))
        if on_lineage:
            r1 = ob.vmapS(h.compare_genomes_vertically(gx, gy)); r2 = ob.vmapS(h.compare_genomes_vertically(gy, gx))
            if r1 != r2:
                bad.append('vertical comparison depends on argument order for %s,%s' % (taxS(x), taxS(y)))
        else:
            for g1, g2 in ((gx, gy), (gy, gx)):
                try:
                    h.compare_genomes_vertically(g1, g2)
                    bad.append('vertical comparison accepted genomes not on one lineage: %s,%s' % (taxS(x), taxS(y)))
                except TypeError:
                    pass
                except Exception as e:      # noqa
                    bad.append('vertical comparison off-lineage raised %s, not TypeError' % type(e).__name__)
    return bad

# ---------------------------------------------------------------------------------------- C09
def html_tree_data(path):
    s = open(path).read()
    m = re.search(r"treeData = '(.*)';", s)
    return json.loads(m.group(1))

def c09(D, h, tmpdir):
    bad = []
    try:
        tp = h.create_tree_profile()
    except Exception as e:      # noqa
        return ['whole-dataset tree profile raised %s: %s' % (type(e).__name__, e)]
    tm = tp.treemap
    gs = genomes_of(h)
    for nd in tm.traverse():
        p = ob.pathof_rel(nd)
        size = len(gs[p].genes) if p in gs else 0
        if nd.nbr_genes != size:
            bad.append('nbr_genes at %s is %s, genome has %d' % (taxS(p), nd.nbr_genes, size))
        if nd.is_root():
            for k in ('dupl', 'lost', 'gain', 'retained', 'duplication'):
                if getattr(nd, k) is not None:
                    bad.append('root carries %s' % k)
            continue
        if nd.nbr_genes != nd.retained + nd.dupl + nd.gain:
            bad.append('genes(child) != retained+duplicated+gained at %s' % taxS(p))
        if nd.nbr_genes != nd.up.nbr_genes + nd.gain + nd.duplication - nd.lost:
            bad.append('genes(child) != genes(parent)+gained+duplications-lost at %s' % taxS(p))
        if p in gs and p[:-1] in gs:
            m = h.compare_genomes_vertically(gs[p], gs[p[:-1]]).map
            want = (sum(len(v) for v in m.DUPLICATE.values()), len(m.LOSS), len(m.GAIN), len(m.RETAINED), m.number_duplication)
            if (nd.dupl, nd.lost, nd.gain, nd.retained, nd.duplication) != want:
                bad.append('profile at %s differs from the vertical comparison with its parent' % taxS(p))
    out = tmpdir + '/tp.html'
    try:
        # through the public entry point (create_tree_profile(outfile=..., as_html=True)), then once more directly
        h.create_tree_profile(outfile=out, as_html=True)
        data = html_tree_data(out)
        tp.export_as_html(out + '.2')
        if html_tree_data(out + '.2') != data:
            bad.append('create_tree_profile(outfile, as_html=True) and export_as_html write different trees')
        def walk(j, nd):
            if j['numberGenes'] != nd.nbr_genes:
                bad.append('HTML numberGenes differs at %s' % nd.name)
            ev = j['evolutionaryEvents']
            if nd.is_root():
                if ev is not False:
                    bad.append('HTML root carries events')
            else:
                if (ev['retained'], ev['duplicated'], ev['gained'], ev['lost'], ev['duplication']) != (nd.retained, nd.dupl, nd.gain, nd.lost, nd.duplication):
                    bad.append('HTML events differ at %s' % nd.name)
            ch = j.get('children', [])
            if len(ch) != len(nd.children):
                bad.append('HTML children differ at %s' % nd.name)
            for a, b in zip(ch, nd.children):
                walk(a, b)
        walk(data, tm)
    except Exception as e:      # noqa
        bad.append('HTML export failed: %s %s' % (type(e).__name__, e))
    return bad

# ---------------------------------------------------------------------------------------- C10
def c10(D, h):
    bad = []
    try:
        full = h.create_tree_profile().treemap
    except Exception as e:      # noqa
        return ['whole-dataset tree profile raised %s' % type(e).__name__]
    acc = collections.defaultdict(collections.Counter)
    # every per-family profile is built first and kept (as a user summing them would), then read
    held = [(tid, top, h.create_tree_profile(hog=top)) for tid, top in h.get_dict_top_level_hogs().items()]
    for tid, top, tph in held:
        root = pathof(top.genome.taxon)
        tm = tph.treemap
        acc[root]['gain'] += 1
        # correctness of the per-family numbers, from the family's own nodes
        per = collections.defaultdict(list)
        for n in all_nodes(top):
            per[gtax(n)].append(n)
        for nd in tm.traverse():
            p = root + ob.pathof_rel(nd)
            mem = per.get(p, [])
            acc[p]['nbr_genes'] += nd.nbr_genes
            if nd.nbr_genes != len(mem):
                bad.append('family %s: nbr_genes at %s is %s, family has %d members there' % (tid, taxS(p), nd.nbr_genes, len(mem)))
            if nd.is_root():
                continue
            dupl = sum(1 for x in mem if x.arose_by_duplication != False)    # noqa: E712
            lost = sum(1 for x in per.get(p[:-1], []) if not any(gtax(c) == p for c in x.children))
            if (nd.dupl, nd.retained, nd.lost) != (dupl, len(mem) - dupl, lost):
                bad.append('family %s: dupl/retained/lost at %s are %s, expected %s' % (tid, taxS(p), (nd.dupl, nd.retained, nd.lost), (dupl, len(mem) - dupl, lost)))
            for kk in ('dupl', 'lost', 'retained', 'duplication'):
                acc[p][kk] += getattr(nd, kk)
    ref = set(refs_of(D.groups))
    for g in h.get_list_extant_genes():
        if g.parent is None:
            acc[gtax(g)]['gain'] += 1
            acc[gtax(g)]['nbr_genes'] += 1
    for nd in full.traverse():
        p = ob.pathof_rel(nd)
        if nd.is_root():
            if nd.nbr_genes != acc[p]['nbr_genes']:
                bad.append('sum of family profiles differs at the root (nbr_genes)')
            continue
        for kk in ('nbr_genes', 'dupl', 'lost', 'retained', 'gain', 'duplication'):
            if getattr(nd, kk) != acc[p][kk]:
                bad.append('sum of family profiles differs at %s for %s: %s vs %s' % (taxS(p), kk, acc[p][kk], getattr(nd, kk)))
    return bad

# ---------------------------------------------------------------------------------------- C16
def spoil(x):
    """what a caller may do to a container it was handed"""
    try:
        if isinstance(x, list):
            x.append(x[0] if x else None); x.reverse()
        elif isinstance(x, dict):
            for k in list(x):
                v = x[k]
                if isinstance(v, list):
                    v.clear()
            x.clear()
        elif isinstance(x, set):
            x.clear()
    except Exception:      # noqa
        pass

def fresh_results(calls):
    """calls: [(description, function returning a container, function rendering it)].  On the unchanged tree each of these
    accessors hands out a container of its own; modifying it must not change what the next call returns."""
    bad = []
    for what, f, render in calls:
        try:
            r1 = f(); before = render(r1)
            # the result is a real container: it has a length and can be read more than once
            if render(r1) != before or len(r1) != len(list(r1)):
                bad.append('%s returns something that cannot be read twice' % what)
            spoil(r1)
            if render(f()) != before:
                bad.append('%s returns something else after the caller modified the container it was given' % what)
        except Exception as e:      # noqa
            bad.append('%s raised %s' % (what, type(e).__name__))
    return bad

def c16(D, h):
    bad = []
    gs = genomes_of(h) if not D.meta.get('species_level') else {}     # (D7: the flag-dependent clauses are not checked on species-level files)
    ids = lambda xs: sorted(map(id, xs))
    for top in h.get_list_top_level_hogs()[:3]:
        bad += fresh_results([
            ('get_all_descendant_genes of %s' % nodekey(top), top.get_all_descendant_genes, ids),
            ('get_all_descendant_hogs of %s' % nodekey(top), top.get_all_descendant_hogs, ids),
            ('get_all_descendant_hog_levels of %s' % nodekey(top), top.get_all_descendant_hog_levels, ids),
            ('get_all_descendant_genes_clustered_by_species of %s' % nodekey(top), top.get_all_descendant_genes_clustered_by_species,
             lambda d: sorted((id(k), ids(v)) for k, v in d.items()))])
    for tid, top in h.get_dict_top_level_hogs().items():
        fam = list(all_nodes(top))
        for n in fam:
            if n.get_top_level_hog() is not top:
                bad.append('%s reports another top-level HOG' % nodekey(n))
            if isinstance(n, ag.Gene):
                # ... also through the analysis: the family of a member gene is the family that lists it
                try:
                    if h.get_hog_by_gene(n) is not top:
                        bad.append('get_hog_by_gene(%s) is not the top-level HOG the gene sits in' % n.unique_id)
                except Exception as e:      # noqa
                    bad.append('get_hog_by_gene(%s) raised %s' % (n.unique_id, type(e).__name__))
            if not isinstance(n, ag.HOG):
                continue
            sub_nodes = list(all_nodes(n))
            dg = n.get_all_descendant_genes()
            if collections.Counter(map(id, dg)) != collections.Counter(id(x) for x in sub_nodes if isinstance(x, ag.Gene)):
                bad.append('descendant genes of %s' % nodekey(n))
            bysp = n.get_all_descendant_genes_clustered_by_species()
            flat = [x for v in bysp.values() for x in v]
            if collections.Counter(map(id, flat)) != collections.Counter(map(id, dg)) or any(x.genome is not sp for sp, v in bysp.items() for x in v):
                bad.append('per-species clustering of %s' % nodekey(n))
            dh = n.get_all_descendant_hogs()
            if collections.Counter(map(id, dh)) != collections.Counter(id(x) for x in sub_nodes if isinstance(x, ag.HOG)):
                bad.append('descendant hogs of %s' % nodekey(n))
            lv = n.get_all_descendant_hog_levels()
            if collections.Counter(map(id, lv)) != collections.Counter(id(x.genome) for x in dh):
                bad.append('descendant levels of %s' % nodekey(n))
    for p, g in gs.items():
        if not g.taxon.is_leaf() and g.genes:
            cl = g.get_ancestral_clustering()
            seen = collections.Counter()
            if collections.Counter(map(id, cl)) != collections.Counter(map(id, g.genes)):
                bad.append('ancestral clustering keys at %s' % taxS(p))
            for k, v in cl.items():
                seen.update(map(id, v))
                if sorted(x.unique_id for x in v) != sorted(leaves(k)):
                    bad.append('ancestral clustering of %s' % nodekey(k))
            if any(c > 1 for c in seen.values()):
                bad.append('ancestral clustering at %s not disjoint' % taxS(p))
    return bad

def c16_views(h):
    """the four views of every HOG describe the subtree its children links span (used after an edit through the public API)"""
    bad = []
    for tid, top in h.get_dict_top_level_hogs().items():
        for n in all_nodes(top):
            if not isinstance(n, ag.HOG):
                continue
            sub_nodes = list(all_nodes(n))
            dg = n.get_all_descendant_genes()
            if collections.Counter(map(id, dg)) != collections.Counter(id(x) for x in sub_nodes if isinstance(x, ag.Gene)):
                bad.append('descendant genes of %s' % nodekey(n))
            bysp = n.get_all_descendant_genes_clustered_by_species()
            flat = [x for v in bysp.values() for x in v]
            if collections.Counter(map(id, flat)) != collections.Counter(map(id, dg)) or any(x.genome is not sp for sp, v in bysp.items() for x in v):
                bad.append('per-species clustering of %s' % nodekey(n))
            dh = n.get_all_descendant_hogs()
            if collections.Counter(map(id, dh)) != collections.Counter(id(x) for x in sub_nodes if isinstance(x, ag.HOG)):
                bad.append('descendant hogs of %s' % nodekey(n))
            lv = n.get_all_descendant_hog_levels()
            if collections.Counter(map(id, lv)) != collections.Counter(id(x.genome) for x in dh):
                bad.append('descendant levels of %s' % nodekey(n))
    # (the ancestral clustering of a genome is a documented lazy attribute of the unchanged code, computed once: it is not
    # part of this re-check)
    return bad[:6]

def c16_atlevel(h, member, genome):
    """expected result of member.get_at_level(genome) from the family's nodes"""
    top = member.get_top_level_hog()
    want = [x for x in all_nodes(top) if x.genome is genome] if isinstance(top, ag.HOG) else []
    try:
        got = member.get_at_level(genome)
    except KeyError:
        got = KeyError
    except Exception as e:     # noqa
        return ['get_at_level raised %s' % type(e).__name__], 'err:' + ob.err_name(e)
    if not want or any(x is member for x in want):
        if got is not KeyError:
            return ['get_at_level(%s) on %s should raise KeyError' % (genome.name, nodekey(member))], 'ok'
        return [], 'err:KeyError'
    if got is KeyError:
        return ['get_at_level(%s) on %s raised KeyError' % (genome.name, nodekey(member))], 'err:KeyError'
    if collections.Counter(map(id, got)) != collections.Counter(map(id, want)):
        return ['get_at_level(%s) on %s returned wrong members' % (genome.name, nodekey(member))], ob.keysS(got)
    return [], ob.keysS(got)
