"""run under a given PYTHONHASHSEED: load every dataset of the JSON list on stdin, print one canonical analysis per line"""
import sys, os, json
sys.path.insert(0, os.path.dirname(os.path.abspath(__file__)))
import observe as ob
from observe import pyham
import props2
for d in json.load(sys.stdin):
    try:
        h = pyham.Ham(tree_file=d['nwk'], hog_file=d['xml'], orthoXML_as_string=True, use_internal_name=d['own'])
        c, _ = props2.canon_analysis(h, with_orders=True)
        print(json.dumps(c, sort_keys=True))
    except Exception as e:      # noqa
        print(json.dumps(dict(error=type(e).__name__)))
