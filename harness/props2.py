"""C13 (equivalent ways of supplying the data), C14 (spelling independence), C15 (lookups),
C17 (call-history independence), C18 (taxonomy)."""
import os, sys, random, collections, json, gzip, io, re, subprocess, itertools
import gen, core, oracles as orc, truth as tr
import observe as ob
from observe import pyham, ag, pathof, taxS, nodekey, gtax, genomes_of, all_nodes, leaves
from props import Explorer, budget, std_dataset, respell, load_or_fail, tax_q, histories, nontrivial
import props

# ------------------------------------------------------------------------------ helpers

def canon_analysis(h, pairs=None, with_profiles=True, with_names=False, with_orders=False):
    """name-free canonical description of a loaded analysis and of its comparison results"""
    o = ob.Obs()
    ob.observe_load(h, o)
    out = {'forest': sorted(x.split('=', 1)[1] for x in o.get('forest')),
           'members': o.get('members'), 'genes': o.get('genes'), 'genomes': o.get('genomes'),
           'problems': list(o.problems)}
    if with_orders:
        # orders that follow the file (not compared between re-orderings of the file, but they must not depend on the
        # hash seed): genes listed per cross-reference value, listings of genes / families / genomes
        out['order_xref'] = sorted((v, [g.unique_id for g in gs]) for v, gs in
                                   ((v, h.get_genes_by_external_id(v)) for v in list(h.external_id_mapper)))
        out['order_genes'] = [g.unique_id for g in h.get_list_extant_genes()]
        out['order_tops'] = [str(k) for k in h.get_dict_top_level_hogs()]
        out['order_genome_genes'] = sorted((g.name, [x.unique_id for x in g.genes]) for g in h.get_list_extant_genomes())
    if with_names:
        out['agname'] = o.get('agname')
    gs = genomes_of(h)
    allp = [(a, d) for a in sorted(gs) for d in sorted(gs) if len(a) < len(d) and d[:len(a)] == a and gs[a].genes and gs[d].genes]
    use = allp if pairs is None else [p for p in pairs if p[0] in gs and p[1] in gs]
    out['vmap'] = sorted(ob.vmapS(h.compare_genomes_vertically(gs[a], gs[d])) for a, d in use)
    if with_profiles:
        # all profiles are computed first and kept, then read: a profile must not change when later ones are built
        full = h.create_tree_profile()
        held = [(t, h.create_tree_profile(hog=t)) for t in h.get_list_top_level_hogs()]
        out['tpfull'] = ob.profileS(full.treemap)
        out['tphog'] = sorted(ob.profileS(tp.treemap, pathof(t.genome.taxon)) + '@' + nodekey(t) for t, tp in held)
        # ... and of the copies of duplications (paralogous sub-HOGs, written out or implied: same level, possibly the same
        # inherited id -- r11-C14b), asked one after the other on this analysis
        copies = sorted([x for t in h.get_list_top_level_hogs() for x in all_nodes(t) if isinstance(x, ag.HOG) and x.arose_by_duplication != False], key=nodekey)[:8]   # noqa: E712
        out['tpcopies'] = sorted(ob.profileS(h.create_tree_profile(hog=x).treemap, pathof(x.genome.taxon)) + '@' + nodekey(x) for x in copies)
    return out, allp

def first_diff(a, b):
    for k in a:
        if a[k] != b.get(k):
            return k
    return None

# ------------------------------------------------------------------------------------ C13

def c13(tier, seed):
    ex = Explorer('C13', tier, seed)
    n = budget(tier, 25)
    leaf_tags = ['clade_name', 'taxonomy_scientific_name', 'taxonomy_code']
    for k in range(n):
        # (synthesised names need arity >= 2: a sixth of the cases has unary levels and is loaded with the tree's own names only --
        # r12-C13b: single-child clades dropped on the PhyloXML route)
        unary13 = ex.rng.random() < 0.17
        D = std_dataset(ex.rng, naming='own', maxleaves=ex.rng.choice([3, 4, 5, 6, 8]), no_unary=not unary13,
                        **(dict(P=dict(props.mix_params(ex.rng), unary_trees=1.0)) if unary13 else {}))
        unary13 = gen.has_unary(D.T)
        if unary13:
            ex.res.count('trees_with_unary_levels')
        cid = 'C13-%d' % k
        ex.note_dataset(D)
        if ex.rng.random() < 0.4:
            # TaxRange labels that name a clade ABOVE the level the members imply (e.g. after losses): the level rule
            # ignores the label, so the way ancestral names are supplied must still make no difference
            name_to_path = {gen.display_name(D.T, p, 'own'): p for p in gen.paths(D.T) if gen.sub(D.T, p)[1]}
            changed = [0]
            def relabel(e):
                if e[0] == 'og':
                    items = []
                    for x in e[3]:
                        if x[0] == 'prop' and x[1] == 'TaxRange' and x[2] in name_to_path and name_to_path[x[2]] and ex.rng.random() < 0.5:
                            q_ = name_to_path[x[2]]
                            up = q_[:ex.rng.randint(0, len(q_) - 1)]
                            items.append(('prop', 'TaxRange', gen.display_name(D.T, up, 'own'))); changed[0] += 1
                        else:
                            items.append(relabel(x))
                    return ('og', e[1], e[2], items)
                if e[0] == 'pg':
                    return ('pg', e[1], [relabel(x) for x in e[2]])
                return e
            D.groups = [relabel(g) for g in D.groups]
            if changed[0]:
                D.meta['mislabelled'] = changed[0]
                ex.res.count('cases_with_labels_above_the_level', 1)
        quoted = ex.rng.random() < 0.5          # every label in single quotes: the same tree for every route
        base = load_or_fail(ex, cid, D)
        if base is None:
            continue
        ref, allp = canon_analysis(base)
        pairs = allp if len(allp) <= 12 else ex.rng.sample(allp, 12)
        ref, _ = canon_analysis(base, pairs)
        ex.res.count('newick_labels_quoted' if quoted else 'newick_labels_plain')
        nwk = core.nwk_of(D, quoted=quoted); nwk_noint = core.nwk_of(D, with_internal=False, quoted=quoted)
        xml_lines = gen.orthoxml(D.species, D.groups, newlines=True)
        xml_one = gen.orthoxml(D.species, D.groups, newlines=False)
        d = os.path.join(ex.tmp, 'c13'); os.makedirs(d, exist_ok=True)
        paths = {}
        with open(os.path.join(d, 't.nwk'), 'w') as f: f.write(nwk)
        with open(os.path.join(d, 't_noint.nwk'), 'w') as f: f.write(nwk_noint)
        with open(os.path.join(d, 't.phyloxml'), 'w') as f: f.write(phyloxml_all(D.T))
        with open(os.path.join(d, 'x.orthoxml'), 'w') as f: f.write(xml_lines)
        with open(os.path.join(d, 'x1.orthoxml'), 'w') as f: f.write(xml_one)
        with gzip.open(os.path.join(d, 'x.orthoxml.gz'), 'wt') as f: f.write(xml_lines)
        # a gzip file made of several members (cat a.gz b.gz, pigz -i, bgzip): the first member ends inside the document
        raw = xml_lines.encode()
        cut1, cut2 = len(raw) // 3, 2 * len(raw) // 3
        with open(os.path.join(d, 'xm.orthoxml.gz'), 'wb') as f:
            f.write(gzip.compress(raw[:cut1]) + gzip.compress(raw[cut1:cut2]) + gzip.compress(raw[cut2:]))
        # the same document made large (> 1 MiB, many lines, one very long line) with XML comments only
        pad = ''.join('<!-- padding line %06d %s -->\n' % (i, 'x' * 40) for i in range(22000)) + '<!-- ' + 'y' * 200000 + ' -->\n'
        xml_big = xml_lines.replace('<groups>', pad + '<groups>', 1)
        with open(os.path.join(d, 'xbig.orthoxml'), 'w') as f: f.write(xml_big)
        configs = []
        for tree_kind in ('newick_string', 'newick', 'newick_noint') + (('phyloxml',) if D.T[0] != '' and not D.meta.get('no_phyloxml') else ()):
            for naming in ('own', 'synth'):
                if tree_kind == 'newick_noint' and naming == 'own':
                    continue
                if unary13 and naming == 'synth':
                    continue
                for transport in ('string', 'string1', 'file', 'file1', 'gz', 'gzmulti', 'bigfile', 'bigstring'):
                    for prog in (False, True):
                        tags = leaf_tags if tree_kind == 'phyloxml' else [None]
                        for lt in tags:
                            for it in tags:          # (with synthesised names the internal tag is still read by the name checks)
                                configs.append((tree_kind, naming, transport, prog, lt, it))
        if tier == 'quick':
            # covering selection: every value of every dimension at least once, plus random ones
            ex.rng.shuffle(configs)
            chosen = []; seen = set()
            for c in configs:
                vals = set((i, v) for i, v in enumerate(c))
                if not vals <= seen or len(chosen) < 14:
                    chosen.append(c); seen |= vals
                if len(chosen) >= 18:
                    break
            configs = chosen
        bad = []
        import contextlib
        ftid = None; ref_f = None
        tids_ = [t for _, _, t in D.families]
        gids13 = set(g_ for _, gs_ in D.species for g_, _ in gs_)
        if tids_ and all(t is not None for t in tids_):
            both_ = [t for t in tids_ if t in gids13]            # a family id that is also a gene id (numeric ids)
            ftid = ex.rng.choice(both_ or tids_)
            try:
                f0_ = pyham.ParserFilter(); f0_.add_hogs_via_hogId([ftid])
                c0_, _ = canon_analysis(core.load_py(D, filter_object=f0_), [], with_profiles=False)
                ref_f = {k_: c0_[k_] for k_ in ('forest', 'members', 'genes')}
            except Exception as e:      # noqa
                ftid = None
        for (tree_kind, naming, transport, prog, lt, it) in configs:
            ex.res.count('configs')
            ex.res.count('cfg_tree_' + tree_kind); ex.res.count('cfg_transport_' + transport)
            kw = dict(use_internal_name=(naming == 'own'), with_parser_progress=prog)
            if tree_kind == 'newick_string':
                kw.update(tree_file=nwk, tree_format='newick_string')
            elif tree_kind == 'newick':
                kw.update(tree_file=os.path.join(d, 't.nwk'), tree_format='newick')
            elif tree_kind == 'newick_noint':
                kw.update(tree_file=os.path.join(d, 't_noint.nwk'), tree_format='newick')
            else:
                kw.update(tree_file=os.path.join(d, 't.phyloxml'), tree_format='phyloxml', phyloxml_leaf_name_tag=lt, phyloxml_internal_name_tag=it)
                if ex.rng.random() < 0.6:
                    # only the chosen tags carry the names of this tree, the others carry other texts (r10-C13a: the tags
                    # must reach every place that re-reads the file)
                    pxd_ = os.path.join(d, 't_%s_%s.phyloxml' % (lt, it))
                    with open(pxd_, 'w') as f_:
                        f_.write(phyloxml_decoy(D.T, lt, it, bare_internal=(naming == 'synth' and ex.rng.random() < 0.5)))
                    kw.update(tree_file=pxd_); ex.res.count('phyloxml_with_other_texts_in_the_unused_tags')
            if transport == 'string':
                kw.update(hog_file=xml_lines, orthoXML_as_string=True)
            elif transport == 'string1':
                kw.update(hog_file=xml_one, orthoXML_as_string=True)
            elif transport == 'file':
                kw.update(hog_file=os.path.join(d, 'x.orthoxml'))
            elif transport == 'file1':
                kw.update(hog_file=os.path.join(d, 'x1.orthoxml'))
            elif transport == 'bigfile':
                kw.update(hog_file=os.path.join(d, 'xbig.orthoxml'))
            elif transport == 'gzmulti':
                kw.update(hog_file=os.path.join(d, 'xm.orthoxml.gz'))
            elif transport == 'bigstring':
                kw.update(hog_file=xml_big, orthoXML_as_string=True)
            else:
                kw.update(hog_file=os.path.join(d, 'x.orthoxml.gz'))
            try:
                import contextlib
                with contextlib.redirect_stderr(io.StringIO()):
                    h2 = pyham.Ham(**kw)
                    got, _ = canon_analysis(h2, pairs)
            except Exception as e:      # noqa
                bad.append('configuration %s raised %s: %s' % ((tree_kind, naming, transport, prog, lt, it), type(e).__name__, e))
                continue
            k2 = first_diff(ref, got)
            if k2:
                bad.append('configuration %s differs from the reference load in %s' % ((tree_kind, naming, transport, prog, lt, it), k2))
            # the same id TEXT given to another selector on the same file (r10-C13b: an index cache keyed by file and by the
            # union of the selectors): gene-id selection, compared with the string route
            if ftid is not None and transport in ('file', 'gz') and ftid in gids13 and ex.rng.random() < 0.5:
                try:
                    with contextlib.redirect_stderr(io.StringIO()):
                        fa_ = pyham.ParserFilter(); fa_.add_hogs_via_hogId([ftid]); pyham.Ham(filter_object=fa_, **kw)
                        fb_ = pyham.ParserFilter(); fb_.add_hogs_via_GeneIntId([ftid])
                        cb_, _ = canon_analysis(pyham.Ham(filter_object=fb_, **kw), [], with_profiles=False)
                        fc_ = pyham.ParserFilter(); fc_.add_hogs_via_GeneIntId([ftid])
                        cc_, _ = canon_analysis(core.load_py(D, filter_object=fc_), [], with_profiles=False)
                    kb_ = first_diff({k_: cc_[k_] for k_ in ('forest', 'members', 'genes')}, {k_: cb_[k_] for k_ in ('forest', 'members', 'genes')})
                    ex.res.count('same_id_text_through_two_selectors')
                    if kb_:
                        bad.append('configuration %s: selecting gene %r after selecting family %r on the same file differs from the string route in %s' % ((tree_kind, naming, transport, prog, lt, it), ftid, ftid, kb_))
                except Exception as e:      # noqa
                    bad.append('configuration %s with two selectors raised %s: %s' % ((tree_kind, naming, transport, prog, lt, it), type(e).__name__, e))
            # the same configuration with a filter (one family named by its id): the same selection whatever the route
            if ftid is not None and ex.rng.random() < 0.4:
                try:
                    with contextlib.redirect_stderr(io.StringIO()):
                        ff_ = pyham.ParserFilter(); ff_.add_hogs_via_hogId([ftid])
                        cf_, _ = canon_analysis(pyham.Ham(filter_object=ff_, **kw), [], with_profiles=False)
                    kf_ = first_diff(ref_f, {k_: cf_[k_] for k_ in ref_f})
                    ex.res.count('configs_also_loaded_through_a_filter')
                    if kf_:
                        bad.append('configuration %s with a filter on family %r differs from the filtered reference load in %s' % ((tree_kind, naming, transport, prog, lt, it), ftid, kf_))
                except Exception as e:      # noqa
                    bad.append('configuration %s with a filter raised %s: %s' % ((tree_kind, naming, transport, prog, lt, it), type(e).__name__, e))
        if bad:
            ex.fail(cid, D, bad)
        # the model is run under both namings; both must equal the (name-free) reference
        o = ob.Obs(); o.put('load', 'ok'); ob.observe_load(base, o)
        gs = genomes_of(base)
        for a, dd in pairs:
            o.put('vmap', ob.vmapS(base.compare_genomes_vertically(gs[a], gs[dd])))
        o.put('tpfull', ref['tpfull'])
        q = ['(v %s %s)' % (tax_q(a), tax_q(dd)) for a, dd in pairs]
        ex.submit(cid + '-own', D, o.tags, ['load', 'genes', 'members', 'forest', 'genomes', 'vmap', 'tpfull'], emit=['profiles'], queries=q,
                  hist=not D.meta.get('mislabelled'))
        D2 = copy_dataset(D); D2.naming = 'synth'
        if not unary13:      # (synthesised names are not defined for trees with unary levels)
            ex.submit(cid + '-synth', D2, o.tags, ['load', 'genes', 'members', 'forest', 'genomes', 'vmap', 'tpfull'], emit=['profiles'], queries=q, hist=False)
    ex.finish()
    ex.close()
    return ex.res

def copy_dataset(D):
    E = gen.Dataset(D.T, D.naming)
    E.families = list(D.families); E.species = list(D.species); E.groups = list(D.groups); E.base_groups = list(D.base_groups)
    E.meta = dict(D.meta)
    return E

def phyloxml_all(T):
    def clade(t):
        # (some leaves carry the NCBI taxon id of their species -- the value the orthoXML writes as NCBITaxId, which several
        # species may share: r13-C13a, species resolved by taxon id on the PhyloXML route only)
        tid_ = ('<id provider="ncbi">%s</id>' % gen.taxid_of(t[0])) if (not t[1] and sum(map(ord, t[0])) % 3) else ''
        s = '<clade><name>%s</name><taxonomy>%s<code>%s</code><scientific_name>%s</scientific_name></taxonomy>' % (
            gen.xml_escape(t[0]), tid_, gen.xml_escape(t[0]), gen.xml_escape(t[0]))
        for k in t[1]:
            s += clade(k)
        return s + '</clade>'
    return ('<phyloxml xmlns:xsi="http://www.w3.org/2001/XMLSchema-instance" xmlns="http://www.phyloxml.org" '
            'xsi:schemaLocation="http://www.phyloxml.org http://www.phyloxml.org/1.20/phyloxml.xsd">\n'
            '<phylogeny rooted="true" rerootable="false"><name>t</name>' + clade(T) + '</phylogeny>\n</phyloxml>\n')

def phyloxml_decoy(T, leaf_tag, internal_tag, bare_internal=False):
    """the tree as PhyloXML in which only the CHOSEN name tags carry the names; the other tags carry other texts (as in
    files where <code> is the species code and <scientific_name> the Latin name)"""
    cnt = [0]
    def clade(t):
        cnt[0] += 1
        tag = leaf_tag if not t[1] else internal_tag
        texts = dict(clade_name='decoy ' + t[0], taxonomy_code='Q%03d' % cnt[0], taxonomy_scientific_name='Decoyus ' + t[0])
        texts[tag] = t[0]
        if bare_internal and t[1]:
            # an ancestral clade annotated with a taxon id only (names are synthesised from the leaves: r11-C13a)
            s = '<clade><taxonomy><id provider="ncbi">%d</id></taxonomy>' % (9000 + cnt[0])
        else:
            s = '<clade><name>%s</name><taxonomy><code>%s</code><scientific_name>%s</scientific_name></taxonomy>' % (
                gen.xml_escape(texts['clade_name']), gen.xml_escape(texts['taxonomy_code']), gen.xml_escape(texts['taxonomy_scientific_name']))
        for k in t[1]:
            s += clade(k)
        return s + '</clade>'
    return ('<phyloxml xmlns:xsi="http://www.w3.org/2001/XMLSchema-instance" xmlns="http://www.phyloxml.org" '
            'xsi:schemaLocation="http://www.phyloxml.org http://www.phyloxml.org/1.20/phyloxml.xsd">\n'
            '<phylogeny rooted="true" rerootable="false"><name>t</name>' + clade(T) + '</phylogeny>\n</phyloxml>\n')

# ------------------------------------------------------------------------------------ C14

def rewrite_history(rng, T, naming, p, l, top=True, ids=None):
    """a meaning-preserving rewriting of a spelled history"""
    if l[0] == 'g':
        return l
    _, w, hid, label, subs = l
    new = []
    for s in subs:
        if s[0] == 'one':
            new.append(('one', s[1], rewrite_history(rng, T, naming, p + (s[1],), s[2], False, ids)))
        elif s[0] == 'dup':
            cs = [rewrite_history(rng, T, naming, p + (s[1],), c, False, ids) for c in s[3]]
            rng.shuffle(cs)
            new.append(('dup', s[1], None if rng.random() < 0.5 else 'q%d' % rng.randint(1, 99), cs))
        else:
            new.append(s)
    anns = [s for s in new if s[0] == 'ann']
    rest = [s for s in new if s[0] != 'ann']
    rng.shuffle(rest)
    if top:
        return ('grp', True, hid, rng.random() < 0.5, rest + anns)
    has_ann = bool(anns)
    if w:
        # may be elided when single-member, unannotated and still recoverable (checked by the caller)
        if len(rest) == 1 and not has_ann and rng.random() < 0.5:
            return ('grp', False, None, False, rest)
        ids[0] += 1
        return ('grp', True, ('R%d' % ids[0]) if rng.random() < 0.5 else None, rng.random() < 0.5, rest + anns)
    # spell out an elided level
    if rng.random() < 0.5:
        return ('grp', True, None, rng.random() < 0.5, rest)
    return ('grp', False, None, False, rest)

def rewrite_dataset(rng, D):
    E = gen.Dataset(D.T, D.naming)
    for p, l, tid in D.families:
        for _ in range(30):
            l2 = rewrite_history(rng, D.T, D.naming, p, l, True, [0])
            if gen.recoverable(p, l2):
                break
        else:
            l2 = l
        E.families.append((p, l2, tid))
    fam = list(E.families)
    rng.shuffle(fam)
    E.families = fam
    sp = [(name, rng.sample(genes, len(genes))) for name, genes in D.species]
    rng.shuffle(sp)
    E.species = sp
    for p, l, _ in E.families:
        E.groups += gen.encode(D.T, D.naming, p, l)
    E.base_groups = list(E.groups)
    if rng.random() < 0.8:
        E.groups = gen.nest_paralogs(rng, E.groups, prob=0.9); E.meta['nested'] = True
    if D.naming == 'own' and rng.random() < 0.3:
        # labels that name a clade above the level: adding / changing TaxRange labels must not change anything
        E.groups, nchg = gen.mislabel(rng, D.T, E.groups)
        if nchg:
            E.meta['mislabelled'] = nchg
    return E

def strip_anns(c):
    return c

def c14(tier, seed):
    ex = Explorer('C14', tier, seed)
    n = budget(tier, 150)
    hs_cases = []
    for k in range(n):
        D = std_dataset(ex.rng, maxleaves=ex.rng.choice([3, 4, 5, 6, 8, 10]))
        cid = 'C14-%d' % k
        ex.note_dataset(D)
        base = load_or_fail(ex, cid, D)
        if base is None:
            continue
        try:
            ref, allp = canon_analysis(base)
            pairs = allp if len(allp) <= 15 else ex.rng.sample(allp, 15)
            ref, _ = canon_analysis(base, pairs)
        except Exception as e:      # noqa
            ex.fail(cid, D, ['comparisons / profiles on the loaded analysis raised %s: %s' % (type(e).__name__, e)])
            continue
        bad = []
        # a filtered load of the file and of its rewritings selects the same families (by a cross-reference value, preferably
        # one that several genes carry)
        xcount = collections.Counter(v for _, gs_ in D.species for _, xr in gs_ for _, v in xr)
        xvals = [v for v, c in xcount.items() if c >= 2] or list(xcount)
        fval = ex.rng.choice(sorted(xvals)) if xvals else None
        fshared = pyham.ParserFilter()          # ONE filter object for the file and all its rewritings
        if fval is not None:
            fshared.add_hogs_via_GeneExtId([fval])
        def filtered_canon(E_):
            # the top-level ids of the rewriting are relabelled too (compared without ids)
            E2_ = copy_dataset(E_)
            E2_.groups = [('og', ('T-' + g_[1]) if g_[1] is not None else None, g_[2], g_[3]) if g_[0] == 'og' and E_ is not D else g_ for g_ in E_.groups]
            c_, _ = canon_analysis(core.load_py(E2_, filter_object=fshared), [], with_profiles=False)
            return dict(forest=c_['forest'], members=sorted(x.split('=', 1)[1] for x in c_['members']), genes=c_['genes'])
        ref_f = None
        if fval is not None and all(t is not None for _, _, t in D.families):
            try:
                ref_f = filtered_canon(D); ex.res.count('filtered_loads_of_rewritings')
            except Exception as e:      # noqa
                ex.fail(cid, D, ['filtered load (external id %r) raised %s' % (fval, type(e).__name__)])
        # ... and a load filtered by a top-level id: group ids are free labels, so a rewriting may give nested groups of OTHER
        # families the very label that is queried -- the selection is still the one family (r9-C14b)
        tids14 = [t for _, _, t in D.families]
        qtid = ex.rng.choice(tids14) if tids14 and all(t is not None for t in tids14) and len(set(tids14)) == len(tids14) else None
        def relabel_nested(e_, newid, top=True):
            if e_[0] == 'og':
                return ('og', e_[1] if top else newid, e_[2], [relabel_nested(x_, newid, False) for x_ in e_[3]])
            if e_[0] == 'pg':
                return ('pg', e_[1], [relabel_nested(x_, newid, False) for x_ in e_[2]])
            return e_
        def hogid_canon(E_, rewritten):
            E2_ = copy_dataset(E_)
            if rewritten:
                E2_.groups = [(('og', 'T-' + g_[1], g_[2], g_[3]) if g_[1] == qtid else relabel_nested(('og', 'T-' + g_[1], g_[2], g_[3]), 'T-' + qtid))
                              if g_[0] == 'og' else g_ for g_ in E_.groups]
            f_ = pyham.ParserFilter(); f_.add_hogs_via_hogId([('T-' + qtid) if rewritten else qtid])
            c_, _ = canon_analysis(core.load_py(E2_, filter_object=f_), [], with_profiles=False)
            return dict(forest=c_['forest'], members=sorted(x.split('=', 1)[1] for x in c_['members']), genes=c_['genes'])
        ref_h = None
        if qtid is not None:
            try:
                ref_h = hogid_canon(D, False)
            except Exception as e:      # noqa
                ex.fail(cid, D, ['load filtered by the family id %r raised %s' % (qtid, type(e).__name__)])
        for j in range(4 if tier == 'quick' else 6):
            E = rewrite_dataset(ex.rng, D)
            ex.res.count('rewritings')
            if ref_h is not None and j == 2 and all(g_[0] != 'og' or g_[1] is not None for g_ in E.groups) and sorted(g_[1] for g_ in E.groups if g_[0] == 'og') == sorted(tids14):
                try:
                    kh = first_diff(ref_h, hogid_canon(E, True)); ex.res.count('rewritings_loaded_through_a_family_id_filter')
                    if kh:
                        ex.fail(cid + '-r%dh' % j, E, ['relabelling group ids (nested groups of other families carry the queried label) changes %s of the load filtered by family id %r' % (kh, qtid)])
                except Exception as e:      # noqa
                    ex.fail(cid + '-r%dh' % j, E, ['load of a relabelled rewriting filtered by family id raised %s: %s' % (type(e).__name__, e)])
            if ref_f is not None and j < 2:
                try:
                    kf = first_diff(ref_f, filtered_canon(E))
                    if kf:
                        ex.fail(cid + '-r%d' % j, E, ['a meaning-preserving rewriting changes %s of the load filtered by external id %r (original: %s)' % (kf, fval, core.dataset_payload(D)['orthoxml'])])
                except Exception as e:      # noqa
                    ex.fail(cid + '-r%d' % j, E, ['filtered load of a rewriting raised %s' % type(e).__name__])
            if E.meta.get('nested'):
                ex.res.count('rewritings_nested_paralogGroups')
            try:
                h2 = core.load_py(E)
                got, _ = canon_analysis(h2, pairs)
            except Exception as e:      # noqa
                bad.append('rewriting %d raised %s: %s' % (j, type(e).__name__, e))
                ex.fail(cid + '-r%d' % j, E, ['a meaning-preserving rewriting raised %s' % type(e).__name__])
                continue
            k2 = first_diff(ref, got)
            if k2:
                bad.append('rewriting %d changes %s' % (j, k2))
                ex.fail(cid + '-r%d' % j, E, ['a meaning-preserving rewriting changes %s (original: %s)' % (k2, core.dataset_payload(D)['orthoxml'])])
            o = ob.Obs(); o.put('load', 'ok'); ob.observe_load(h2, o)
            gs = genomes_of(h2)
            for a, d in pairs:
                o.put('vmap', ob.vmapS(h2.compare_genomes_vertically(gs[a], gs[d])))
            ex.submit(cid + '-r%d' % j, E, o.tags, ['load', 'forest', 'members', 'genomes', 'vmap'],
                      queries=['(v %s %s)' % (tax_q(a), tax_q(d)) for a, d in pairs])
        if len(hs_cases) < (40 if tier == 'quick' else 400):
            hs_cases.append((cid, D, dict(nwk=core.nwk_of(D), xml=gen.orthoxml(D.species, D.groups), own=(D.naming == 'own'))))
    # hash seed / set iteration order: the collected datasets are re-loaded in sub-processes under several PYTHONHASHSEEDs
    # (one process per seed); every analysis must be the same in all of them
    if hs_cases:
        payload = json.dumps([x[2] for x in hs_cases])
        outs = []
        for hsd in (('0', '4242') if tier == 'quick' else ('0', '1', '17', '4242')):
            env = dict(os.environ, PYTHONHASHSEED=hsd)
            p = subprocess.run([sys.executable, os.path.join(os.path.dirname(__file__), 'hashseed_probe.py')], input=payload,
                               stdout=subprocess.PIPE, stderr=subprocess.PIPE, text=True, env=env)
            lines_ = p.stdout.strip().split('\n')
            if len(lines_) != len(hs_cases):
                ex.res.infra.append('hash-seed probe under PYTHONHASHSEED=%s answered %d of %d cases: %s' % (hsd, len(lines_), len(hs_cases), p.stderr[-300:]))
                break
            outs.append(lines_)
            ex.res.count('hashseed_runs', len(hs_cases))
        if len(outs) >= 2:
            for i, (cid_, D_, _) in enumerate(hs_cases):
                if len(set(o_[i] for o_ in outs)) != 1 or '"error"' in outs[0][i]:
                    ex.fail(cid_, D_, ['results depend on PYTHONHASHSEED (or the load failed in a sub-process)'])
    ex.finish()
    ex.close()
    return ex.res

# ------------------------------------------------------------------------------------ C15

def dup_name_trees(rng):
    """trees whose names would make lookups ambiguous: (newick, use_internal_name, what)"""
    T = gen.rand_tree(rng, maxleaves=7)
    ps = list(gen.paths(T))
    leaves_ = [p for p in ps if not gen.sub(T, p)[1]]
    internal = [p for p in ps if gen.sub(T, p)[1]]
    out = []
    def rename(T, p, name):
        if not p:
            return (name, T[1])
        ks = list(T[1]); ks[p[0]] = rename(ks[p[0]], p[1:], name)
        return (T[0], tuple(ks))
    if len(leaves_) >= 2:
        a, b = rng.sample(leaves_, 2)
        out.append((rename(T, a, gen.sub(T, b)[0]), rng.random() < 0.5, 'repeated leaf name'))
    if len(internal) >= 2:
        a, b = rng.sample(internal, 2)
        out.append((rename(T, a, gen.sub(T, b)[0]), True, 'repeated internal name' + (' (root)' if () in (a, b) else '')))
        if () not in (a, b) and len(internal) >= 2:
            c = rng.choice([x for x in internal if x != ()])
            out.append((rename(T, (), gen.sub(T, c)[0]), True, 'repeated internal name (root)'))
    # collisions among SYNTHESISED names (use_internal_name=False): a single-child internal node spans the same leaf
    # set as its child, and leaf names containing '/' can make two different clades spell the same joined name
    if internal:
        a = rng.choice(internal)
        sub_ = gen.sub(T, a)
        def wrap(T, p):
            if not p:
                return ('U', (T,))
            ks = list(T[1]); ks[p[0]] = wrap(ks[p[0]], p[1:])
            return (T[0], tuple(ks))
        out.append((wrap(T, a), False, 'repeated synthesised name (single-child node)'))
    x, y, z = rng.sample(['A', 'B', 'C', 'Dd', 'E1'], 3)
    Ts = ('R', (('I1', ((x, ()), (y + '/' + z, ()))), ('I2', ((x + '/' + y, ()), (z, ())))) + ((('Out', ()),) if rng.random() < 0.5 else ()))
    out.append((Ts, False, 'repeated synthesised name (slash in leaf names)'))
    return out

def c15(tier, seed):
    ex = Explorer('C15', tier, seed)
    n = budget(tier, 120)
    for k in range(n):
        D = respell(ex.rng, std_dataset(ex.rng))
        cid = 'C15-%d' % k
        ex.note_dataset(D)
        lkw15 = dict(phyloxml_dir=ex.tmp) if ex.rng.random() < 0.25 else {}       # (lookups after profiles differ by tree format: r10-C15a)
        if lkw15:
            ex.res.count('tree_as_phyloxml_file')
        h = load_or_fail(ex, cid, D, **lkw15)
        if h is None:
            continue
        bad = []
        o = ob.Obs(); o.put('load', 'ok')
        def expect_key(fn, *a):
            try:
                fn(*a)
                bad.append('%s%r did not raise KeyError' % (fn.__name__, a))
            except KeyError:
                pass
            except Exception as e:      # noqa
                bad.append('%s%r raised %s' % (fn.__name__, a, type(e).__name__))
        try:
            decl = core.declared_map(D)
            # keys that are EQUAL to an integer id for Python (1 == 1.0 == True, same hash) but are written differently are
            # unknown keys ('1.0', 'True' are not ids of this file) -- asked first, before any integer lookup (r9-C15b: a memo
            # of string forms keyed by the query object)
            gids_ = set(g_.unique_id for g_ in h.get_list_extant_genes())
            tids_ = set(str(t_) for t_ in h.get_dict_top_level_hogs())
            for x_ in sorted(gids_ | tids_):
                if x_.isascii() and x_.isdigit() and str(int(x_)) == x_ and len(x_) < 6:
                    for alt_ in ([float(int(x_))] + ([bool(int(x_))] if int(x_) in (0, 1) else [])):
                        if str(alt_) not in gids_:
                            expect_key(h.get_gene_by_id, alt_)
                        if str(alt_) not in tids_:
                            expect_key(h.get_hog_by_id, alt_)
                        ex.res.count('lookups_by_equal_but_differently_written_keys')
            for g in h.get_list_extant_genes():
                if h.get_gene_by_id(g.unique_id) is not g:
                    bad.append('get_gene_by_id(%r)' % g.unique_id)
                if g.unique_id.isascii() and g.unique_id.isdigit() and str(int(g.unique_id)) == g.unique_id and h.get_gene_by_id(int(g.unique_id)) is not g:
                    bad.append('get_gene_by_id(int %s)' % g.unique_id)
                if h.get_dict_extant_genes().get(g.unique_id) is not g:
                    bad.append('dict of extant genes for %s' % g.unique_id)
                for _, v in decl.get(g.unique_id, []):
                    if not any(x is g for x in h.get_genes_by_external_id(v)):
                        bad.append('get_genes_by_external_id(%r) misses %s' % (v, g.unique_id))
                for k_, v_ in g.get_dict_xref().items():
                    # ... also the cross-references the gene object itself reports (r11-C15b)
                    if k_ != 'id' and not any(x is g for x in h.get_genes_by_external_id(v_)):
                        bad.append('gene %s reports the cross-reference %s=%r but is not found under it' % (g.unique_id, k_, v_))
                top = h.get_hog_by_gene(g)
                if top is not g.get_top_level_hog():
                    bad.append('get_hog_by_gene(%s)' % g.unique_id)
            xm = collections.defaultdict(list)
            for gid, xr in decl.items():
                for _, v in xr:
                    xm[v].append(gid)
            for v, ids in xm.items():
                got = [x.unique_id for x in h.get_genes_by_external_id(v)]
                o.put('xref', v + '=' + ','.join(got))
                if sorted(got) != sorted(ids):
                    bad.append('get_genes_by_external_id(%r) = %s, expected %s' % (v, got, ids))
            for hid, top in h.get_dict_top_level_hogs().items():
                if hid is None:
                    continue            # a family written without id is listed, but there is no id to look it up by
                if h.get_hog_by_id(hid) is not top:
                    bad.append('get_hog_by_id(%r)' % hid)
                if hid.isascii() and hid.isdigit() and str(int(hid)) == hid and h.get_hog_by_id(int(hid)) is not top:
                    bad.append('get_hog_by_id(int %s)' % hid)
            if collections.Counter(map(id, h.get_list_top_level_hogs())) != collections.Counter(map(id, h.get_dict_top_level_hogs().values())):
                bad.append('list vs dict of top-level hogs')
            for g in h.get_list_extant_genomes():
                if h.get_extant_genome_by_name(g.name) is not g:
                    bad.append('get_extant_genome_by_name(%r)' % g.name)
                if h.get_taxon_by_name(g.name) is not g.taxon:
                    bad.append('get_taxon_by_name(%r)' % g.name)
            ags = h.get_list_ancestral_genomes()
            for g in ags:
                if h.get_ancestral_genome_by_name(g.name) is not g:
                    bad.append('get_ancestral_genome_by_name(%r)' % g.name)
                if h.get_ancestral_genome_by_taxon(g.taxon) is not g:
                    bad.append('get_ancestral_genome_by_taxon(%r)' % g.name)
                if h.get_taxon_by_name(g.name) is not g.taxon:
                    bad.append('get_taxon_by_name(%r)' % g.name)
                # as the common ancestor of a genome set: two genomes below it in different child clades
                below = [x for x in h.get_list_extant_genomes() + ags if x is not g and g.taxon in x.taxon.get_ancestors()]
                for x, y in itertools.combinations(below, 2):
                    if h.taxonomy.tree.get_common_ancestor({x.taxon, y.taxon}) is g.taxon:
                        if h.get_ancestral_genome_by_mrca_of_genome_set({x, y}) is not g:
                            bad.append('get_ancestral_genome_by_mrca_of_genome_set for %r' % g.name)
                        ex.res.count('mrca_lookups')
                        break
            # a genome set with a single genome has no common ancestor to return: ValueError (the model: Err.value)
            for g in (h.get_list_extant_genomes()[:1] + ags[:1]):
                try:
                    h.get_ancestral_genome_by_mrca_of_genome_set({g})
                    bad.append('get_ancestral_genome_by_mrca_of_genome_set of the single genome %r returned something' % g.name)
                except ValueError:
                    pass
                except Exception as e:      # noqa
                    bad.append('get_ancestral_genome_by_mrca_of_genome_set of a single genome raised %s' % type(e).__name__)
            # cross-reference values that look like integers are found under their integer form too (keys are str()-ed)
            for v in list(xm)[:30]:
                if v.isascii() and v.isdigit() and str(int(v)) == v:
                    try:
                        if sorted(x.unique_id for x in h.get_genes_by_external_id(int(v))) != sorted(xm[v]):
                            bad.append('get_genes_by_external_id(int %s) differs from the lookup by the string' % v)
                        ex.res.count('xref_lookups_by_integer')
                    except Exception as e:      # noqa
                        bad.append('get_genes_by_external_id(int %s) raised %s' % (v, type(e).__name__))
            # common ancestor of arbitrary genome sets (2-4 genomes, nested ones included)
            allg = h.get_list_extant_genomes() + ags
            for _ in range(6):
                if len(allg) < 2:
                    break
                sub_ = ex.rng.sample(allg, min(len(allg), ex.rng.randint(2, 4)))
                want_p = gen.lcp([pathof(x.taxon) for x in sub_])
                gsn = genomes_of(h)
                ex.res.count('mrca_set_lookups')
                try:
                    arg_ = set(sub_)
                    got = h.get_ancestral_genome_by_mrca_of_genome_set(arg_)
                    if arg_ != set(sub_):
                        bad.append('get_ancestral_genome_by_mrca_of_genome_set modified the set it was given')
                    if want_p not in gsn or got is not gsn[want_p]:
                        bad.append('mrca lookup of %s returned %s, expected the genome at %s' % ([taxS(pathof(x.taxon)) for x in sub_], got.name, taxS(want_p)))
                except KeyError:
                    if want_p in gsn and not gsn[want_p].taxon.is_leaf():
                        bad.append('mrca lookup of %s raised KeyError although %s has a genome' % ([taxS(pathof(x.taxon)) for x in sub_], taxS(want_p)))
            # listings and lookups stay coherent after calls that create (empty) genomes lazily
            def coherent(when):
                for g in h.get_list_extant_genomes():
                    if h.get_extant_genome_by_name(g.name) is not g or h.get_taxon_by_name(g.name) is not g.taxon:
                        bad.append('%s: extant genome %r not returned by its name' % (when, g.name))
                for g in h.get_list_ancestral_genomes():
                    try:
                        if h.get_ancestral_genome_by_name(g.name) is not g or h.get_ancestral_genome_by_taxon(g.taxon) is not g:
                            bad.append('%s: ancestral genome %r not returned identically by name / taxon' % (when, g.name))
                    except KeyError:
                        bad.append('%s: listed ancestral genome %r raises KeyError when looked up by name / taxon' % (when, g.name))
            exg = h.get_list_extant_genomes()
            if len(exg) >= 2:
                a_, b_ = ex.rng.sample(exg, 2)
                h.compare_genomes_lateral(a_, b_)
                coherent('after a lateral comparison')
            h.create_tree_profile()
            coherent('after the whole-dataset tree profile')
            ex.res.count('lookups_after_lazy_genome_creation')
            # ... and after iHam pages (r11-C15a: polytomies of the LIVE tree resolved for the page): the common ancestor of
            # every pair of species is still the genome at the node the INPUT tree gives
            for t_ in h.get_list_top_level_hogs()[:3]:
                h.create_iHam(t_)
            coherent('after iHam pages')
            exg2 = h.get_list_extant_genomes()
            gs2 = genomes_of(h)
            for x_, y_ in list(itertools.combinations(exg2, 2))[:15]:
                wp_ = gen.lcp([pathof(x_.taxon), pathof(y_.taxon)])
                try:
                    got_ = h.get_ancestral_genome_by_mrca_of_genome_set({x_, y_})
                    if wp_ not in gs2 or got_ is not gs2[wp_]:
                        bad.append('after iHam pages: the common ancestor of %s and %s is not the genome at %s' % (x_.name, y_.name, taxS(wp_)))
                except KeyError:
                    if wp_ in gs2:
                        bad.append('after iHam pages: the common ancestor of %s and %s raises KeyError although %s has a genome' % (x_.name, y_.name, taxS(wp_)))
            if sum(1 for _ in h.taxonomy.tree.traverse()) != len(list(gen.paths(D.T))):
                bad.append('after iHam pages the species tree of the analysis has %d nodes, the input tree %d' % (sum(1 for _ in h.taxonomy.tree.traverse()), len(list(gen.paths(D.T)))))
            ids_ = lambda xs: sorted(map(id, xs))
            bad += orc.fresh_results([
                ('get_list_top_level_hogs', h.get_list_top_level_hogs, ids_), ('get_list_extant_genes', h.get_list_extant_genes, ids_),
                ('get_list_extant_genomes', h.get_list_extant_genomes, ids_), ('get_list_ancestral_genomes', h.get_list_ancestral_genomes, ids_)] +
                [('get_genes_by_external_id(%r)' % v, (lambda v=v: h.get_genes_by_external_id(v)), lambda xs: [x.unique_id for x in xs])
                 for v in list(xm)[:4]])
            expect_key(h.get_gene_by_id, 'no-such-gene')
            expect_key(h.get_genes_by_external_id, 'no-such-xref')
            expect_key(h.get_hog_by_id, 'no-such-hog')
            expect_key(h.get_extant_genome_by_name, 'no-such-species')
            expect_key(h.get_ancestral_genome_by_name, 'no-such-clade')
            expect_key(h.get_taxon_by_name, 'no-such-taxon')
            expect_key(h.get_hog_by_gene, 'not-a-gene')
            for t in h.taxonomy.tree.get_leaves()[:2]:
                expect_key(h.get_ancestral_genome_by_taxon, t)         # a leaf is not an ancestral taxon, genome or not
            for t in h.taxonomy.tree.traverse():
                if not t.is_leaf() and 'genome' not in t.features:
                    expect_key(h.get_ancestral_genome_by_taxon, t)
                    break
        except Exception as e:      # noqa
            bad.append('lookup raised %s: %s' % (type(e).__name__, e))
        # the lookup model (Model/Lookup.lean, object of the C15 theorems) answers the same queries
        queries = []
        def ans(fn, *a_, show=None):
            try:
                r = fn(*a_)
                return show(r) if show else str(r)
            except Exception as e:      # noqa
                return 'err:' + ob.err_name(e)
        try:
            gl = h.get_list_extant_genes()
            for g in ex.rng.sample(gl, min(4, len(gl))):
                queries.append('(lookup gene %s)' % gen.q(g.unique_id))
                o.put('lookup', 'gene:%s=%s' % (g.unique_id, ans(h.get_gene_by_id, g.unique_id, show=lambda x: x.unique_id + '@' + x.genome.name)))
                queries.append('(lookup hogbygene %s)' % gen.q(g.unique_id))
                o.put('lookup', 'hogbygene:%s=%s' % (g.unique_id, ans(h.get_hog_by_gene, g, show=nodekey)))
            for v in ex.rng.sample(sorted(xm), min(3, len(xm))) + ['no-such-xref']:
                queries.append('(lookup xref %s)' % gen.q(v))
                o.put('lookup', 'xref:%s=%s' % (v, ans(h.get_genes_by_external_id, v, show=lambda r: ','.join(x.unique_id for x in r))))
            for hid in [x for x in h.get_dict_top_level_hogs() if x is not None][:3] + ['no-such-hog']:
                queries.append('(lookup hog %s)' % gen.q(hid))
                o.put('lookup', 'hog:%s=%s' % (hid, ans(h.get_hog_by_id, hid, show=nodekey)))
            for name in [sp for sp, _ in D.species][:3] + ['no-such-species']:
                queries.append('(lookup extant %s)' % gen.q(name))
                o.put('lookup', 'extant:%s=%s' % (name, ans(h.get_extant_genome_by_name, name, show=lambda x: taxS(pathof(x.taxon)))))
            nonempty = [g for g in h.get_list_ancestral_genomes() if g.genes]
            for g in nonempty[:3]:
                queries.append('(lookup ancestral %s)' % gen.q(g.name))
                o.put('lookup', 'ancestral:%s=%s' % (g.name, ans(h.get_ancestral_genome_by_name, g.name, show=lambda x: taxS(pathof(x.taxon)))))
            for t in list(h.taxonomy.tree.traverse())[:4]:
                queries.append('(lookup taxon %s)' % gen.q(t.name))
                o.put('lookup', 'taxon:%s=%s' % (t.name, ans(h.get_taxon_by_name, t.name, show=lambda x: taxS(pathof(x)))))
            queries.append('(lookup taxon "no-such-taxon")'); o.put('lookup', 'taxon:no-such-taxon=err:KeyError')
            withg = [g for g in h.get_list_extant_genomes() + h.get_list_ancestral_genomes() if g.genes]
            for _ in range(4):
                if len(withg) < 2:
                    break
                sub_ = ex.rng.sample(withg, min(len(withg), ex.rng.randint(2, 4)))
                txs = sorted(taxS(pathof(x.taxon)) for x in sub_)
                want_p = gen.lcp([pathof(x.taxon) for x in sub_])
                gsn = genomes_of(h)
                if want_p in gsn and not gsn[want_p].genes:
                    continue            # a lazily created empty genome: not modelled
                queries.append('(mrcaset %s)' % ' '.join(tax_q(pathof(x.taxon)) for x in sub_))
                o.put('lookup', 'mrcaset:%s=%s' % (','.join(txs), ans(h.get_ancestral_genome_by_mrca_of_genome_set, set(sub_), show=lambda x: taxS(pathof(x.taxon)))))
        except Exception as e:      # noqa
            bad.append('lookup correspondence raised %s: %s' % (type(e).__name__, e))
        if bad:
            ex.fail(cid, D, bad)
        ex.submit(cid, D, o.tags, ['load', 'xref', 'lookup'], emit=['xref'], queries=queries)
        # ambiguous trees must be rejected when the taxonomy is built
        for T2, own, what in dup_name_trees(ex.rng):
            ex.res.count('ambiguous_trees'); ex.res.count('ambiguous_' + what.replace(' ', '_'))
            nwk = gen.newick(T2) + ';'
            o2 = ob.Obs()
            try:
                tx = pyham.Ham(tree_file=nwk, hog_file=gen.orthoxml([], []), orthoXML_as_string=True, use_internal_name=own)
                o2.put('txcheck', 'ok')
                D2 = gen.Dataset(T2, 'own' if own else 'synth')
                ex.fail(cid + '-amb', D2, ['tree with %s accepted (use_internal_name=%s): %s' % (what, own, nwk)])
            except KeyError:
                o2.put('txcheck', 'err:KeyError')
            except Exception as e:      # noqa
                o2.put('txcheck', 'err:' + ob.err_name(e))
                D2 = gen.Dataset(T2, 'own' if own else 'synth')
                ex.fail(cid + '-amb', D2, ['tree with %s raised %s instead of KeyError' % (what, type(e).__name__)])
            D2 = gen.Dataset(T2, 'own' if own else 'synth')
            ex.submit('%s-amb%d' % (cid, ex.res.hist['ambiguous_trees']), D2, o2.tags, ['txcheck'], emit=['tree'], hist=False)
            if what.startswith('repeated leaf') or (own and what.startswith('repeated internal')):
                # the same ambiguous tree supplied as PhyloXML (the names are then read from the clade elements): rejected too
                pxa = os.path.join(ex.tmp, 'amb.phyloxml')
                with open(pxa, 'w') as fpx:
                    fpx.write(gen.phyloxml(T2))
                ex.res.count('ambiguous_trees_as_phyloxml')
                try:
                    pyham.Ham(tree_file=pxa, tree_format='phyloxml', hog_file=gen.orthoxml([], []), orthoXML_as_string=True, use_internal_name=own,
                              phyloxml_leaf_name_tag='taxonomy_scientific_name', phyloxml_internal_name_tag='taxonomy_scientific_name')
                    ex.fail(cid + '-ambx', D2, ['PhyloXML tree with %s accepted (use_internal_name=%s): %s' % (what, own, nwk)])
                except KeyError:
                    pass
                except Exception as e:      # noqa
                    ex.fail(cid + '-ambx', D2, ['PhyloXML tree with %s raised %s instead of KeyError' % (what, type(e).__name__)])
        # species_resolve_mode="OMA": a <species> named after a clade is attached to the clade's only child that looks like
        # an OMA code and takes that leaf's name -- listings and lookups by name must agree there too
        if D.naming == 'own':
            import re as _re
            done_ = False
            for p_ in gen.paths(D.T):
                t_ = gen.sub(D.T, p_)
                codes = [i for i, k_ in enumerate(t_[1]) if len(k_[0]) == 5 and _re.match(r'[A-Z][A-Z0-9]{4}', k_[0])]
                if t_[1] and len(codes) == 1 and not t_[1][codes[0]][1]:
                    leaf = t_[1][codes[0]][0]
                    idx = [i for i, (n_, _) in enumerate(D.species) if n_ == leaf]
                    if len(idx) == 1:
                        sp_ = list(D.species); sp_[idx[0]] = (t_[0], sp_[idx[0]][1])
                        try:
                            ho = core.load_py(D, species=sp_, species_resolve_mode='OMA')
                            ex.res.count('oma_mode_loads')
                            for g in ho.get_list_extant_genomes():
                                if g.name != g.taxon.name:
                                    ex.fail(cid + '-oma', D, ['OMA mode: the genome at leaf %r is called %r' % (g.taxon.name, g.name)], species=sp_)
                                try:
                                    if ho.get_extant_genome_by_name(g.name) is not g:
                                        ex.fail(cid + '-oma', D, ['OMA mode: get_extant_genome_by_name(%r) returns another genome' % g.name], species=sp_)
                                except KeyError:
                                    ex.fail(cid + '-oma', D, ['OMA mode: listed genome %r raises KeyError when looked up by name' % g.name], species=sp_)
                        except Exception as e:      # noqa
                            ex.fail(cid + '-oma', D, ['OMA mode: a clade with one code child named as species was rejected: %s: %s' % (type(e).__name__, e)], species=sp_)
                        done_ = True
                if done_:
                    break
        # a legal tree in which a leaf carries the name of an internal node: it loads, but the lookup of that name among
        # ALL taxa has two answers and must raise KeyError rather than pick one
        if k % 4 == 0:
            T3 = gen.rand_tree(ex.rng, maxleaves=6)
            lv_ = [p for p in gen.paths(T3) if not gen.sub(T3, p)[1]]
            in_ = [p for p in gen.paths(T3) if gen.sub(T3, p)[1]]
            shared = gen.sub(T3, ex.rng.choice(in_))[0]
            T3 = rename_at(T3, ex.rng.choice(lv_), shared)
            D3 = gen.Dataset(T3, 'own')
            o3 = ob.Obs(); q3 = []
            ex.res.count('trees_leaf_named_like_a_clade')
            try:
                h3 = pyham.Ham(tree_file=gen.newick(T3) + ';', hog_file=gen.orthoxml([], []), orthoXML_as_string=True, use_internal_name=True)
                o3.put('load', 'ok')      # (the model prints a txcheck line only for rejected trees)
                for name in sorted(set(gen.display_name(T3, p, 'own') for p in gen.paths(T3))):
                    try:
                        r = taxS(pathof(h3.get_taxon_by_name(name)))
                        if name == shared:
                            ex.fail(cid + '-col', D3, ['get_taxon_by_name(%r) silently picked %s although two taxa carry that name' % (name, r)])
                    except KeyError:
                        r = 'err:KeyError'
                        if name != shared:
                            ex.fail(cid + '-col', D3, ['get_taxon_by_name(%r) raised KeyError for a unique name' % name])
                    o3.put('lookup', 'taxon:%s=%s' % (name, r)); q3.append('(lookup taxon %s)' % gen.q(name))
            except Exception as e:      # noqa
                o3.put('txcheck', 'err:' + ob.err_name(e))
                ex.fail(cid + '-col', D3, ['a tree with unique leaf names and unique internal names was rejected: %s: %s' % (type(e).__name__, e)])
            ex.submit(cid + '-col', D3, o3.tags, ['txcheck', 'lookup'], emit=['tree'], queries=q3, hist=False)
    ex.finish()
    ex.close()
    return ex.res

# ------------------------------------------------------------------------------------ C18

def decorate_newick(rng, T, internal=True, lengths=False, support=False):
    def rec(t, root=False):
        if not t[1]:
            s = t[0]
        else:
            s = '(' + ','.join(rec(k) for k in t[1]) + ')'
            if internal:
                s += t[0]
            elif support and not root:
                s += rng.choice(['0.95', '1', '87'])
        if lengths and not root:
            s += ':' + rng.choice(['0.1', '1', '2.5e-2', '0'])
        return s
    return rec(T, True) + ';'

def ete_struct(node):
    return (node.name, tuple(ete_struct(c) for c in node.children))

def rename_at(T, p, name):
    if not p:
        return (name, T[1])
    ks = list(T[1]); ks[p[0]] = rename_at(ks[p[0]], p[1:], name)
    return (T[0], tuple(ks))

def path_problems(taxo, rng, limit=80):
    """get_path_up between a node and each of its ancestors = the nodes strictly between, youngest first; the expectation is
    read off the children links from the root down (never off `.up`)"""
    at = {}
    stack = [((), taxo.tree)]
    while stack:
        p_, nd_ = stack.pop()
        at[p_] = nd_
        for i_, c_ in enumerate(nd_.children):
            stack.append((p_ + (i_,), c_))
    bad = []
    ps_ = sorted(at)
    for p_ in (ps_ if len(ps_) <= limit else rng.sample(ps_, limit)):
        js_ = range(len(p_)) if len(p_) <= 12 else sorted(set([0, 1, len(p_) - 1] + [rng.randrange(len(p_)) for _ in range(4)]))
        for j_ in js_:
            want_ = [at[p_[:i_]] for i_ in range(len(p_) - 1, j_, -1)]
            try:
                got_ = list(taxo.get_path_up(at[p_], at[p_[:j_]]))
            except Exception as e:      # noqa
                bad.append('get_path_up(%s, %s) raised %s' % (taxS(p_)[-30:], taxS(p_[:j_])[-30:], type(e).__name__)); continue
            if len(got_) != len(want_) or any(a_ is not b_ for a_, b_ in zip(got_, want_)):
                bad.append('get_path_up(%s, %s) returns %d nodes, %d lie strictly between' % (taxS(p_)[-30:], taxS(p_[:j_])[-30:], len(got_), len(want_)))
        if len(bad) > 5:
            break
    return bad

def deep_taxonomy_case(ex, depth=260):
    """a caterpillar of `depth` species, one family whose HOG sits one level below the root (so that its subtree is almost the
    whole tree), the per-family profile of that HOG, then every clause of C18 that can be asked of the live taxonomy again
    (r12-C18a: a pickle-based subtree copy that fails on deep trees and leaves the taxon detached)"""
    T = ('I0', (('LA', ()), ('LB', ())))
    for k_ in range(1, depth):
        T = ('I%d' % k_, (T, ('L%d' % k_, ())))
    T = ('ROOT', (T, ('LZ', ())))
    D = gen.Dataset(T, 'own')
    D.species = [('LA', [('a1', [('protId', 'Pa1')])]), ('L%d' % (depth - 1), [('b1', [('protId', 'Pb1')])]), ('LZ', [('z1', [])])]
    D.groups = [('og', '1', None, [('ref', 'a1', None), ('ref', 'b1', None)])]
    D.families = []; D.base_groups = list(D.groups); D.meta = dict(deep=depth)
    bad = []
    for naming in ('own', 'synth'):
        D.naming = naming
        try:
            hh = core.load_py(D)
            top = hh.get_list_top_level_hogs()[0]
            before = path_problems(hh.taxonomy, ex.rng)
            hh.create_tree_profile(hog=top)
            for x_ in [c_ for c_ in top.children if isinstance(c_, ag.HOG)][:1]:
                hh.create_tree_profile(hog=x_)
            after = path_problems(hh.taxonomy, ex.rng)
            for nd in hh.taxonomy.tree.traverse():
                p_ = pathof(nd)
                if nd.name != gen.display_name(T, p_, naming) or nd.depth != len(p_):
                    after.append('after the profile of a HOG: name / depth of a node at depth %d is %r / %r' % (len(p_), str(nd.name)[:40], nd.depth)); break
            bad += ['deep tree (%d levels, %s names): %s' % (depth, naming, x_) for x_ in (before + ['after the per-family profile of a HOG: ' + y_ for y_ in after])[:4]]
        except Exception as e:      # noqa
            bad.append('deep tree (%d levels, %s names): analysis / profile / path queries raised %s: %s' % (depth, naming, type(e).__name__, str(e)[:200]))
    ex.res.count('deep_caterpillar_taxonomies')
    if bad:
        ex.fail('C18-deep', D, bad)

def big_taxonomy_case(ex, nleaves=1200):
    """a species tree with more than a thousand leaves (polytomies, leaf names not in alphabetical order): synthesised names
    still list the leaves of the clade in TREE order, depths and the stored text are right (r13-C18a: a bulk path for large
    taxonomies that sorts the names)"""
    ids_ = list(range(nleaves)); ex.rng.shuffle(ids_)
    it_ = iter(ids_)
    per_ = nleaves // 60
    T = ('', tuple(('', tuple(('', tuple(('S%04d' % next(it_), ()) for _ in range(per_))) for _ in range(10))) for _ in range(6)))
    def leaves_of(t):
        return [t[0]] if not t[1] else [x_ for k_ in t[1] for x_ in leaves_of(k_)]
    def nwk(t):
        return t[0] if not t[1] else '(' + ','.join(nwk(k_) for k_ in t[1]) + ')'
    bad = []
    try:
        tx = pyham.taxonomy.Taxonomy(nwk(T) + ';', tree_format='newick_string', use_internal_name=False)
        def walk(nd, t, depth):
            want = t[0] if not t[1] else '/'.join(leaves_of(t))
            if nd.name != want and len(bad) < 3:
                bad.append('tree with %d leaves: a clade of %d leaves is named %s..., its leaves in tree order are %s...' % (nleaves, len(leaves_of(t)), str(nd.name)[:40], want[:40]))
            if nd.depth != depth and len(bad) < 3:
                bad.append('tree with %d leaves: depth %r at distance %d from the root' % (nleaves, nd.depth, depth))
            if len(nd.children) != len(t[1]):
                bad.append('tree with %d leaves: a node has %d children, the input %d' % (nleaves, len(nd.children), len(t[1]))); return
            for c_, k_ in zip(nd.children, t[1]):
                walk(c_, k_, depth + 1)
        walk(tx.tree, T, 0)
        import ete3
        t2 = ete3.Tree(tx.tree_str, format=1, quoted_node_names=True)
        if [n_.name for n_ in t2.traverse('preorder')] != [n_.name for n_ in tx.tree.traverse('preorder')]:
            bad.append('tree with %d leaves: the stored Newick text re-parses to other names' % nleaves)
    except Exception as e:      # noqa
        bad.append('tree with %d leaves: building / inspecting the taxonomy raised %s: %s' % (nleaves, type(e).__name__, str(e)[:200]))
    ex.res.count('taxonomies_with_more_than_1000_leaves')
    if bad:
        D = gen.Dataset(('big', ()), 'synth'); D.species = []; D.groups = []; D.families = []; D.base_groups = []; D.meta = {}
        ex.res.oracle_failures.append(dict(case='C18-big', clauses=bad[:4], call='Taxonomy(<%d leaves>, use_internal_name=False)' % nleaves,
                                           input=dict(newick=nwk(T)[:3000] + ' ...', naming='synth', orthoxml=''), extra=None, _D=None))

def c18(tier, seed):
    import ete3
    ex = Explorer('C18', tier, seed)
    n = budget(tier, 250)
    if os.environ.get('VERIF_SHARD', '0/1').startswith('0/'):
        deep_taxonomy_case(ex, 260 + 10 * (seed % 5))
        big_taxonomy_case(ex, 1200)
    for k in range(n):
        naming = ex.rng.choice(['own', 'synth'])
        T = gen.rand_tree(ex.rng, maxleaves=ex.rng.choice([2, 3, 4, 6, 9, 12]), fancy=ex.rng.random() < 0.6,
                          unary=(0.15 if naming == 'own' and ex.rng.random() < 0.15 else 0.0))
        if naming == 'own' and ex.rng.random() < 0.1:
            # internal nodes labelled with numbers (NCBI taxon ids): they are names, not support values
            cnt_ = [9600]
            def renum(t):
                if not t[1]:
                    return t
                cnt_[0] += 7
                return (str(cnt_[0]), tuple(renum(k_) for k_ in t[1]))
            T = renum(T)
            ex.res.count('trees_numeric_internal_names')
        if naming == 'own' and ex.rng.random() < 0.12:
            # a leaf that carries the name of an internal node (a clade named after one of its species, a species named
            # like a clade elsewhere): leaf names are still unique, internal names are still unique -- a legal tree
            lv_ = [p for p in gen.paths(T) if not gen.sub(T, p)[1]]
            in_ = [p for p in gen.paths(T) if gen.sub(T, p)[1]]
            T = rename_at(T, ex.rng.choice(lv_), gen.sub(T, ex.rng.choice(in_))[0])
            ex.res.count('trees_leaf_named_like_a_clade')
        if naming == 'synth' and ex.rng.random() < 0.12:
            # a single-child level directly above a leaf (a genus holding one sampled species, '((CANFA)Canis,FELCA)'): legal with
            # synthesised names too -- the level is called like its only leaf, and it is a level (depth, path queries, Newick)
            lv_ = [p for p in gen.paths(T) if not gen.sub(T, p)[1] and p]
            if lv_:
                pl_ = ex.rng.choice(lv_)
                def wrap_(t, p):
                    if not p:
                        return ('U' + t[0].replace(' ', ''), (t,))
                    ks = list(t[1]); ks[p[0]] = wrap_(ks[p[0]], p[1:])
                    return (t[0], tuple(ks))
                T = wrap_(T, pl_)
                ex.res.count('trees_single_child_level_above_a_leaf_synth')
        lengths = ex.rng.random() < 0.4
        support = naming == 'synth' and ex.rng.random() < 0.3
        internal = naming == 'own' or (not support and ex.rng.random() < 0.5)
        nwk = decorate_newick(ex.rng, T, internal=internal, lengths=lengths, support=support)
        cid = 'C18-%d' % k
        D = gen.Dataset(T, naming)
        ex.res.evaluations += 1
        if len(T[1]) > 2 or any(len(gen.sub(T, p)[1]) > 2 for p in gen.paths(T)) or lengths or support:
            ex.res.nontrivial.add(core.case_hash(nwk, naming))
        ex.res.count('trees_' + naming); ex.res.count('with_lengths', int(lengths)); ex.res.count('with_support', int(support))
        if len(ex.res.samples) < 3:
            ex.res.samples.append(dict(newick=nwk, naming=naming))
        bad = []
        o = ob.Obs()
        try:
            tx = pyham.taxonomy.Taxonomy(nwk, tree_format='newick_string', use_internal_name=(naming == 'own'))
        except Exception as e:      # noqa
            ex.fail(cid, D, ['Taxonomy(%r) raised %s: %s' % (nwk, type(e).__name__, e)])
            continue
        try:
            # (a taxonomy whose topology is not the input's cannot be addressed by the input's paths)
            for nd in tx.tree.traverse():
                gen.sub(T, pathof(nd))
            if sum(1 for _ in tx.tree.traverse()) != len(list(gen.paths(T))):
                raise IndexError
        except IndexError:
            ex.fail(cid, D, ['the taxonomy built from %r does not have the topology of the input tree: %s' % (nwk, tx.tree.write(format=9))],
                    call='Taxonomy(%r, use_internal_name=%s)' % (nwk, naming == 'own'))
            continue
        for nd in tx.tree.traverse():
            p = pathof(nd)
            want = gen.display_name(T, p, naming)
            if nd.name != want:
                bad.append('name of %s is %r, expected %r' % (taxS(p), nd.name, want))
            if nd.depth != len(p):
                bad.append('depth of %s is %r' % (taxS(p), nd.depth))
            o.put('txname', '%s=%s|d=%d|leaf=%d' % (taxS(p), nd.name, nd.depth, 1 if nd.is_leaf() else 0))
            anc = nd.up; i = 1
            while anc is not None:
                first = tx.get_path_up(nd, anc)
                got = [pathof(x) for x in first]
                want_path = [p[:len(p) - j] for j in range(1, i)]
                if got != want_path:
                    bad.append('get_path_up(%s,%s) = %s' % (taxS(p), taxS(pathof(anc)), got))
                # the caller may do what it likes with the list it was given: the next query is not affected
                try:
                    first.append(anc); first.reverse()
                    if [pathof(x) for x in tx.get_path_up(nd, anc)] != want_path:
                        bad.append('get_path_up(%s,%s) changes after the caller modified an earlier result' % (taxS(p), taxS(pathof(anc))))
                except AttributeError:
                    pass        # (not a list: nothing to modify)
                o.put('txpath', '%s>%s=%s' % (taxS(p), taxS(pathof(anc)), ','.join(taxS(x) for x in got)))
                anc = anc.up; i += 1
        o.put('txnewick', tx.tree_str)
        for nd in tx.tree.traverse():
            if not nd.is_leaf():
                o.put('txsub', taxS(pathof(nd)) + '=' + tx.get_newick_from_tree(nd))
        # the same tree from a Newick FILE, every label in single quotes (the standard spelling of names with blanks): same names
        # and depths (r10-C18b: the quoted-names option not forwarded on the file route)
        if k % 3 == 1:
            try:
                def qrec(t, root=False):
                    s_ = ("'" + t[0] + "'") if not t[1] else '(' + ','.join(qrec(k_) for k_ in t[1]) + ')' + ("'" + t[0] + "'" if internal and t[0] else '')
                    return s_ if root or not lengths else s_ + ':0.5'
                pq = os.path.join(ex.tmp, 'c18q.nwk')
                with open(pq, 'w') as fq:
                    fq.write(qrec(T, True) + ';\n')
                txq = pyham.taxonomy.Taxonomy(pq, tree_format='newick', use_internal_name=(naming == 'own'))
                ex.res.count('trees_also_read_from_a_quoted_newick_file')
                for nd in txq.tree.traverse():
                    p_ = pathof(nd)
                    if nd.name != gen.display_name(T, p_, naming) or nd.depth != len(p_):
                        bad.append('quoted Newick file route: name / depth of %s is %r / %r' % (taxS(p_), nd.name, nd.depth))
            except Exception as e:      # noqa
                bad.append('quoted Newick file route raised %s: %s' % (type(e).__name__, e))
        # the same tree read from a PhyloXML file: same names, depths, and the same Newick for every subtree (the root included)
        if k % 4 == 0 and all(gen.display_name(T, p_, naming) for p_ in gen.paths(T)):
            try:
                px = os.path.join(ex.tmp, 'c18.phyloxml')
                with open(px, 'w') as fpx:
                    fpx.write(gen.phyloxml(T))
                txp = pyham.taxonomy.Taxonomy(px, tree_format='phyloxml', use_internal_name=(naming == 'own'),
                                              phyloxml_leaf_name_tag='taxonomy_scientific_name', phyloxml_internal_name_tag='taxonomy_scientific_name')
                ex.res.count('trees_also_read_from_phyloxml')
                for nd in txp.tree.traverse():
                    p_ = pathof(nd)
                    if nd.name != gen.display_name(T, p_, naming) or nd.depth != len(p_):
                        bad.append('PhyloXML route: name / depth of %s is %r / %r' % (taxS(p_), nd.name, nd.depth))
                    if not nd.is_leaf():
                        want_ = gen.newick_named(T, p_, naming) + ';'
                        got_ = txp.get_newick_from_tree(nd)
                        if got_ != want_:
                            bad.append('PhyloXML route: get_newick_from_tree(%s) = %r, expected %r' % (taxS(p_), got_, want_))
            except Exception as e:      # noqa
                bad.append('PhyloXML route raised %s: %s' % (type(e).__name__, e))
            pass
        if k % 4 in (0, 2) and all(gen.display_name(T, p_, naming) for p_ in gen.paths(T)):
            # ... and the taxonomy of an ANALYSIS built on that tree (PhyloXML file / Newick text) still is this tree after
            # read-only reporting calls (per-family profiles, the ASCII drawing): names, depths, child order, stored text
            # (r9-C18a, r11-C18a, r11-C18b)
            names_ = [gen.display_name(T, p_, naming) for p_ in gen.paths(T)]
            if not gen.has_unary(T) and len(names_) >= 4 and len(set(names_)) == len(names_):      # (a species named like a clade cannot be declared)
                try:
                    Dh = gen.make_dataset(ex.rng, T=T, naming=naming, nfam=3, P=dict(species_split=0.0, dbsplit=0.0, late_species=0.0, latin1=0.0, unnamed_root=0.0))
                    # (species_resolve_mode="OMA" changes how <species> names are resolved, never how nodes are named: r12-C18b)
                    oma18 = ex.rng.random() < 0.3
                    if oma18:
                        ex.res.count('analyses_in_oma_species_resolve_mode')
                    hh = core.load_py(Dh, **dict(dict(phyloxml_dir=ex.tmp) if k % 4 == 0 else {}, **(dict(species_resolve_mode='OMA') if oma18 else {})))
                    str0_ = hh.taxonomy.tree_str
                    if ex.rng.random() < 0.5:
                        # iHam pages first (before any profile gives every leaf a genome): r13-C18b / C04b / C10b
                        for t_ in hh.get_list_top_level_hogs()[:3]:
                            hh.create_iHam(t_)
                        ex.res.count('iham_pages_before_reinspecting_the_taxonomy')
                    hh.get_ascii_taxonomy()
                    subs_ = [x for t_ in hh.get_list_top_level_hogs() for x in all_nodes(t_) if isinstance(x, ag.HOG) and x.genome.taxon.up is not None]
                    for x in ex.rng.sample(subs_, min(3, len(subs_))):
                        hh.create_tree_profile(hog=x)
                        if hh.taxonomy.tree_str != str0_:
                            bad.append('the stored tree text changed during the profile of a sub-HOG: %r -> %r' % (str0_[:80], hh.taxonomy.tree_str[:80])); break
                    hh.create_tree_profile()
                    ex.res.count('taxonomy_reinspected_after_profiles')
                    seen_ = 0
                    for nd in hh.taxonomy.tree.traverse():
                        p_ = pathof(nd); seen_ += 1
                        if nd.name != gen.display_name(T, p_, naming) or nd.depth != len(p_):
                            bad.append('after tree profiles: name / depth of %s is %r / %r' % (taxS(p_), nd.name, nd.depth))
                    if seen_ != len(list(gen.paths(T))):
                        bad.append('after tree profiles the species tree of the analysis has %d nodes, the input tree %d' % (seen_, len(list(gen.paths(T)))))
                    bad += ['after tree profiles: ' + x_ for x_ in path_problems(hh.taxonomy, ex.rng, 30)[:3]]
                    if hh.taxonomy.get_newick_from_tree(hh.taxonomy.tree) != gen.newick_named(T, (), naming) + ';':
                        bad.append('after tree profiles: Newick of the root is %r' % hh.taxonomy.get_newick_from_tree(hh.taxonomy.tree))
                    if hh.taxonomy.tree_str != str0_:
                        bad.append('the stored tree text changed during read-only calls: %r -> %r' % (str0_[:80], hh.taxonomy.tree_str[:80]))
                except Exception as e:      # noqa
                    bad.append('analysis on the PhyloXML tree + profiles raised %s: %s' % (type(e).__name__, e))
        # the stored Newick re-parses to the same named topology
        def named(T, p=()):
            t = gen.sub(T, p)
            return (gen.display_name(T, p, naming), tuple(named(T, p + (i,)) for i in range(len(t[1]))))
        try:
            t2 = ete3.Tree(tx.tree_str, format=1, quoted_node_names=True)
            if ete_struct(t2) != named(T):
                bad.append('stored newick %r re-parses to another named topology' % tx.tree_str)
            tx2 = pyham.taxonomy.Taxonomy(tx.tree_str, tree_format='newick_string', use_internal_name=True)
            if ete_struct(tx2.tree) != named(T):
                bad.append('Taxonomy(tree_str) differs from the original')
        except Exception as e:      # noqa
            bad.append('re-parsing stored newick %r raised %s' % (tx.tree_str, type(e).__name__))
        if bad:
            ex.fail(cid, D, bad, call='Taxonomy(%r, use_internal_name=%s)' % (nwk, naming == 'own'))
        # the model's Newick READER and ete3's, on the texts pyham wrote (stored text of the tree, text of every subtree)
        def ete_s(nd_):
            return '("' + nd_.name + '"' + ''.join(' ' + ete_s(c_) for c_ in nd_.children) + ')'
        pq_ = []
        for txt_ in [tx.tree_str] + [x_.split('=', 1)[1] for x_ in o.get('txsub')][:6]:
            try:
                o.put('txparse', txt_ + ' => ' + ete_s(ete3.Tree(txt_, format=1, quoted_node_names=True)))
            except Exception as e:      # noqa
                o.put('txparse', txt_ + ' => none')
            pq_.append('(parse %s)' % gen.q(txt_))
        ex.submit(cid, D, o.tags, ['txname', 'txpath', 'txnewick', 'txsub', 'txparse'], emit=['tree'], hist=False, extra=nwk, queries=pq_)
        # duplicate leaf names are rejected with KeyError
        lv = [p for p in gen.paths(T) if not gen.sub(T, p)[1]]
        if len(lv) >= 2 and k % 3 == 0:
            a, b = ex.rng.sample(lv, 2)
            def rename(T, p, name):
                if not p:
                    return (name, T[1])
                ks = list(T[1]); ks[p[0]] = rename(ks[p[0]], p[1:], name)
                return (T[0], tuple(ks))
            T2 = rename(T, a, gen.sub(T, b)[0])
            nwk2 = decorate_newick(ex.rng, T2, internal=internal, lengths=lengths)
            ex.res.count('duplicate_leaf_trees')
            o2 = ob.Obs()
            try:
                pyham.taxonomy.Taxonomy(nwk2, tree_format='newick_string', use_internal_name=(naming == 'own'))
                o2.put('txcheck', 'ok')
                ex.fail(cid + '-dup', gen.Dataset(T2, naming), ['tree with duplicate leaf names accepted: %s' % nwk2])
            except KeyError:
                o2.put('txcheck', 'err:KeyError')
            except Exception as e:      # noqa
                o2.put('txcheck', 'err:' + ob.err_name(e))
                ex.fail(cid + '-dup', gen.Dataset(T2, naming), ['duplicate leaf names raised %s, not KeyError' % type(e).__name__])
            ex.submit(cid + '-dup', gen.Dataset(T2, naming), o2.tags, ['txcheck'], emit=['tree'], hist=False)
    ex.finish()
    ex.close()
    return ex.res

# ------------------------------------------------------------------------------------ C17

def snapshot(h):
    o = ob.Obs()
    try:
        ob.observe_load(h, o)
    except Exception as e:      # noqa
        return ('observation raised %s' % type(e).__name__, None, None, None)
    return (o.get('forest'), o.get('genes'), o.get('genomes'), tuple(o.problems))

def c17(tier, seed):
    ex = Explorer('C17', tier, seed)
    n = budget(tier, 120)
    for k in range(n):
        D = respell(ex.rng, std_dataset(ex.rng, maxleaves=ex.rng.choice([3, 4, 5, 6, 8])))
        cid = 'C17-%d' % k
        ex.note_dataset(D)
        r17_ = ex.rng.random()
        lkw = dict(phyloxml_dir=ex.tmp) if r17_ < 0.25 else dict(newick_dir=ex.tmp) if r17_ < 0.45 else {}
        ex.res.count('tree_as_phyloxml_file' if 'phyloxml_dir' in lkw else 'tree_as_newick_file' if lkw else 'tree_as_newick_string')
        hs = [load_or_fail(ex, cid, D, **lkw), load_or_fail(ex, cid, D, **lkw)]
        if hs[0] is None or hs[1] is None:
            continue
        snaps = [snapshot(h) for h in hs]
        listed0 = [set(genomes_of(h)) for h in hs]
        held = []          # (call index, function that renders the RETURNED OBJECT again)
        taxa = sorted(p for p, g in genomes_of(hs[0]).items() if g.genes)
        tids = sorted(hs[0].get_dict_top_level_hogs(), key=str)
        hogkeys = sorted(nodekey(x) for t in hs[0].get_list_top_level_hogs() for x in all_nodes(t) if isinstance(x, ag.HOG))
        genes = sorted(hs[0].get_dict_extant_genes())
        xvals17 = sorted(set(v for _, gs_ in D.species for _, xr in gs_ for _, v in xr))
        subids = sorted(set(str(x.hog_id) for t in hs[0].get_list_top_level_hogs() for x in all_nodes(t)
                            if isinstance(x, ag.HOG) and x.parent is not None and x.hog_id is not None) | set(str(k_) for k_ in hs[0].get_dict_top_level_hogs() if k_ is not None))
        bad = []
        # "several analyses built from the same inputs": also when the inputs include one ParserFilter OBJECT that is handed to
        # every load (r12-C17a: the indexing pass ticks queried gene ids off the filter's own query set) -- the second analysis
        # is what the first one is, and what a fresh filter with the same queries gives
        if k % 4 == 2 and genes and tids and all(t_ is not None for t_ in tids):
            kind_f = ex.rng.choice(['int', 'int', 'ext', 'hog'])
            q_f = (ex.rng.sample(genes, min(len(genes), ex.rng.randint(1, 3))) if kind_f == 'int' else
                   ex.rng.sample(xvals17, min(len(xvals17), 2)) if kind_f == 'ext' else ex.rng.sample([str(t_) for t_ in tids], 1))
            def mk_f():
                f_ = pyham.ParserFilter()
                dict(int=f_.add_hogs_via_GeneIntId, ext=f_.add_hogs_via_GeneExtId, hog=f_.add_hogs_via_hogId)[kind_f](list(q_f))
                return f_
            if q_f:
                try:
                    shared_f = mk_f()
                    sn_ = [snapshot(core.load_py(D, filter_object=shared_f)), snapshot(core.load_py(D, filter_object=shared_f)),
                           snapshot(core.load_py(D, filter_object=mk_f()))]
                    ex.res.count('analyses_built_through_one_filter_object')
                    if not (sn_[0] == sn_[1] == sn_[2]):
                        bad.append('two analyses built from the same inputs through one ParserFilter object (%s ids %s) differ from each other or from a load through a fresh filter' % (kind_f, q_f))
                except Exception as e:      # noqa
                    bad.append('loading twice through one ParserFilter object raised %s: %s' % (type(e).__name__, e))
        ops = []
        if D.meta.get('colliding_names') and len(taxa) >= 3:
            # names whose concatenations coincide for different pairs: every lineage pair is compared, on either analysis
            # (r13-C17a / C06a / C07b: comparison caches keyed by joined names)
            lp_ = [(a_, d_) for a_ in taxa for d_ in taxa if len(a_) < len(d_) and d_[:len(a_)] == a_]
            ex.rng.shuffle(lp_)
            ops += [[0, 'v', a_, d_] for a_, d_ in lp_[:30]]
            ex.res.count('cases_with_colliding_names')
        nops = ex.rng.randint(5, 40 if tier == 'thorough' else 25)
        for _ in range(nops):
            kind = ex.rng.choice(['v', 'v', 'vrel', 'vrel', 'l', 'l', 'lrel', 'lrel', 'tp', 'tph', 'tph', 'tph', 'iham', 'iham', 'clust', 'lookup', 'gname', 'nav', 'atlevel', 'repeat',
                                  'misc', 'misc', 'misc'])
            if kind == 'misc':
                # the rest of the public surface: listings, the remaining lookups, member navigation, exports to disk
                sub_ = ex.rng.choice(['lists', 'xref', 'mrca', 'levels', 'byspecies', 'toplevel', 'tphtml', 'ihamfile', 'anc_taxon', 'taxon_name', 'ndup', 'ngenes', 'ngenes'])
                wm = ex.rng.randint(0, 1)
                if sub_ == 'ngenes' and taxa:
                    ops.append([wm, sub_, ex.rng.choice(taxa), ex.rng.random() < 0.5]); continue
                if sub_ in ('levels', 'byspecies', 'toplevel') and hogkeys:
                    ops.append([wm, sub_, ex.rng.choice(hogkeys)])
                elif sub_ == 'mrca' and len(taxa) >= 2:
                    ops.append([wm, sub_, ex.rng.sample(taxa, min(len(taxa), ex.rng.randint(2, 3)))])
                elif sub_ in ('anc_taxon', 'taxon_name') and taxa:
                    ops.append([wm, sub_, ex.rng.choice(taxa)])
                elif sub_ == 'ndup' and len(taxa) >= 2:
                    ops.append([wm, sub_] + ex.rng.sample(taxa, 2))
                elif sub_ == 'xref' and xvals17:
                    ops.append([wm, sub_, ex.rng.choice(xvals17)])
                elif sub_ == 'ihamfile' and hogkeys:
                    ops.append([wm, sub_, ex.rng.choice(hogkeys)])
                elif sub_ in ('lists', 'tphtml'):
                    ops.append([wm, sub_])
                continue
            if kind == 'repeat' and ops:
                ops.append(ex.rng.choice(ops)[:]); ops[-1][0] = ex.rng.randint(0, 1); continue
            w = ex.rng.randint(0, 1)
            if kind == 'vrel':
                # a comparison RELATED to an earlier one on the same analysis: same ancestor with a sister / intermediate /
                # deeper genome, or the same descendant with another ancestor (shared lookups, shared caches)
                prev = [o_ for o_ in ops if o_[1] in ('v', 'l')]
                if prev:
                    pw, _, a, b = ex.rng.choice(prev)
                    anc, dsc = (a, b) if len(a) <= len(b) else (b, a)
                    cands = [t for t in taxa if t != dsc and t != anc and t[:len(anc)] == anc] if ex.rng.random() < 0.7 else \
                            [t for t in taxa if t != anc and dsc[:len(t)] == t and t != dsc]
                    if cands:
                        other = ex.rng.choice(cands)
                        ops.append([pw, 'v', anc, other] if other[:len(anc)] == anc else [pw, 'v', other, dsc])
                        ex.res.count('related_comparisons')
                continue
            if kind == 'lrel':
                # a LATERAL comparison related to an earlier lateral one on the same analysis: one of its genomes again, this
                # time with one of its own descendants / ancestors, or with a genome outside its clade (r14-C17a: a cached
                # lineage truncated by an earlier common-ancestor query)
                prevl = [o_ for o_ in ops if o_[1] == 'l']
                if prevl:
                    pw, _, a, b = ex.rng.choice(prevl)
                    s_ = ex.rng.choice([a, b])
                    cands = [t for t in taxa if t != s_ and (t[:len(s_)] == s_ or s_[:len(t)] == t)] if ex.rng.random() < 0.7 else \
                            [t for t in taxa if t != s_ and t[:len(s_)] != s_ and s_[:len(t)] != t]
                    if cands:
                        ops.append([pw, 'l', s_, ex.rng.choice(cands)])
                        ex.res.count('related_lateral_comparisons')
                continue
            if kind == 'gname':
                if subids and ex.rng.random() < 0.5:
                    ops.append([w, 'hogid', ex.rng.choice(subids)]); continue
                ops.append([w, 'gname', ex.rng.choice(taxa)] if taxa else [w, 'tp']); continue
            if kind in ('v', 'l') and len(taxa) >= 2:
                a, b = ex.rng.sample(taxa, 2); ops.append([w, kind, a, b])
            elif kind == 'tp':
                ops.append([w, 'tp'])
            elif kind in ('tph',) and hogkeys:
                ops.append([w, 'tph', ex.rng.choice(hogkeys)])
            elif kind in ('iham', 'nav') and hogkeys:
                ops.append([w, kind, ex.rng.choice(hogkeys)])
            elif kind == 'clust' and taxa:
                ops.append([w, 'clust', ex.rng.choice(taxa)])
            elif kind == 'lookup' and genes:
                ops.append([w, 'lookup', ex.rng.choice(genes)])
            elif kind == 'atlevel' and hogkeys and taxa:
                ops.append([w, 'atlevel', ex.rng.choice(hogkeys), ex.rng.choice(taxa)])
        ex.res.count('ops', len(ops))
        def run_op(h, op, keep):
            gs = genomes_of(h)
            byk = {nodekey(x): x for t in h.get_list_top_level_hogs() for x in all_nodes(t)}
            kind = op[1]
            try:
                if kind == 'v':
                    m = h.compare_genomes_vertically(gs[op[2]], gs[op[3]])
                    out_ = 'vmap ' + ob.vmapS(m) + ' nd=%s' % m.get_number_duplications()
                    # what a caller does with the dictionaries it was handed: subscript look-ups of every ancestral gene
                    # (KeyError for the ones that are not keys) -- a read leaves the comparison as it is (r11-C17a / C09a)
                    for d_ in (m.get_duplicated(), m.get_retained()):
                        for x_ in list(m.ancestor.genes):
                            try:
                                d_[x_]
                            except KeyError:
                                pass
                    return out_
                if kind == 'l':
                    lm = h.compare_genomes_lateral(gs[op[2]], gs[op[3]])
                    lm.get_lost(); lm.get_gained(); lm.get_retained(); lm.get_duplicated()
                    rl = lambda: 'lmap anc=%s|' % taxS(pathof(lm.ancestor.taxon)) + ' # '.join(sorted(ob.hmapS(m) for m in lm.maps.values()))
                    keep.append(rl)
                    return rl()
                if kind == 'tp':
                    tp_ = h.create_tree_profile()
                    keep.append(lambda: 'tpfull ' + ob.profileS(tp_.treemap))
                    return keep[-1]()
                if kind == 'tph':
                    t = byk[op[2]]
                    tp_ = h.create_tree_profile(hog=t)
                    keep.append(lambda: 'tphog ' + ob.profileS(tp_.treemap, pathof(t.genome.taxon)))
                    return keep[-1]()
                if kind == 'iham':
                    x = byk[op[2]]
                    vis = h.create_iHam(x)
                    from lxml import etree
                    def ri_():
                        # (rendered from the RETURNED page object, now and again after the whole call sequence: r13-C17b, one XML
                        # element per gene shared between the documents of all pages)
                        root = etree.fromstring(vis.orthoxml.get_orthoxml_str().encode())
                        ns = '{http://orthoXML.org/2011/}'
                        sp = sorted(x.get('name') + ':' + ','.join(sorted(g.get('id') for g in x.iter(ns + 'gene'))) for x in root.findall(ns + 'species'))
                        pgatt = sorted(str(sorted(x_.attrib.items())) for x_ in root.iter(ns + 'paralogGroup'))      # (labels written on paralogGroups)
                        return 'iham ' + vis.famdata + vis.newick_str + ' '.join(sorted(ob.xml_struct(c) for c in root.find(ns + 'groups'))) + ';'.join(sp) + str(pgatt)
                    keep.append(ri_)
                    return ri_()
                if kind == 'nav':
                    x = byk[op[2]]
                    return 'nav ' + ','.join(sorted(g.unique_id for g in x.get_all_descendant_genes())) + '|' + ob.keysS(x.get_all_descendant_hogs())
                if kind == 'clust':
                    g = gs[op[2]]
                    if hasattr(g, 'get_ancestral_clustering'):
                        return 'clust ' + ';'.join(sorted(nodekey(a) + '=' + ','.join(sorted(z.unique_id for z in b)) for a, b in g.get_ancestral_clustering().items()))
                    return 'clust -'
                if kind == 'hogid':
                    x = h.get_hog_by_id(op[2])
                    return 'hogid %s' % nodekey(x)
                if kind == 'lists':
                    return 'lists ' + '|'.join([','.join(sorted(map(str, h.get_dict_top_level_hogs()))), ','.join(sorted(x.unique_id for x in h.get_list_extant_genes())),
                                                ','.join(sorted(x.name for x in h.get_list_extant_genomes() if x.genes)),
                                                ','.join(sorted(x.name for x in h.get_list_ancestral_genomes() if x.genes)),
                                                ','.join(sorted(nodekey(x) for x in h.get_list_top_level_hogs()))])
                if kind == 'ngenes':
                    g_ = gs[op[2]]
                    return 'ngenes %s' % (g_.get_number_genes(singleton=op[3]) if not g_.taxon.children else g_.get_number_genes())
                if kind == 'xref':
                    return 'xref ' + ','.join(sorted(x.unique_id for x in h.get_genes_by_external_id(op[2])))
                if kind == 'mrca':
                    wp_ = gen.lcp(list(op[2]))
                    if wp_ not in gs or not gs[wp_].genes:
                        return 'mrca at a taxon without genes (a genome may or may not exist there yet: permitted)'
                    return 'mrca ' + taxS(pathof(h.get_ancestral_genome_by_mrca_of_genome_set(set(gs[t_] for t_ in op[2])).taxon))
                if kind == 'levels':
                    return 'levels ' + ','.join(sorted(taxS(pathof(x.taxon)) for x in byk[op[2]].get_all_descendant_hog_levels()))
                if kind == 'byspecies':
                    return 'byspecies ' + ';'.join(sorted(k_.name + ':' + ','.join(sorted(x.unique_id for x in v_)) for k_, v_ in byk[op[2]].get_all_descendant_genes_clustered_by_species().items()))
                if kind == 'toplevel':
                    return 'toplevel ' + nodekey(byk[op[2]].get_top_level_hog())
                if kind == 'tphtml':
                    pth = os.path.join(ex.tmp, 'c17tp.html')
                    h.create_tree_profile(outfile=pth, as_html=True)
                    return 'tphtml ' + json.dumps(orc.html_tree_data(pth), sort_keys=True)
                if kind == 'ihamfile':
                    pth = os.path.join(ex.tmp, 'c17iham.html')
                    vis_ = h.create_iHam(byk[op[2]], outfile=pth)
                    return 'ihamfile %s %s' % (open(pth).read() == vis_.HTML, vis_.famdata)
                if kind == 'anc_taxon':
                    g_ = gs[op[2]]
                    return 'anc_taxon ' + (g_.name if h.get_ancestral_genome_by_taxon(g_.taxon) is g_ else 'OTHER')
                if kind == 'taxon_name':
                    g_ = gs[op[2]]
                    return 'taxon_name ' + taxS(pathof(h.get_taxon_by_name(g_.name)))
                if kind == 'ndup':
                    m_ = h.compare_genomes_vertically(gs[op[2]], gs[op[3]])
                    return 'ndup %s %s' % (m_.get_number_duplications(), taxS(pathof(m_.ancestor.taxon)) + '>' + taxS(pathof(m_.descendant.taxon)))
                if kind == 'gname':
                    g = gs[op[2]]
                    f = h.get_ancestral_genome_by_name if g.taxon.children else h.get_extant_genome_by_name
                    return 'gname %s %s' % (taxS(op[2]), 'same' if f(g.name) is g else 'OTHER')
                if kind == 'lookup':
                    g = h.get_gene_by_id(op[2])
                    return 'lookup %s\t%s\t%s' % (g.unique_id, g.genome.name, nodekey(h.get_hog_by_gene(g)) if g.parent is not None else 'singleton')
                if kind == 'atlevel':
                    x = byk[op[2]]
                    return 'atlevel ' + ob.keysS(x.get_at_level(gs[op[3]]))
            except Exception as e:      # noqa
                return 'err:' + ob.err_name(e)
        outs = []
        for i, op in enumerate(ops):
            keep = []
            outs.append(run_op(hs[op[0]], op, keep))
            held += [(i, f) for f in keep]
        listings = [','.join(sorted(taxS(p) for p in genomes_of(h))) for h in hs]      # taxa carrying a genome now
        # the only permitted side effect (theorem C17_listing): what was listed stays listed, what is new is empty
        for i, h in enumerate(hs):
            now = genomes_of(h)
            if not listed0[i] <= set(now):
                bad.append('analysis %d: a genome that was listed after loading is no longer listed' % i)
            for p_, g_ in now.items():
                if p_ not in listed0[i] and len(g_.genes) != 0:
                    bad.append('analysis %d: the genome that appeared at %s during the calls is not empty' % (i, taxS(p_)))
            ex.res.count('genomes_created_lazily', len(set(now) - listed0[i]))
        # a result that was handed out must not change when later calls are made (no aliasing of returned objects)
        for i, f in held:
            try:
                again = f()
            except Exception as e:      # noqa
                again = 'err:' + ob.err_name(e)
            if again != outs[i]:
                bad.append('the object returned by call #%d %s changed after later calls' % (i, ops[i][1:]))
        ex.res.count('returned_objects_reread', len(held))
        fresh_out = []
        for op in ops:
            try:
                fh = core.load_py(D, **lkw)
            except Exception as e:      # noqa
                bad.append('loading the same inputs again raised %s: %s' % (type(e).__name__, str(e)[:120])); break
            fresh_out.append(run_op(fh, op, []))
        for i, (a, b) in enumerate(zip(outs, fresh_out)):
            if a != b:
                bad.append('call #%d %s returns a result that differs from the same call on a fresh analysis' % (i, ops[i][1:]))
        for i, h in enumerate(hs):
            # listings and lookups by name still agree (genomes created lazily by the calls above included)
            for g in h.get_list_ancestral_genomes() + h.get_list_extant_genomes():
                try:
                    f = h.get_ancestral_genome_by_name if g.taxon.children else h.get_extant_genome_by_name
                    if f(g.name) is not g:
                        bad.append('analysis %d: listed genome %r is not the one returned by its name' % (i, g.name))
                except KeyError:
                    bad.append('analysis %d: listed genome %r raises KeyError when looked up by name after the call sequence' % (i, g.name))
            s2 = snapshot(h)
            if s2 != snaps[i]:
                bad.append('analysis %d changed after the call sequence (%s)' % (i, 'forest' if s2[0] != snaps[i][0] else 'genes' if s2[1] != snaps[i][1] else 'genome content' if s2[2] != snaps[i][2] else 'links'))
        if bad:
            ex.fail(cid, D, bad, extra=dict(ops=ops))
        # correspondence with the session state machine of the model (Model/Session.lean, the object of theorem
        # C17_history_independent): the call sequence of each analysis is replayed by `run (init H)` in the driver
        for w in (0, 1):
            sops = []; pyo = []
            for op, out in zip(ops, outs):
                if op[0] != w or out is None:
                    continue
                kind = op[1]
                if kind == 'v':
                    sops.append('(v %s %s)' % (tax_q(op[2]), tax_q(op[3])))
                    pyo.append(out.rsplit(' nd=', 1)[0] if out.startswith('vmap ') else out)
                elif kind == 'l':
                    sops.append('(l %s %s)' % (tax_q(op[2]), tax_q(op[3]))); pyo.append(out)
                elif kind == 'tp':
                    sops.append('(tp)'); pyo.append('feats ' + out[7:] if out.startswith('tpfull ') else out)
                elif kind == 'tph':
                    sops.append('(tph %s)' % gen.q(op[2])); pyo.append('feats ' + out[6:] if out.startswith('tphog ') else out)
                elif kind == 'clust' and gen.sub(D.T, op[2])[1]:
                    sops.append('(clust %s)' % tax_q(op[2])); pyo.append(out)
                elif kind == 'lookup':
                    sops.append('(gene %s)' % gen.q(op[2]))
                    pyo.append('gene ' + ' '.join(out[7:].split('\t')[0:2]) if out.startswith('lookup ') else out)      # (names may hold blanks)
                elif kind == 'nav':
                    sops.append('(genes %s)' % gen.q(op[2]))
                    pyo.append('genes ' + out[4:].split('|')[0] if out.startswith('nav ') else out)
            if sops:
                so = ob.Obs(); so.put('load', 'ok')
                for i, x in enumerate(pyo):
                    so.put('session', '%d:%s' % (i, x))
                so.put('listing', listings[w])
                ex.res.count('session_ops_replayed_by_model', len(sops))
                ex.submit('%s-s%d' % (cid, w), D, so.tags, ['load', 'session'], queries=['(session %s)' % ' '.join(sops)], hist=False)
        # correspondence: every comparison / profile output equals the model's pure function value
        o = ob.Obs(); o.put('load', 'ok'); queries = []; seen = set()
        for op, out in zip(ops, outs):
            if op[1] == 'v' and (op[2], op[3]) not in seen:
                seen.add((op[2], op[3]))
                queries.append('(v %s %s)' % (tax_q(op[2]), tax_q(op[3])))
                if out.startswith('vmap '):
                    o.put('vmap', out[5:].rsplit(' nd=', 1)[0])
                else:
                    o.put('verr', '%s,%s=%s' % (taxS(op[2]), taxS(op[3]), out[4:]))
        if any(op[1] == 'tp' for op in ops):
            o.put('tpfull', [x for op, x in zip(ops, outs) if op[1] == 'tp'][0][7:])
            ex.submit(cid, D, o.tags, ['load', 'vmap', 'verr', 'tpfull'], emit=['profiles'], queries=queries)
        else:
            ex.submit(cid, D, o.tags, ['load', 'vmap', 'verr'], queries=queries)
    ex.finish()
    ex.close()
    return ex.res
