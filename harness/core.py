"""Core of the correspondence harness: running pyham and the Lean driver on the same cases,
comparing tagged canonical lines, replays, evidence."""
import os, sys, json, time, subprocess, hashlib, random, traceback, tempfile, shutil

HERE = os.path.dirname(os.path.abspath(__file__))
VERIF = os.path.dirname(HERE)
LEAN_DIR = os.path.join(VERIF, 'lean')
DRIVER = os.environ.get('VERIF_DRIVER') or os.path.join(LEAN_DIR, '.lake', 'build', 'bin', 'driver')   # (VERIF_DRIVER: model-mutation sweeps only)
sys.path.insert(0, HERE)

import gen                                                       # noqa: E402
import observe as ob                                             # noqa: E402
from observe import pyham, ag                                    # noqa: E402
import saxtrace                                                  # noqa: E402
saxtrace.install()        # lock-step trace of the streaming parser (wrappers in this process; /repo is not edited)

class Infra(Exception):
    """infrastructure problem: exit 2, never a violation"""

# ------------------------------------------------------------------------------- Lean side

def lean_build():
    """(ok, log).  A failing build is not by itself a violation (see DESIGN 4.3)."""
    t0 = time.time()
    p = subprocess.run(['lake', 'build'], cwd=LEAN_DIR, stdout=subprocess.PIPE, stderr=subprocess.STDOUT, text=True)
    return p.returncode == 0, p.stdout, time.time() - t0

_AUDIT_CACHE = {}

def lean_audit():
    """parse `#print axioms` output of Audit.lean -> {theorem: [axioms]}"""
    if 'a' in _AUDIT_CACHE:
        return _AUDIT_CACHE['a']
    p = subprocess.run(['lake', 'env', 'lean', 'PyhamModel/Audit.lean'], cwd=LEAN_DIR, stdout=subprocess.PIPE,
                       stderr=subprocess.STDOUT, text=True)
    res = {}
    txt = p.stdout.replace('\n  ', ' ')
    import re
    for m in re.finditer(r"'([^']+)' depends on axioms: \[([^\]]*)\]", txt):
        res[m.group(1)] = [a.strip() for a in m.group(2).split(',') if a.strip()]
    for m in re.finditer(r"'([^']+)' does not depend on any axioms", txt):
        res[m.group(1)] = []
    _AUDIT_CACHE['a'] = (res, p.returncode, p.stdout)
    return _AUDIT_CACHE['a']

FORBIDDEN = ['sorry', 'admit', 'native_decide', 'bv_decide', 'implemented_by', 'unsafe ', 'maxHeartbeats 0']

def lean_grep():
    """comment-stripping grep for forbidden constructs in the Lean sources"""
    import re
    hits = []
    for root, _, files in os.walk(LEAN_DIR):
        if '.lake' in root:
            continue
        for f in files:
            if not f.endswith('.lean'):
                continue
            src = open(os.path.join(root, f)).read()
            src = re.sub(r'/-.*?-/', '', src, flags=re.S)
            src = re.sub(r'--.*', '', src)
            for w in FORBIDDEN + ['\naxiom ']:
                if w in src:
                    hits.append((f, w.strip()))
    return hits

def run_driver(lines):
    """lines: list of s-expression case lines -> {cid: {tag: sorted [payload]}}"""
    if not os.path.exists(DRIVER):
        raise Infra('driver binary missing: ' + DRIVER)
    p = subprocess.run([DRIVER], input='\n'.join(lines) + '\n', stdout=subprocess.PIPE, stderr=subprocess.PIPE, text=True)
    if p.returncode != 0:
        raise Infra('driver failed: ' + p.stderr[:500])
    out = {}
    for ln in p.stdout.split('\n'):
        if not ln:
            continue
        parts = ln.split('\t', 2)
        if len(parts) != 3:
            raise Infra('bad driver line: ' + ln[:200])
        cid, tag, payload = parts
        out.setdefault(cid, {}).setdefault(tag, []).append(payload)
    for cid in out:
        for tag in out[cid]:
            out[cid][tag].sort()
    return out

def run_driver_parallel(lines, jobs=8):
    if len(lines) < 64 or jobs <= 1:
        return run_driver(lines)
    from concurrent.futures import ThreadPoolExecutor
    chunks = [lines[i::jobs] for i in range(jobs)]
    out = {}
    with ThreadPoolExecutor(jobs) as ex:
        for r in ex.map(run_driver, chunks):
            out.update(r)
    return out

# ------------------------------------------------------------------------------ pyham side

def nwk_of(D, with_internal=True, quoted=False):
    """the Newick text fed to pyham; optionally decorated with branch lengths (D.meta['lengths']) and, for
    synthesised names, written without internal names (D.meta['nointernal'])"""
    if D.meta.get('nointernal') and D.naming == 'synth':
        with_internal = False
    if not D.meta.get('lengths') and not quoted:
        return gen.newick(D.T, with_internal) + ';'
    qn = (lambda x: "'" + x + "'" if x else x) if quoted else (lambda x: x)      # quoted labels (legal Newick; needed for blanks, commas)
    def rec(t, root=False):
        s_ = qn(t[0]) if not t[1] else '(' + ','.join(rec(k) for k in t[1]) + ')' + (qn(t[0]) if with_internal else '')
        if not D.meta.get('lengths'):
            return s_
        # (zero-length branches included: distance-based shortcuts must not confuse a genome with its ancestor)
        # (... and lengths that add up to exactly 1 over two edges: r12-C12a, a depth computed from distances)
        return s_ if root else s_ + ':' + ('0.1', '2.5', '0', '0.0', '1', '0.5')[sum(map(ord, t[0])) % 6]
    return rec(D.T, True) + ';'

def load_py(D, groups=None, species=None, **kw):
    """load the dataset with pyham (in-memory string transport); returns the Ham object"""
    saxtrace.reset()
    style = D.meta.get('style')
    if species is not None and style and style.get('late_species'):
        style = dict(style, late_species=None)        # (positions refer to D.species, not to the overriding list)
    xml = gen.orthoxml(species if species is not None else D.species, groups if groups is not None else D.groups,
                       dbsplit=bool(D.meta.get('dbsplit')), style=style)
    if D.naming == 'own' or 'use_internal_name' in kw or len(xml) % 2:
        kw.setdefault('use_internal_name', D.naming == 'own')
    # (else: synthesised names are the documented default -- the argument is left out in half of those loads)
    phylo_dir = kw.pop('phyloxml_dir', None)
    if phylo_dir and D.T[0] != '' and not D.meta.get('no_phyloxml'):      # (a PhyloXML clade cannot carry an empty name; unlabelled roots go the Newick way)
        # the same tree supplied as a PhyloXML file (names in <taxonomy><scientific_name>)
        path = os.path.join(phylo_dir, 'tree.phyloxml')
        with open(path, 'w') as f:
            f.write(gen.phyloxml(D.T))
        return pyham.Ham(tree_file=path, tree_format='phyloxml', hog_file=xml, orthoXML_as_string=True, **kw)
    newick_dir = kw.pop('newick_dir', None)
    if newick_dir:
        # the same tree supplied as a Newick FILE
        path = os.path.join(newick_dir, 'tree.nwk')
        if not os.path.exists(path) or open(path).read() != nwk_of(D):      # (an unchanged file is not touched: same mtime)
            with open(path, 'w') as f:
                f.write(nwk_of(D))
        return pyham.Ham(tree_file=path, tree_format='newick', hog_file=xml, orthoXML_as_string=True, **kw)
    return pyham.Ham(tree_file=nwk_of(D), hog_file=xml, orthoXML_as_string=True, **kw)

def sax_of_last_load(pytags):
    """the trace of the load that has just been made: puts the state sequence read off pyham's parser object into `pytags`
    (a dict tag -> [payload]) and returns (queries, tags) for the driver, which replays the recorded calls through the
    stack machine of Model/Sax.lean"""
    t = saxtrace.last()
    if t is None or t.end.startswith('err-at-foreign-call'):
        return [], []
    pytags.setdefault('saxtr', []).append(t.text() + ('!' + t.problems[0] if t.problems else ''))
    pytags.setdefault('saxev', []).append('1')
    qs, tags = [saxtrace.query(t)], ['saxtr', 'saxev']
    tf = saxtrace.last_filter()
    if tf is not None and t.flt is not None:
        # a filtered load: the first (indexing) pass too, call by call
        pytags.setdefault('saxftr', []).append(tf.text())
        qs.append(saxtrace.query_filter(tf)); tags.append('saxftr')
    return qs, tags

def try_load(D, **kw):
    try:
        return load_py(D, **kw), None
    except Exception as e:                       # noqa
        return None, e

def declared_map(D):
    return {g: xr for _, genes in D.species for g, xr in genes}

# ------------------------------------------------------------------------- comparing / verdicts

def diff_tags(py, lean, tags):
    """[(tag, only_py, only_lean)] for the tags that differ (multiset comparison)"""
    out = []
    for t in tags:
        a = sorted(py.get(t, [])); b = sorted(lean.get(t, []))
        if a != b:
            sa = list(a); sb = list(b)
            for x in list(sa):
                if x in sb:
                    sa.remove(x); sb.remove(x)
            out.append((t, sa[:6], sb[:6]))
    return out

def case_hash(*parts):
    h = hashlib.sha1()
    for p in parts:
        h.update(repr(p).encode())
    return h.hexdigest()[:16]

class Result(object):
    def __init__(self, prop):
        self.prop = prop
        self.evaluations = 0
        self.nontrivial = set()
        self.samples = []
        self.hist = {}
        self.mismatches = []      # correspondence differences: dict(case=..., tag=..., py=..., lean=...)
        self.oracle_failures = [] # property false on pyham: dict(case=..., clause=...)
        self.infra = []
        self.traces_validated = 0
        self.notes = []
    def count(self, key, n=1):
        self.hist[key] = self.hist.get(key, 0) + n

def write_replay(prop, seed, idx, payload):
    d = os.environ.get('VERIF_REPLAY_DIR') or os.path.join(VERIF, 'replays')     # (mutation sweeps write elsewhere)
    os.makedirs(d, exist_ok=True)
    path = os.path.join(d, '%s-%s-%s.json' % (prop, seed, idx))
    payload = dict(payload, property=prop, seed=seed, case=idx)
    payload.pop('_D', None)
    with open(path, 'w') as f:
        json.dump(payload, f, indent=1, default=str)
    return os.path.relpath(path, VERIF)

def dataset_payload(D, groups=None, species=None):
    return dict(newick=nwk_of(D), naming=D.naming,
                orthoxml=gen.orthoxml(species if species is not None else D.species, groups if groups is not None else D.groups, dbsplit=bool(D.meta.get('dbsplit')),
                                      style=(D.meta.get('style') if species is None else dict(D.meta.get('style') or {}, late_species=None))),
                sexp=gen.sx_case('replay', D.T, D.naming, species if species is not None else D.species,
                                 groups if groups is not None else D.groups,
                                 histories=[(p, l) for p, l, _ in D.families]))

def load_known_findings():
    p = os.path.join(VERIF, 'known_findings.json')
    if not os.path.exists(p):
        return []
    return json.load(open(p)).get('findings', [])
