"""--replay: re-run the property oracle and the correspondence on a stored input"""
import json, os, sys
import core, gen, oracles as orc
import observe as ob
from observe import pyham

def run(prop, path):
    if not os.path.isabs(path):
        path = os.path.join(core.VERIF, path)
    r = json.load(open(path))
    inp = r.get('input') or (r.get('mismatch') or {}).get('input')
    if not inp:
        print('replay file carries no input (%s): %s' % (r.get('kind'), r.get('broken')))
        return 1
    print('replaying', prop, 'on', inp['newick'], 'naming', inp['naming'])
    try:
        h = pyham.Ham(tree_file=inp['newick'], hog_file=inp['orthoxml'], orthoXML_as_string=True, use_internal_name=(inp['naming'] == 'own'))
        print('load ok: %d families, %d genes' % (len(h.get_dict_top_level_hogs()), len(h.get_dict_extant_genes())))
        bad = orc.wf_problems(h)
        for b in bad[:10]:
            print('  WF:', b)
    except Exception as e:      # noqa
        print('load raised', type(e).__name__, e)
    # the lock step on this input, now: the calls the XML library makes, replayed through the stack machine of the model
    pyt = {}
    sq, st = core.sax_of_last_load(pyt)
    sexp = inp['sexp']
    if sq and sexp.rstrip().endswith(')'):
        sexp = sexp.rstrip()[:-1] + ' (queries %s))' % ' '.join(sq) if '(queries' not in sexp else sexp
    lean = core.run_driver([sexp])
    for t_ in st:
        same = sorted(pyt.get(t_, [])) == sorted(lean.get('replay', {}).get(t_, []))
        print('  lock step %s: %s' % (t_, 'parser object and stack machine agree call by call' if same else 'DIFFER'))
        if not same:
            a_ = (pyt.get(t_) or [''])[0].split(';'); b_ = (lean.get('replay', {}).get(t_) or [''])[0].split(';')
            k_ = next((i_ for i_, (x_, y_) in enumerate(zip(a_, b_)) if x_ != y_), min(len(a_), len(b_)))
            print('    first difference at call %d: pyham %s | model %s' % (k_, a_[k_:k_ + 1], b_[k_:k_ + 1]))
    for tag, v in sorted(lean.get('replay', {}).items()):
        for x in v[:4]:
            print('  model', tag, x[:300])
    print('recorded failing clauses:', r.get('clauses') or r.get('broken'))
    return 1 if (r.get('clauses') or r.get('broken')) else 0
