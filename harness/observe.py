"""Observation of pyham's object graph as the tagged canonical lines the Lean driver prints
(abstraction step, DESIGN 4.2).  Everything an inductive value cannot express (link symmetry,
single parent, genome/taxon binding, flag/event agreement) is checked here and returned as
`structure` problems."""
import sys, os, logging, re, json

REPO = os.environ.get('PYHAM_REPO', '/repo')
if sys.path[0] != REPO:
    sys.path.insert(0, REPO)
os.environ.setdefault('PYHAM_VERIF', '1')
import pyham                                                    # noqa: E402
from pyham import abstractgene as ag                            # noqa: E402
from pyham.iham import OrthoXML_manager                         # noqa: E402
logging.disable(logging.CRITICAL)

assert os.path.realpath(pyham.__file__).startswith(os.path.realpath(REPO)), (pyham.__file__, REPO)

ERR = {KeyError: 'KeyError', TypeError: 'TypeError', ValueError: 'ValueError', IndexError: 'IndexError',
       AttributeError: 'AttributeError'}

def err_name(e):
    for k, v in ERR.items():
        if type(e) is k:
            return v
    if type(e).__name__ == 'EvolutionaryConceptError':
        return 'EvolutionaryConceptError'
    return 'Other:' + type(e).__name__

def safe(x):
    """a description of a pyham object that cannot raise (pyham's own __repr__ can)"""
    try:
        return nodekey(x)
    except Exception:      # noqa
        try:
            return '%s#%s' % (type(x).__name__, getattr(x, 'unique_id', getattr(x, 'hog_id', '?')))
        except Exception:  # noqa
            return type(x).__name__

def pathof(node):
    p = []
    while node.up is not None:
        p.append(node.up.children.index(node))
        node = node.up
    return tuple(reversed(p))

def taxS(p):
    return 'r' + ''.join('.%d' % i for i in p)

def gtax(x):
    """taxon path of a gene/HOG/genome"""
    g = x.genome if isinstance(x, ag.AbstractGene) else x
    return pathof(g.taxon)

def leaves(n):
    if isinstance(n, ag.Gene):
        return [n.unique_id]
    out = []
    for c in n.children:
        out += leaves(c)
    return out

def nodekey(n):
    return taxS(gtax(n)) + ':' + ','.join(sorted(leaves(n)))

def flagS(n):
    return '+' if n.arose_by_duplication != False else '-'   # noqa: E712

def osS(s):
    return 'None' if s is None else "'" + str(s) + "'"

class Structure(Exception):
    pass

def forestS(n, problems, seen=None):
    """canonical nested form + link checks"""
    if seen is None:
        seen = set()
    if id(n) in seen:
        problems.append('object reachable twice: %s' % safe(n))
        return 'CYCLE'
    seen.add(id(n))
    if isinstance(n, ag.Gene):
        return 'G[%s@%s %s]' % (n.unique_id, taxS(gtax(n)), flagS(n))
    if n.genome is None:
        problems.append('HOG without genome: %s' % safe(n))
        return 'H[?]'
    kids = []
    for c in n.children:
        if c.parent is not n:
            problems.append('child.parent is not hog: child %s of %s' % (safe(c), safe(n)))
        kids.append(forestS(c, problems, seen))
    dups = []
    for d in n.duplications:
        if d.parent is not n:
            problems.append('duplication.parent is not its hog at %s' % nodekey(n))
        mem = []
        for c in d.children:
            if c.arose_by_duplication is not d:
                problems.append('member of an event is not flagged with it at %s' % nodekey(n))
            if not any(c is k for k in n.children):
                problems.append('member of an event is not a child of its hog at %s' % nodekey(n))
            mem.append(nodekey(c))
        dups.append('D(%s:%s)' % (taxS(gtax(d.MRCA)) if d.MRCA is not None else '?', '|'.join(sorted(mem))))
    for c in n.children:
        f = c.arose_by_duplication
        if f != False and not any(f is d for d in n.duplications):   # noqa: E712
            problems.append('child flagged with an event that is not attached to its parent at %s' % nodekey(n))
    return 'H[%s %s {%s} <%s>]' % (taxS(gtax(n)), flagS(n), ' '.join(sorted(kids)), ' '.join(sorted(dups)))

def kvS(pairs):
    return ','.join(sorted('%s=%s' % (k, v) for k, v in pairs))

def all_nodes(n):
    yield n
    if isinstance(n, ag.HOG):
        for c in n.children:
            yield from all_nodes(c)

def genomes_of(h):
    """{taxon path: genome} for every tree node carrying a genome"""
    out = {}
    for t in h.taxonomy.tree.traverse():
        if 'genome' in t.features:
            out[pathof(t)] = t.genome
    return out

def gene_xrefs(g, declared):
    return declared.get(g.unique_id, [])

class Obs(object):
    """tag -> list of payload strings"""
    def __init__(self):
        self.tags = {}
        self.problems = []
    def put(self, tag, payload):
        self.tags.setdefault(tag, []).append(payload)
    def get(self, tag):
        return sorted(self.tags.get(tag, []))

def observe_load(h, o, pfx='', declared=None):
    """tags genes / members / forest / genomes / agname  (+ structure problems)"""
    declared = declared or {}
    tops = h.get_dict_top_level_hogs()
    infam = set()
    for hid, top in tops.items():
        o.put(pfx + 'members', osS(hid) + '=' + ','.join(sorted(leaves(top))))
        o.put(pfx + 'forest', osS(hid) + '=' + forestS(top, o.problems))
        if top.parent is not None:
            o.problems.append('top-level hog has a parent: %s' % hid)
        for n in all_nodes(top):
            if isinstance(n, ag.Gene):
                if n.unique_id in infam:
                    o.problems.append('gene in two places: %s' % n.unique_id)
                infam.add(n.unique_id)
    for gid, g in h.get_dict_extant_genes().items():
        single = g.parent is None
        if single != (gid not in infam):
            o.problems.append('parent link of gene %s disagrees with family membership' % gid)
        if g.genome is None or sum(1 for x in g.genome.genes if x is g) != 1:
            o.problems.append('gene %s not exactly once in its genome' % gid)
        if gid != g.unique_id:
            o.problems.append('gene map key %s maps to gene %s' % (gid, g.unique_id))
        xr = [(k, v) for k, v in (('geneId', g.gene_id), ('protId', g.prot_id), ('transcriptId', g.transcript_id)) if v is not None]
        o.put(pfx + 'genes', '%s|%s|%s|%s|%s' % (g.unique_id, g.genome.name, taxS(gtax(g)), '1' if single else '0', kvS(xr)))
    reach = {}
    for top in tops.values():
        for n in all_nodes(top):
            reach[id(n)] = n
    for p, g in sorted(genomes_of(h).items()):
        if g.taxon.genome is not g:
            o.problems.append('genome/taxon binding broken at %s' % taxS(p))
        if not g.genes:
            continue
        if g.taxon.is_leaf():
            gm_ = h.get_dict_extant_genes()
            if any(gm_.get(x.unique_id) is not x for x in g.genes) or len(set(x.unique_id for x in g.genes)) != len(g.genes):
                o.problems.append('the genome at %s lists a gene twice, or a gene object that is not the one the analysis returns for that id' % taxS(p))
            o.put(pfx + 'genomes', taxS(p) + '=' + ';'.join(sorted('g:' + x.unique_id for x in g.genes)))
        else:
            ks = []
            for x in g.genes:
                if x.genome is not g:
                    o.problems.append('hog registered in a genome it does not point to at %s' % taxS(p))
                ks.append(nodekey(x) if id(x) in reach else 'orphan')
            o.put(pfx + 'genomes', taxS(p) + '=' + ';'.join(sorted(ks)))
            o.put(pfx + 'agname', taxS(p) + '=' + str(g.name))
    # every reachable HOG must be registered in its genome exactly once (checked through the genomes tag as well)
    return o

def observe_ann(h, o):
    for top in h.get_list_top_level_hogs():
        for n in all_nodes(top):
            if isinstance(n, ag.HOG):
                sc = getattr(n, 'scores', {})
                o.put('annall', '%s|%s|%s|%s|%s' % (nodekey(n), osS(n.hog_id), osS(n.og),
                                                    kvS((k, repr(v)) for k, v in sc.items()), kvS(n._properties.items())))
            else:
                o.put('loft', '%s=%s' % (n.unique_id, osS(getattr(n, 'hog_id', None))))
    for g in h.get_list_extant_genes():
        if g.parent is None:
            o.put('loft', '%s=%s' % (g.unique_id, osS(getattr(g, 'hog_id', None))))

def keysS(ns):
    return ';'.join(sorted(nodekey(n) for n in ns))

def hmapS(m):
    a = gtax(m.ancestor); d = gtax(m.descendant)
    return '|'.join([
        taxS(a) + '>' + taxS(d),
        'G=' + keysS(m.GAIN),
        'R=' + ';'.join(sorted(nodekey(k) + '>' + nodekey(v) for k, v in m.RETAINED.items())),
        'D=' + ';'.join(sorted(nodekey(k) + '>' + '+'.join(sorted(nodekey(x) for x in v)) for k, v in m.DUPLICATE.items())),
        'L=' + keysS(m.LOSS),
        'n=%d' % m.number_duplication,
        'c=%d' % (1 if m.consistent else 0)])

class _PubView(object):
    """the vertical map as a user sees it: through the public accessors of MapVertical"""
    def __init__(self, v):
        self.ancestor = v.ancestor; self.descendant = v.descendant
        self.GAIN = v.get_gained(); self.LOSS = v.get_lost()
        self.RETAINED = v.get_retained(); self.DUPLICATE = v.get_duplicated()
        self.number_duplication = v.get_number_duplications()
        self.consistent = v.map.consistent

def vmapS(v):
    """hmapS of a MapVertical read through get_lost / get_gained / get_retained / get_duplicated /
    get_number_duplications and the .ancestor / .descendant attributes of the result object"""
    return hmapS(_PubView(v))

def upmapS(m):
    a = gtax(m.ancestor); d = gtax(m.descendant)
    items = []
    for hy, (ho, fl) in m.upMap.items():
        items.append(nodekey(hy) + '>' + (nodekey(ho) if ho is not None else '-') + '/' + (('1' if fl else '0') if ho is not None else 'x'))
    return taxS(a) + '>' + taxS(d) + '|' + ';'.join(sorted(items))

def onS(x):
    return 'N' if x is None else str(x)

def featS(node, root):
    p = tuple(root) + pathof_rel(node)
    return taxS(p) + '=' + ','.join([str(node.nbr_genes), onS(node.dupl), onS(node.lost), onS(node.gain), onS(node.retained),
                                     onS(node.duplication), onS(node.nbr_events)])

def pathof_rel(node):
    p = []
    while node.up is not None:
        p.append(node.up.children.index(node))
        node = node.up
    return tuple(reversed(p))

def profileS(tm, root=()):
    return ' '.join(featS(n, root) for n in tm.traverse('preorder'))

def observe_nav(h, o):
    gen = genomes_of(h)
    for top in h.get_list_top_level_hogs():
        for n in all_nodes(top):
            if not isinstance(n, ag.HOG):
                continue
            bysp = n.get_all_descendant_genes_clustered_by_species()
            o.put('nav', '%s|genes=%s|bysp=%s|hogs=%s|levels=%s|top=%s' % (
                nodekey(n), ','.join(sorted(g.unique_id for g in n.get_all_descendant_genes())),
                ';'.join(sorted(taxS(gtax(sp)) + ':' + ','.join(sorted(g.unique_id for g in gs)) for sp, gs in bysp.items())),
                keysS(n.get_all_descendant_hogs()),
                ','.join(sorted(taxS(gtax(g)) for g in n.get_all_descendant_hog_levels())),
                nodekey(n.get_top_level_hog())))
    for p, g in sorted(gen.items()):
        if g.genes and not g.taxon.is_leaf():
            cl = g.get_ancestral_clustering()
            o.put('aclust', taxS(p) + '|' + ';'.join(sorted(nodekey(k) + '=' + ','.join(sorted(x.unique_id for x in v)) for k, v in cl.items())))

def xml_struct(el):
    """canonical element structure of an exported orthoXML <groups> subtree (same text as Driver.elemS)"""
    tag = re.sub(r'^\{.*\}', '', el.tag)
    if tag == 'geneRef':
        return 'ref(%s)' % el.get('id')
    if tag == 'property':
        return 'prop(%s=%s)' % (el.get('name'), el.get('value'))
    if tag == 'score':
        return 'score(%s=%s)' % (el.get('id'), el.get('value'))
    kids = sorted(xml_struct(c) for c in el)
    if tag == 'orthologGroup':
        return 'og[%s](%s)' % (osS(el.get('id')), ' '.join(kids))
    if tag == 'paralogGroup':
        return 'pg(%s)' % ' '.join(kids)
    return tag + '(' + ' '.join(kids) + ')'
