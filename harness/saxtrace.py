"""Lock-step trace of pyham's streaming parser (DESIGN 4.6).

`OrthoXMLParser` is the *target* of the XML library: `start(tag, attrib)` / `end(tag)` are called once per element
boundary and the object keeps `hog_stack`, `paralog_stack`, `in_paralogGroup`, `skip_this_hog` between the calls.
`lean/PyhamModel/Model/Sax.lean` is the same machine (`step`), proved equal to the recursive loader all theorems are
about (`Lemmas/SaxSim.lean`).  This module wraps the two methods -- in the harness process, nothing in /repo is
edited -- and records, for every load,

  * the calls the XML library really made for the elements of the groups section (the machine's input), and
  * what the parser object looks like after each of them (the machine's state, `MS.obs`),

so that the driver can replay the recorded calls through `step` and the two traces can be compared call by call.
Calls for other elements (species, gene, notes, foreign namespaces, ...) must leave the traced state untouched.
"""
from observe import pyham, err_name

P = pyham.parsers.OrthoXMLParser
NS = '{http://orthoXML.org/2011/}'
LAST = [None]
MAX_EVENTS = 6000          # (very large documents are not traced)

DOC_LEVEL = [True]         # record <species> / <gene> calls as events of the second pass (False: groups section only)

class Trace(object):
    def __init__(self):
        self.events = []       # s-expressions
        self.obs = []          # strings, one per event that returned
        self.end = 'ok'        # or err:<Class> -- the call that raised is the last event
        self.problems = []     # a call for a foreign element changed the traced state
        self.flt = None        # top-level ids kept (second pass of a filtered load)
        self.keep = None       # gene ids kept
        self.overflow = False
    def text(self):
        return ';'.join(self.obs) + '#' + self.end

def q(s):
    return '"' + str(s).replace('\\', '\\\\').replace('"', '\\"') + '"'

def dobs_of(p):
    """after a <species> / <gene> call: is a species open, how many gene ids are declared so far"""
    return 'S%d,%d' % (1 if p.current_species is None else 0, len(p.extant_gene_map))

def obs_of(p):
    # The species-level collapse (observation D7, outside the properties' domain) decrements the depth of a frame; a frame
    # collapsed into twice goes negative in Python where the model's natural number stays at 0.  The two are equivalent: only a
    # frame opened inside a group (depth >= 1) is ever patched, while it is on the stack len(hog_stack) >= 1, and the depth is
    # only ever compared with len(hog_stack).  Negative depths are therefore read as 0.
    fr = '%d:' % len(p.paralog_stack) + '|'.join('%d/%d/%d' % (max(0, f['depth']), f['size'], len(f['node'].children)) for f in reversed(p.paralog_stack[-8:]))
    ip = p.in_paralogGroup
    if ip is not None:
        ip = max(0, ip)
    return '%d,%d,%s,%s' % (len(p.hog_stack), 1 if p.skip_this_hog else 0, '-' if ip is None else str(ip), fr)

def event_of(kind, tag, attrib, doc=True):
    """the machine event of a call, or None"""
    if not tag.startswith(NS):
        return None
    t = tag[len(NS):]
    if DOC_LEVEL[0] and doc:
        # the declarations are part of the stream too (document machine, Sax.dstep)
        if t == 'species':
            return '(/sp)' if kind == 'end' else ('(sp %s)' % q(attrib['name'])) if 'name' in attrib else None
        if t == 'gene' and kind == 'start' and 'id' in attrib:
            # (with the other attribute values: the first pass of a filtered load selects genes by them)
            return '(gene %s%s)' % (q(attrib['id']), ''.join(' ' + q(v) for k_, v in attrib.items() if k_ != 'id'))
    if kind == 'end':
        return '(/og)' if t == 'orthologGroup' else '(/pg)' if t == 'paralogGroup' else None
    if t == 'orthologGroup':
        return '(og %s %s)' % (q(attrib['id']) if 'id' in attrib else 'none', q(attrib['og']) if 'og' in attrib else 'none')
    if t == 'paralogGroup':
        return '(pg %s)' % (q(attrib['og']) if 'og' in attrib else 'none')
    if t == 'geneRef':
        if 'id' not in attrib:
            return None
        return '(ref %s%s)' % (q(attrib['id']), (' ' + q(attrib['LOFT'])) if 'LOFT' in attrib else '')
    if t == 'score' and 'id' in attrib and 'value' in attrib:
        return '(score %s %s)' % (q(attrib['id']), q(attrib['value']))
    if t == 'property' and 'name' in attrib and 'value' in attrib:
        return '(prop %s %s)' % (q(attrib['name']), q(attrib['value']))
    return None

_installed = [False]

def install():
    if _installed[0]:
        return
    _installed[0] = True
    o_init, o_start, o_end = P.__init__, P.start, P.end
    def init(self, *a, **k):
        o_init(self, *a, **k)
        t = Trace()
        f = self.filterObj
        if f is not None:
            try:
                t.flt = [str(x) for x in f.hogsId]
                t.keep = [str(x) for x in f.geneUniqueId]
            except Exception:      # noqa
                t.flt = t.keep = None
        self._verif_trace = t
        LAST[0] = t
    def call(self, kind, orig, tag, attrib):
        t = getattr(self, '_verif_trace', None)
        if t is None or t.overflow:
            return orig(self, tag, attrib) if kind == 'start' else orig(self, tag)
        # (the tracer must never disturb the load: if the parser object no longer has the attributes the observation reads --
        # a refactoring of its internals -- tracing stops and the trace says so; that is a broken correspondence, not a failing load)
        try:
            ev = event_of(kind, tag, attrib or {})
            before = obs_of(self) if ev is None else None
        except Exception as e_:      # noqa
            t.overflow = True; t.end = 'untraceable:' + type(e_).__name__
            return orig(self, tag, attrib) if kind == 'start' else orig(self, tag)
        try:
            r = orig(self, tag, attrib) if kind == 'start' else orig(self, tag)
        except Exception as e:      # noqa
            if ev is not None:
                t.events.append(ev); t.end = 'err:' + err_name(e)
            else:
                t.end = 'err-at-foreign-call:' + err_name(e)
            t.overflow = True      # nothing is recorded after the failing call
            raise
        try:
            if ev is None:
                if obs_of(self) != before:
                    t.problems.append('%s(%s) changed the parser state %s -> %s' % (kind, tag, before, obs_of(self)))
            else:
                if len(t.events) >= MAX_EVENTS:
                    t.overflow = True; t.end = 'overflow'
                else:
                    t.events.append(ev); t.obs.append(dobs_of(self) if ev.startswith(('(sp ', '(gene ', '(/sp)')) else obs_of(self))
        except Exception as e_:      # noqa
            t.overflow = True; t.end = 'untraceable:' + type(e_).__name__
        return r
    def start(self, tag, attrib):
        return call(self, 'start', o_start, tag, attrib)
    def end(self, tag):
        return call(self, 'end', o_end, tag, None)
    P.__init__ = init; P.start = start; P.end = end
    install_filter()

# ---- the first pass of a filtered load (FilterOrthoXMLParser): same wrapping, its own trace
F = pyham.parsers.FilterOrthoXMLParser
LASTF = [None]

def fobs_of(p):
    return '%d,%d,%d,%d,%d' % (len(p.geneUniqueId), len(p.hogsId), len(p.hog_stack), len(p.hog_generef), 1 if p.add_this_hog else 0)

def install_filter():
    o_init, o_start, o_end = F.__init__, F.start, F.end
    def init(self, *a, **k):
        o_init(self, *a, **k)
        t = Trace()
        fo = self.filterObj
        try:
            t.queries = tuple(sorted(map(str, getattr(fo, n_))) for n_ in ('HOGId_filter', 'GeneExtId_filter', 'GeneIntId_filter'))
        except Exception as e_:      # noqa
            t.queries = ((), (), ()); t.overflow = True; t.end = 'untraceable:' + type(e_).__name__
        self._verif_trace = t
        LASTF[0] = t
    def call(self, kind, orig, tag, attrib):
        t = getattr(self, '_verif_trace', None)
        if t is None or t.overflow:
            return orig(self, tag, attrib) if kind == 'start' else orig(self, tag)
        ev = event_of(kind, tag, attrib or {})
        try:
            r = orig(self, tag, attrib) if kind == 'start' else orig(self, tag)
        except Exception as e:      # noqa
            if ev is not None:
                t.events.append(ev); t.end = 'err:' + err_name(e)
            else:
                t.end = 'err-at-foreign-call:' + err_name(e)
            t.overflow = True
            raise
        try:
            if ev is not None:
                if len(t.events) >= MAX_EVENTS:
                    t.overflow = True; t.end = 'overflow'
                else:
                    t.events.append(ev); t.obs.append(fobs_of(self))
        except Exception as e_:      # noqa
            t.overflow = True; t.end = 'untraceable:' + type(e_).__name__
        return r
    F.__init__ = init
    F.start = lambda self, tag, attrib: call(self, 'start', o_start, tag, attrib)
    F.end = lambda self, tag: call(self, 'end', o_end, tag, None)

def last_filter():
    t = LASTF[0]
    if t is None or t.end == 'overflow' or t.end.startswith('err-at-foreign-call'):
        return None
    return t

def query_filter(t):
    h, e, i = t.queries
    return '(saxf (hog %s) (ext %s) (int %s) %s%s)' % (' '.join(map(q, h)), ' '.join(map(q, e)), ' '.join(map(q, i)), 'doc ' if DOC_LEVEL[0] else '', ' '.join(t.events))

def last():
    """the trace of the most recent load in this process (None if it was too large)"""
    t = LAST[0]
    if t is None or t.end == 'overflow':
        return None
    return t

def reset():
    LAST[0] = None
    LASTF[0] = None

def query(t):
    """the driver query replaying the recorded calls"""
    flt = 'none' if t.flt is None else '(ids %s)' % ' '.join(q(x) for x in t.flt)
    keep = 'all' if t.keep is None else '(ids %s)' % ' '.join(q(x) for x in t.keep)
    return '(sax %s %s %s%s)' % (flt, keep, 'doc ' if DOC_LEVEL[0] else '', ' '.join(t.events))
