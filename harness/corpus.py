"""The repository's own fixtures as a corpus: every (tree, orthoXML) pair the test-suite loads is parsed into the
model's abstract input and run through pyham and the Lean model like a generated case (it runs first).
Fixtures contain things the generator never writes (TaxRange on every group, og attributes, species-level groups,
notes, geneId/protId/transcriptId in any combination)."""
import os, re
import xml.etree.ElementTree as ET
import gen

NS = '{http://orthoXML.org/2011/}'

def tree_from_newick(text):
    import ete3
    t = ete3.Tree(text, format=1, quoted_node_names=True)
    def rec(n):
        return (n.name, tuple(rec(c) for c in n.children))
    return rec(t)

def tree_from_phyloxml(path, leaf_tag, internal_tag):
    from ete3 import Phyloxml
    project = Phyloxml(); project.build_from_file(path)
    tree = project.get_phylogeny()[0]
    def nm(n, tag):
        if tag == 'clade_name':
            return n.name
        tx = n.phyloxml_clade.taxonomy[0]
        return tx.scientific_name if tag == 'taxonomy_scientific_name' else tx.code
    def rec(n):
        return (nm(n, leaf_tag if n.is_leaf() else internal_tag), tuple(rec(c) for c in n.children))
    return rec(tree)

def elems_of(el):
    out = []
    for c in el:
        tag = c.tag.replace(NS, '')
        if tag == 'geneRef':
            out.append(('ref', c.get('id'), c.get('LOFT')))
        elif tag == 'score':
            out.append(('score', c.get('id'), c.get('value')))
        elif tag == 'property':
            out.append(('prop', c.get('name'), c.get('value')))
        elif tag == 'orthologGroup':
            out.append(('og', c.get('id'), c.get('og'), elems_of(c)))
        elif tag == 'paralogGroup':
            out.append(('pg', c.get('og'), elems_of(c)))
    return out

def read_orthoxml(path):
    root = ET.parse(path).getroot()
    species = []
    for sp in root.findall(NS + 'species'):
        genes = []
        for g in sp.iter(NS + 'gene'):
            genes.append((g.get('id'), [(k, v) for k, v in g.attrib.items() if k != 'id']))
        species.append((sp.get('name'), genes))
    groups = elems_of(root.find(NS + 'groups'))
    return species, groups

def fixtures(repo):
    d = os.path.join(repo, 'tests', 'data')
    simple = open(os.path.join(d, 'simpleEx.nwk')).read().strip()
    out = []
    def add(name, T, naming, xml, kw):
        sp, gr = read_orthoxml(os.path.join(d, xml))
        D = gen.Dataset(T, naming)
        D.species = sp; D.groups = gr; D.base_groups = gr; D.families = []
        D.meta = dict(corpus=name, tree_kw=kw, hog_file=os.path.join(d, xml))
        out.append(D)
    T = tree_from_newick(simple)
    for xml in ('simpleEx.orthoxml', 'simpleEx_complexParalogs.orthoxml', 'SimpleEx_complexParalogGetHOGS3format.xml', 'hogvisEx.orthoxml'):
        for naming in ('own', 'synth'):
            add(xml + ':' + naming, T, naming, xml, dict(tree_file=simple, use_internal_name=(naming == 'own')))
    add('multiple_duplication_example', tree_from_newick('(betta_splendens,anabas_testudineus);'), 'synth',
        'multiple_duplication_example.xml', dict(tree_file='(betta_splendens,anabas_testudineus);', use_internal_name=False))
    for base in ('paralogs_only_inside_og', 'paralogs_only_toplevel_og'):
        nwk = open(os.path.join(d, base + '.nwk')).read().strip()
        add(base, tree_from_newick(nwk), 'own', base + '.orthoxml', dict(tree_file=nwk, use_internal_name=True))
    nwk = open(os.path.join(d, 'birds.nwk')).read().strip()
    add('birds', tree_from_newick(nwk), 'own', 'birds.orthoxml', dict(tree_file=nwk, use_internal_name=True))
    return out

# ------------------------------------------------------------------ the Lean witness datasets

def _sx_parse(text):
    """parser for the driver's s-expressions: atoms -> ('a', s), strings -> str, lists -> list"""
    i = 0; n = len(text)
    def one():
        nonlocal i
        while i < n and text[i] in ' \n':
            i += 1
        c = text[i]
        if c == '(':
            i += 1; out = []
            while True:
                while text[i] in ' \n':
                    i += 1
                if text[i] == ')':
                    i += 1; return out
                out.append(one())
        if c == '"':
            i += 1; buf = []
            while text[i] != '"':
                if text[i] == '\\':
                    i += 1
                buf.append(text[i]); i += 1
            i += 1
            return ''.join(buf)
        j = i
        while i < n and text[i] not in ' ()\n':
            i += 1
        return ('a', text[j:i])
    return one()

def _atom(x):
    return x[1] if isinstance(x, tuple) else None

def _o(x):
    return x if isinstance(x, str) else None

def _tree(x):
    return (x[1], tuple(_tree(k) for k in x[2:]))

def _elem(x):
    k = _atom(x[0])
    if k == 'ref':
        return ('ref', x[1], x[2] if len(x) > 2 else None)
    if k in ('score', 'prop'):
        return (k, x[1], x[2])
    if k == 'og':
        return ('og', _o(x[1]), _o(x[2]), [_elem(e) for e in x[3:]])
    return ('pg', _o(x[1]), [_elem(e) for e in x[2:]])

def _sl(x):
    if _atom(x[0]) == 'g':
        return ('g', x[1], x[2] if len(x) > 2 else None)
    return ('grp', _atom(x[1]) == '1', _o(x[2]), _atom(x[3]) == '1', [_sub(s) for s in x[4:]])

def _sub(x):
    k = _atom(x[0])
    if k == 'one':
        return ('one', int(_atom(x[1])), _sl(x[2]))
    if k == 'dup':
        return ('dup', int(_atom(x[1])), _o(x[2]), [_sl(c) for c in x[3:]])
    return ('ann', _elem(x[1]))

def lean_witnesses(driver):
    """the datasets PROVED consistent in lean/PyhamModel/Witness.lean (`simpleEx` = the repository fixture written as
    spelled histories, `elided` = a polytomy tree with elided levels, spilled paralog groups, annotations), printed by
    the driver and turned into ordinary generated-style datasets (with histories, so every echo and oracle applies)"""
    import subprocess
    p = subprocess.run([driver], input='(witnesses)\n', stdout=subprocess.PIPE, stderr=subprocess.PIPE, text=True)
    out = []
    for ln in p.stdout.split('\n'):
        parts = ln.split('\t', 2)
        if len(parts) == 3 and parts[1] == 'wcase':
            sx = _sx_parse(parts[2])
            f = {_atom(e[0]): e[1:] for e in sx[2:]}
            D = gen.Dataset(_tree(f['tree'][0]), _atom(f['naming'][0]))
            D.species = [(sp[1], [(g[1], [(kv[0], kv[1]) for kv in g[2:]]) for g in sp[2:]]) for sp in f['species']]
            D.groups = [_elem(e) for e in f['groups']]
            D.base_groups = list(D.groups)
            D.families = []
            for h in f['histories']:
                tax = tuple(int(_atom(a)) for a in h[0])
                l = _sl(h[1])
                D.families.append((tax, l, l[2]))
            D.meta = dict(witness=sx[1])
            out.append(D)
    return out

def witness_matches_fixture(D, repo):
    """the Lean dataset `simpleEx` is the repository's tests/data/simpleEx.orthoxml: same species blocks, genes,
    cross-references and the same <groups> tree (attributes and element order inside a group up to the position
    of the TaxRange property, which the encoder writes first)"""
    sp, gr = read_orthoxml(os.path.join(repo, 'tests', 'data', 'simpleEx.orthoxml'))
    def norm(e):
        if e[0] == 'og':
            kids = [norm(x) for x in e[3]]
            return ('og', e[1], e[2], sorted([k for k in kids if k[0] in ('prop', 'score')]) + [k for k in kids if k[0] not in ('prop', 'score')])
        if e[0] == 'pg':
            return ('pg', e[1], [norm(x) for x in e[2]])
        return tuple(e)
    bad = []
    if [(n, [(g, sorted(x)) for g, x in gs]) for n, gs in sp] != [(n, [(g, sorted(x)) for g, x in gs]) for n, gs in D.species]:
        bad.append('species section of Witness.simpleEx differs from tests/data/simpleEx.orthoxml')
    if [norm(g) for g in gr] != [norm(g) for g in D.groups]:
        bad.append('<groups> of Witness.simpleEx differs from tests/data/simpleEx.orthoxml')
    T = tree_from_newick(open(os.path.join(repo, 'tests', 'data', 'simpleEx.nwk')).read().strip())
    if T != D.T:
        bad.append('tree of Witness.simpleEx differs from tests/data/simpleEx.nwk')
    return bad
