"""The repository's own fixtures as a corpus: every (tree, orthoXML) pair the test-suite loads is parsed into the
model's abstract input and run through pyham and the Lean model like a generated case (it runs first).
Fixtures contain things the generator never writes (TaxRange on every group, og attributes, species-level groups,
notes, geneId/protId/transcriptId in any combination)."""
import os, re
import xml.etree.ElementTree as ET
import gen

NS = '{http://orthoXML.org/2011/}'

def tree_from_newick(text):
    import ete3
    t = ete3.Tree(text, format=1, quoted_node_names=True)
    def rec(n):
        return (n.name, tuple(rec(c) for c in n.children))
    return rec(t)

def tree_from_phyloxml(path, leaf_tag, internal_tag):
    from ete3 import Phyloxml
    project = Phyloxml(); project.build_from_file(path)
    tree = project.get_phylogeny()[0]
    def nm(n, tag):
        if tag == 'clade_name':
            return n.name
        tx = n.phyloxml_clade.taxonomy[0]
        return tx.scientific_name if tag == 'taxonomy_scientific_name' else tx.code
    def rec(n):
        return (nm(n, leaf_tag if n.is_leaf() else internal_tag), tuple(rec(c) for c in n.children))
    return rec(tree)

def elems_of(el):
    out = []
    for c in el:
        tag = c.tag.replace(NS, '')
        if tag == 'geneRef':
            out.append(('ref', c.get('id'), c.get('LOFT')))
        elif tag == 'score':
            out.append(('score', c.get('id'), c.get('value')))
        elif tag == 'property':
            out.append(('prop', c.get('name'), c.get('value')))
        elif tag == 'orthologGroup':
            out.append(('og', c.get('id'), c.get('og'), elems_of(c)))
        elif tag == 'paralogGroup':
            out.append(('pg', c.get('og'), elems_of(c)))
    return out

def read_orthoxml(path):
    root = ET.parse(path).getroot()
    species = []
    for sp in root.findall(NS + 'species'):
        genes = []
        for g in sp.iter(NS + 'gene'):
            genes.append((g.get('id'), [(k, v) for k, v in g.attrib.items() if k != 'id']))
        species.append((sp.get('name'), genes))
    groups = elems_of(root.find(NS + 'groups'))
    return species, groups

def fixtures(repo):
    d = os.path.join(repo, 'tests', 'data')
    simple = open(os.path.join(d, 'simpleEx.nwk')).read().strip()
    out = []
    def add(name, T, naming, xml, kw):
        sp, gr = read_orthoxml(os.path.join(d, xml))
        D = gen.Dataset(T, naming)
        D.species = sp; D.groups = gr; D.base_groups = gr; D.families = []
        D.meta = dict(corpus=name, tree_kw=kw, hog_file=os.path.join(d, xml))
        out.append(D)
    T = tree_from_newick(simple)
    for xml in ('simpleEx.orthoxml', 'simpleEx_complexParalogs.orthoxml', 'SimpleEx_complexParalogGetHOGS3format.xml', 'hogvisEx.orthoxml'):
        for naming in ('own', 'synth'):
            add(xml + ':' + naming, T, naming, xml, dict(tree_file=simple, use_internal_name=(naming == 'own')))
    add('multiple_duplication_example', tree_from_newick('(betta_splendens,anabas_testudineus);'), 'synth',
        'multiple_duplication_example.xml', dict(tree_file='(betta_splendens,anabas_testudineus);', use_internal_name=False))
    for base in ('paralogs_only_inside_og', 'paralogs_only_toplevel_og'):
        nwk = open(os.path.join(d, base + '.nwk')).read().strip()
        add(base, tree_from_newick(nwk), 'own', base + '.orthoxml', dict(tree_file=nwk, use_internal_name=True))
    nwk = open(os.path.join(d, 'birds.nwk')).read().strip()
    add('birds', tree_from_newick(nwk), 'own', 'birds.orthoxml', dict(tree_file=nwk, use_internal_name=True))
    return out
