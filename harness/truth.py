"""Python port of `truth` (History.lean): the hierarchy a spelled history means, and the
classification of vertical comparisons computed from it (independent of pyham)."""
from observe import taxS

class TNode(object):
    __slots__ = ('gene', 'tx', 'flag', 'kids', 'dups', 'written', 'hid', 'parent', 'scores', 'props', 'loft')
    def __init__(self):
        self.gene = None; self.tx = (); self.flag = False; self.kids = []; self.dups = []
        self.written = True; self.hid = None; self.parent = None; self.scores = {}; self.props = {}; self.loft = None

def truth(T_name, p, l, flag=False, parent=None):
    """T_name(p) -> display name of taxon p"""
    n = TNode(); n.tx = p; n.flag = flag; n.parent = parent
    if l[0] == 'g':
        n.gene = l[1]; n.loft = l[2]
        return n
    _, w, hid, label, subs = l
    n.written = w; n.hid = hid
    if w and label:
        n.props['TaxRange'] = T_name(p)
    for s in subs:
        if s[0] == 'one':
            n.kids.append(truth(T_name, p + (s[1],), s[2], False, n))
        elif s[0] == 'dup':
            cs = [truth(T_name, p + (s[1],), c, True, n) for c in s[3]]
            n.kids += cs
            n.dups.append(cs)
        else:
            e = s[1]
            if e[0] == 'score':
                n.scores[e[1]] = e[2]
            else:
                n.props[e[1]] = e[2]
    return n

def leaves(n):
    if n.gene is not None:
        return [n.gene]
    out = []
    for k in n.kids:
        out += leaves(k)
    return out

def key(n):
    return taxS(n.tx) + ':' + ','.join(sorted(leaves(n)))

def forestS(n):
    f = '+' if n.flag else '-'
    if n.gene is not None:
        return 'G[%s@%s %s]' % (n.gene, taxS(n.tx), f)
    kids = sorted(forestS(k) for k in n.kids)
    dups = sorted('D(%s:%s)' % (taxS(n.tx), '|'.join(sorted(key(c) for c in d))) for d in n.dups)
    return 'H[%s %s {%s} <%s>]' % (taxS(n.tx), f, ' '.join(kids), ' '.join(dups))

def nodes(n):
    yield n
    for k in n.kids:
        yield from nodes(k)

def classify(roots, singles, a, d):
    """expected vertical comparison between taxa a (ancestor) and d, from the generating histories.
    roots: truth nodes of the families; singles: [(gene id, taxon)].
    Returns the same text as observe.hmapS without the trailing consistency flag."""
    gain = []; ret = []; dup = {}; seen = set()
    anc_nodes = []
    for r in roots:
        for n in nodes(r):
            if n.tx == a:
                anc_nodes.append(n)
            if n.tx == d:
                x = n.parent; fl = n.flag; found = None
                while x is not None:
                    if x.tx == a:
                        found = x
                        break
                    if x.flag:
                        fl = True
                    x = x.parent
                if found is None:
                    gain.append(key(n))
                else:
                    seen.add(id(found))
                    if fl:
                        dup.setdefault(id(found), (found, []))[1].append(key(n))
                    else:
                        ret.append(key(found) + '>' + key(n))
    for g, t in singles:
        if t == d:
            gain.append(taxS(t) + ':' + g)
    loss = [key(n) for n in anc_nodes if id(n) not in seen]
    ndup = sum(len(v[1]) - 1 for v in dup.values())
    return '|'.join([taxS(a) + '>' + taxS(d), 'G=' + ';'.join(sorted(gain)), 'R=' + ';'.join(sorted(ret)),
                     'D=' + ';'.join(sorted(key(v[0]) + '>' + '+'.join(sorted(v[1])) for v in dup.values())),
                     'L=' + ';'.join(sorted(loss)), 'n=%d' % ndup])
